import sys, itertools
sys.path.insert(0,'/verif')
import z3, importlib
from pyvc.loader import Repo
from pyvc import engine, sym
from pyvc.engine import *
modname, hname, caseidx, pathidx, gname = sys.argv[1:6]
mod = importlib.import_module(modname)
h=[x for x in mod.HARNESSES if x.name==hname][0]
repo=Repo('/repo')
case=list(h.cases())[int(caseidx)]
theory=SigmaTheory()
def make_ctx():
    sym._fresh_counter = itertools.count()
    c=Ctx(theory=theory); c.repo=repo; c.contracts=h.contracts(repo); return c
def run(c):
    st=h.setup(c,case); res=h.run(c,st); return res, h.ensures(c,st,res), st
for pidx,(c,out) in enumerate(explore(run, make_ctx)):
    if pidx!=int(pathidx): continue
    print(out[0])
    res,goals,st=out[1]
    print("RESULT", type(res).__name__, getattr(res,"__dict__",None))
    for n,g in goals:
        if n==gname:
            g=to_bterm(g)
            print("GOAL", g)
            print("PC:")
            for f in c.pc(): print("   ", f)
            print("POINTWISE:")
            for iv,f in c.pointwise: print("   ", f)
            k,m=refute(c,g,3)
            print("refuted n=",k)
            if m is not None:
                for d in sorted(m.decls(), key=lambda d:d.name()):
                    print("   ", d.name(), "=", m[d])
            if len(sys.argv) > 6:
                print("FOLDS:")
                for k,(s_,b,t) in c.folds.items():
                    print("  ", s_, "=\n      ", t)
                fs = c.closure([z3.Not(g)])
                print("N FACTS", len(fs))
                for f in fs:
                    sx = str(f)
                    if 'bs[' in sx or 'cnt[' in sx: print("   T:", sx[:700])
    break
