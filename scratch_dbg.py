import sys
sys.path.insert(0,'/verif')
import z3
from pyvc.loader import Repo
from pyvc import engine, sym
from pyvc.engine import *
from contracts.c05 import *
repo=Repo('/repo')
h=NegateH()
case={"sign":-1,"generated_id":True}
theory=SigmaTheory()
def make_ctx():
    c=Ctx(theory=theory); c.repo=repo; c.contracts=h.contracts(repo); return c
def run(c):
    st=h.setup(c,case); res=h.run(c,st); return res, h.ensures(c,st,res), st
for c,out in explore(run, make_ctx):
    res,goals,st=out[1]
    for n,g in goals:
        if n=='post.safe':
            g=to_bterm(g)
            print("GOAL", g)
            print("PC", c.pc())
            fs=c.closure([z3.Not(g)])
            for f in fs: print("  F", f)
            s=z3.Solver(); s.add(*fs); print(s.check())
            if s.check()==z3.sat: print(s.model())
