#!/bin/bash
# ./mut.sh <prop> <python-expr-old> <python-expr-new> [file]   -- apply a textual mutation on a scratch worktree and run the check
set -e
P=$1; OLD=$2; NEW=$3; F=${4:-puan/logic/plog/__init__.py}
D=$(mktemp -d /tmp/mutXXXX); rmdir $D
git -C /repo worktree add -q $D HEAD
python3 - "$D/$F" "$OLD" "$NEW" <<'PY'
import sys
p,old,new=sys.argv[1:4]
s=open(p).read()
assert s.count(old)>=1, "pattern not found"
open(p,'w').write(s.replace(old,new,1))
PY
(cd /verif && VERIF_REPO=$D ./check $P 2>&1 | tail -6) || true
git -C /repo worktree remove --force $D
