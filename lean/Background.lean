/-
Background lemmas of the verification of puan-python (pure mathematics, no code involved).
Checked by `lean lean/Background.lean` (Lean 4 + Mathlib) in the thorough tier.
-/
import Mathlib

open Finset

/-- C10: the ambivalence checks of `errors()` compare the number of distinct *keys* (id together with the definition)
with the number of distinct *ids*.  As the id is a component of the key (`p ∘ f`), the two numbers agree exactly when
equal ids imply equal keys, i.e. every id has a single definition. -/
theorem card_image_comp_iff {α β γ : Type*} [DecidableEq β] [DecidableEq γ]
    (s : Finset α) (f : α → β) (p : β → γ) :
    (s.image f).card = (s.image (p ∘ f)).card ↔
      ∀ x ∈ s, ∀ y ∈ s, p (f x) = p (f y) → f x = f y := by
  have h : s.image (p ∘ f) = (s.image f).image p := by
    rw [Finset.image_image]
  rw [h, eq_comm, Finset.card_image_iff]
  constructor
  · intro hinj x hx y hy hxy
    exact hinj (by simpa using ⟨x, hx, rfl⟩) (by simpa using ⟨y, hy, rfl⟩) hxy
  · intro hall a ha b hb hab
    simp only [Finset.coe_image, Set.mem_image, Finset.mem_coe] at ha hb
    obtain ⟨x, hx, rfl⟩ := ha
    obtain ⟨y, hy, rfl⟩ := hb
    exact hall x hx y hy hab

/-- sigma-lin: a pointwise linear inequality sums up (the rule behind every fact of pyvc's sigma theory). -/
theorem sigma_lin {ι : Type*} (s : Finset ι) (f g : ι → ℤ) (h : ∀ i ∈ s, f i ≤ g i) :
    ∑ i ∈ s, f i ≤ ∑ i ∈ s, g i :=
  Finset.sum_le_sum h

/-- region split: a sum over the index set is the sum over the regions of a partition given by a predicate. -/
theorem sum_split {ι : Type*} (s : Finset ι) (p : ι → Prop) [DecidablePred p] (f : ι → ℤ) :
    ∑ i ∈ s, f i = ∑ i ∈ s.filter p, f i + ∑ i ∈ s.filter (fun i => ¬ p i), f i := by
  rw [Finset.sum_filter_add_sum_filter_not]

/-- an empty region contributes nothing (`C = 0 → B = 0`). -/
theorem sum_empty_region {ι : Type*} (s : Finset ι) (f : ι → ℤ) (h : s.card = 0) : ∑ i ∈ s, f i = 0 := by
  rw [Finset.card_eq_zero] at h
  simp [h]

/-- constant unknown on a region: the basis sum is the constant times the count. -/
theorem sum_const_region {ι : Type*} (s : Finset ι) (f : ι → ℤ) (c : ℤ) (h : ∀ i ∈ s, f i = c) :
    ∑ i ∈ s, f i = c * s.card := by
  rw [Finset.sum_congr rfl h, Finset.sum_const, nsmul_eq_mul, mul_comm]

/-- C14: weights in which every level exceeds the total weight of all lower levels order 0/1 vectors
lexicographically by level (two-level form: a higher-level difference of at least one unit dominates any
lower-level difference bounded by the lower levels' total weight). -/
theorem dominance_two_level (w L dhi dlo : ℤ) (hL : 0 ≤ L) (hw : L < w) (hd : 1 ≤ dhi) (hlo : -L ≤ dlo) :
    0 < w * dhi + dlo := by
  have hw0 : 0 ≤ w := le_of_lt (lt_of_le_of_lt hL hw)
  have h1 : w * 1 ≤ w * dhi := mul_le_mul_of_nonneg_left hd hw0
  linarith
