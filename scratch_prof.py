import sys, cProfile, pstats, os
sys.path.insert(0,'/verif')
from pyvc.loader import Repo
from pyvc.engine import verify
import contracts.assume as m
repo=Repo(os.environ.get('VERIF_REPO','/repo'))
h=m.AssumeH(); h.cases=lambda: [{"sign":1}]
cProfile.run("obs,stats=verify(h,repo)", "/tmp/prof.out")
print(stats)
from collections import Counter
print(Counter(o.status for o in obs))
pstats.Stats("/tmp/prof.out").sort_stats("tottime").print_stats(25)
