"""pyvc.sym -- symbolic scalars, execution context, path forking.

The real repository code is executed by CPython itself; only *data* is symbolic.  A symbolic
int/bool is a proxy around a z3 term.  Whenever the running code needs a concrete truth value
(`if`, `not`, `and`, `or`, `in`) the proxy's ``__bool__`` asks the current execution context to
*branch*: the context first tries to decide the condition from the path condition (plus the
fold facts of pyvc.folds), otherwise it consumes one recorded decision.  The driver re-executes
the function once per decision list (depth first), so every feasible path of the real function is
enumerated; nothing is deep-copied.

Inside a *generic* context (the body of map/filter/sum over an abstract sequence, applied once to
the generic element with index variable i) branching is local: all local paths are enumerated and
their results merged into an if-then-else value, because a condition about element i must not
split the whole execution.
"""
import itertools
import z3

Z = z3.IntSort()
B = z3.BoolSort()


class Unsupported(Exception):
    """The engine cannot model something: fail closed (obligation undecided, never a violation)."""


class PathAbort(BaseException):
    """Raised to abandon an infeasible / pruned path (BaseException: not caught by `except Exception`)."""


# ------------------------------------------------------------------------------------------------
# scalars
# ------------------------------------------------------------------------------------------------

_rtype = type


def isi(x, cls):
    """isinstance on the *real* type only: proxies spoof __class__ for the running code, the engine must not be
    fooled (and must not trigger the branching that a spoofed __class__ lookup may perform)."""
    return issubclass(_rtype(x), cls)


def is_sym(x):
    return type(x) in (SInt, SBool, SId)


def is_cint(x):
    """concrete Python/numpy integer or bool"""
    if type(x) in (int, bool):
        return True
    if type(x) in (SInt, SBool, SId):
        return False
    try:
        import numpy
        return isinstance(x, (numpy.integer, numpy.bool_)) or (isinstance(x, int) and not is_sym(x))
    except ImportError:
        return isinstance(x, int)


def to_term(x):
    """Python/symbolic scalar -> z3 Int term."""
    tx = type(x)
    if isinstance(x, z3.ArithRef):
        return x
    if tx is SInt or tx is SId:
        return x.t
    if tx is SBool:
        return z3.If(x.t, z3.IntVal(1), z3.IntVal(0))
    if tx is bool:
        return z3.IntVal(1 if x else 0)
    if tx is int or (isinstance(x, int) and tx not in (SInt, SBool, SId)):
        return z3.IntVal(int(x))
    try:
        import numpy
        if isinstance(x, numpy.integer):
            return z3.IntVal(int(x))
        if isinstance(x, numpy.bool_):
            return z3.IntVal(1 if x else 0)
    except ImportError:
        pass
    raise Unsupported(f"not an integer scalar: {type(x).__name__} {x!r:.60}")


def to_bterm(x):
    """Python/symbolic truth value -> z3 Bool term (no forking)."""
    tx = type(x)
    if isinstance(x, z3.BoolRef):
        return x
    if tx is SBool:
        return x.t
    if tx is bool:
        return z3.BoolVal(x)
    if tx is SInt:
        return x.t != 0
    if tx is SId:
        raise Unsupported("truth value of a symbolic id")
    if tx is int:
        return z3.BoolVal(x != 0)
    if x is None:
        return z3.BoolVal(False)
    try:
        import numpy
        if isinstance(x, (numpy.bool_, numpy.integer)):
            return z3.BoolVal(bool(x))
    except ImportError:
        pass
    raise Unsupported(f"not a truth value: {type(x).__name__}")


def _is_num(x):
    tx = type(x)
    if tx is SId:
        return False
    if tx in (SInt, SBool, int, bool):
        return True
    if isinstance(x, int):  # IntEnum etc.
        return True
    try:
        import numpy
        return isinstance(x, (numpy.integer, numpy.bool_))
    except ImportError:
        return False


def mk_int(t):
    t = z3.simplify(t) if not z3.is_int_value(t) else t
    return SInt(t)


def lift(t):
    """z3 term -> Python value: constants become Python ints/bools."""
    if z3.is_bool(t):
        t = z3.simplify(t)
        if z3.is_true(t):
            return True
        if z3.is_false(t):
            return False
        return SBool(t)
    t = z3.simplify(t)
    if z3.is_int_value(t):
        return t.as_long()
    return SInt(t)


class SInt:
    __slots__ = ("t",)

    def __init__(self, t):
        self.t = t

    @property
    def __class__(self):  # the running code asks `x.__class__`: a symbolic integer *is* an int there
        return int

    # arithmetic -------------------------------------------------------------------------------
    def _bin(self, o, f, rev=False):
        if not _is_num(o):
            return NotImplemented
        a, b = self.t, to_term(o)
        if rev:
            a, b = b, a
        return lift(f(a, b))

    def __add__(self, o): return self._bin(o, lambda a, b: a + b)
    def __radd__(self, o): return self._bin(o, lambda a, b: a + b, True)
    def __sub__(self, o): return self._bin(o, lambda a, b: a - b)
    def __rsub__(self, o): return self._bin(o, lambda a, b: a - b, True)
    def __mul__(self, o): return self._bin(o, lambda a, b: a * b)
    def __rmul__(self, o): return self._bin(o, lambda a, b: a * b, True)
    def __neg__(self): return lift(-self.t)
    def __pos__(self): return self
    def __abs__(self): return lift(z3.If(self.t >= 0, self.t, -self.t))

    def __floordiv__(self, o):
        # Python floor division; z3 `/` on ints is Euclidean: equal for positive divisors.
        if type(o) is int and o > 0:
            return lift(self.t / z3.IntVal(o))
        raise Unsupported("floor division by a non-constant or non-positive divisor")

    def __mod__(self, o):
        if type(o) is int and o > 0:
            return lift(self.t % z3.IntVal(o))
        raise Unsupported("modulo by a non-constant or non-positive divisor")

    # comparisons ------------------------------------------------------------------------------
    def _cmp(self, o, f):
        if not _is_num(o):
            return NotImplemented
        return lift(f(self.t, to_term(o)))

    def __lt__(self, o): return self._cmp(o, lambda a, b: a < b)
    def __le__(self, o): return self._cmp(o, lambda a, b: a <= b)
    def __gt__(self, o): return self._cmp(o, lambda a, b: a > b)
    def __ge__(self, o): return self._cmp(o, lambda a, b: a >= b)

    def __eq__(self, o):
        if _is_num(o):
            return lift(self.t == to_term(o))
        if o is None or type(o) in (str, tuple, list, dict):
            return False
        return NotImplemented

    def __ne__(self, o):
        r = self.__eq__(o)
        if r is NotImplemented:
            return r
        return snot(r)

    def __hash__(self):
        raise Unsupported("native hash() of a symbolic integer (a real set/dict was keyed by symbolic data)")

    def __bool__(self):
        return ctx().branch(self.t != 0)

    def __index__(self):
        raise Unsupported("symbolic integer used as a concrete index/size")

    def __int__(self):
        raise Unsupported("int() of symbolic integer through __int__")

    def __repr__(self):
        return f"\u27e6{self.t}\u27e7"

    def __str__(self):
        # str() of symbolic data yields a *marked* placeholder that refuses to be inspected (SymStr)
        return SymStr(self)

    def __format__(self, spec):
        return SymStr(self)


class SBool:
    __slots__ = ("t",)

    def __init__(self, t):
        self.t = t

    @property
    def __class__(self):
        return bool

    def __bool__(self):
        return ctx().branch(self.t)

    # used as 0/1 integer ------------------------------------------------------------------------
    def _asint(self):
        return SInt(z3.If(self.t, z3.IntVal(1), z3.IntVal(0)))

    def __add__(self, o): return self._asint().__add__(o)
    def __radd__(self, o): return self._asint().__radd__(o)
    def __sub__(self, o): return self._asint().__sub__(o)
    def __rsub__(self, o): return self._asint().__rsub__(o)
    def __mul__(self, o): return self._asint().__mul__(o)
    def __rmul__(self, o): return self._asint().__rmul__(o)
    def __neg__(self): return self._asint().__neg__()
    def __lt__(self, o): return self._asint().__lt__(o)
    def __le__(self, o): return self._asint().__le__(o)
    def __gt__(self, o): return self._asint().__gt__(o)
    def __ge__(self, o): return self._asint().__ge__(o)

    def __eq__(self, o):
        if type(o) in (SBool, bool):
            return lift(self.t == to_bterm(o))
        if _is_num(o):
            return self._asint().__eq__(o)
        if o is None or type(o) in (str, tuple, list, dict):
            return False
        return NotImplemented

    def __ne__(self, o):
        r = self.__eq__(o)
        return r if r is NotImplemented else snot(r)

    def __and__(self, o):
        if type(o) in (SBool, bool):
            return lift(z3.And(self.t, to_bterm(o)))
        return NotImplemented

    __rand__ = __and__

    def __or__(self, o):
        if type(o) in (SBool, bool):
            return lift(z3.Or(self.t, to_bterm(o)))
        return NotImplemented

    __ror__ = __or__

    def __invert__(self):
        return lift(z3.Not(self.t))

    def __hash__(self):
        raise Unsupported("native hash() of a symbolic boolean")

    def __repr__(self):
        return f"<{self.t}>"

    __str__ = __repr__

    def __format__(self, spec):
        return f"<{self.t}>"


class SId(SInt):
    """an identifier (string in reality): only ==, !=, <, hash are meaningful; encoded as an integer"""
    __slots__ = ()

    @property
    def __class__(self):
        return str

    def _bin(self, o, f, rev=False):
        raise Unsupported("arithmetic/concatenation on a symbolic id")

    def _cmp(self, o, f):
        if type(o) is SId:
            if z3.is_int_value(self.t) or z3.is_int_value(o.t):
                raise Unsupported("ordering comparison involving an interned concrete id")
            return lift(f(self.t, o.t))
        raise Unsupported("ordering comparison between a symbolic id and a non-id")

    def __eq__(self, o):
        if type(o) is SId:
            return lift(self.t == o.t)
        if o is None:
            return False
        if type(o) in (str, int):
            # concrete ids are interned as integers by the context
            return lift(self.t == intern_id(o).t)
        if type(o) in (SInt, SBool, tuple, list, dict, bool):
            return False
        return NotImplemented

    def __ne__(self, o):
        r = self.__eq__(o)
        return r if r is NotImplemented else snot(r)

    def __hash__(self):
        raise Unsupported("native hash() of a symbolic id")

    def __bool__(self):
        raise Unsupported("truth value of a symbolic id")

    # the id IS a string in reality: the string predicates of SymStr apply to it directly
    def startswith(self, p, *a):
        return SymStr(self).startswith(p, *a)

    def endswith(self, p, *a):
        return SymStr(self).endswith(p, *a)

    def __contains__(self, sub):
        return SymStr(self).__contains__(sub)


class SymStr(str):
    """str() / format() of a symbolic scalar: a placeholder text for messages.  Any operation whose result would depend
    on the (unknown) characters is either answered symbolically -- startswith / endswith / `in` on the text of an id
    become uninterpreted predicates of the id, fixed by axioms on every concrete id and on generated ids -- or refused."""
    _pyvc_proxy = True

    def __new__(cls, origin):
        s = str.__new__(cls, f"\u27e6{origin.t}\u27e7")
        s.origin = origin
        return s

    def _pred(self, kind, lit):
        o = self.origin
        if type(o) is not SId or type(lit) is not str:
            raise Unsupported(f"str.{kind} on the text of a symbolic value")
        return lift(str_pred(kind, lit)(o.t))

    def startswith(self, p, *a):
        if a:
            raise Unsupported("str.startswith with offsets on the text of a symbolic id")
        return self._pred("startswith", p)

    def endswith(self, p, *a):
        if a:
            raise Unsupported("str.endswith with offsets on the text of a symbolic id")
        return self._pred("endswith", p)

    def __contains__(self, sub):
        return bool(self._pred("contains", sub))

    def __eq__(self, o):
        if type(self.origin) is SId:
            return self.origin == (o.origin if type(o) is SymStr else o)
        raise Unsupported("comparison of the text of a symbolic value")

    def __ne__(self, o):
        return snot(self.__eq__(o))

    def __hash__(self):
        raise Unsupported("hash of the text of a symbolic value")

    def _refuse(name):
        def f(self, *a, **k):
            raise Unsupported(f"str.{name} on the text of a symbolic value")
        f.__name__ = name
        return f
    for _n in ("find", "rfind", "index", "rindex", "count", "split", "rsplit", "splitlines", "partition", "rpartition",
               "replace", "strip", "lstrip", "rstrip", "lower", "upper", "title", "capitalize", "casefold", "swapcase",
               "isdigit", "isalpha", "isalnum", "isnumeric", "isdecimal", "isidentifier", "islower", "isupper", "isspace",
               "removeprefix", "removesuffix", "zfill", "center", "ljust", "rjust", "translate", "__len__", "__getitem__",
               "__iter__", "__lt__", "__le__", "__gt__", "__ge__", "__mul__", "__rmul__", "__int__", "__float__"):
        locals()[_n] = _refuse(_n)
    del _n, _refuse


_STR_TRUTH = {"startswith": lambda s, l: s.startswith(l), "endswith": lambda s, l: s.endswith(l),
              "contains": lambda s, l: l in s}


def str_pred(kind, lit):
    """uninterpreted predicate `kind|lit` over id codes, with its value fixed on every interned concrete id and on the
    generated ids seen so far (A-sha: a generated id is 'VAR' + 64 hex digits)"""
    c = ctx()
    reg = c.__dict__.setdefault("str_preds", {})
    key = (kind, lit)
    if key not in reg:
        f = z3.Function(f"str.{kind}|{lit}", z3.IntSort(), z3.BoolSort())
        reg[key] = f
        for (tn, x), code in c.__dict__.setdefault("id_table", {}).items():
            _fix_concrete(c, kind, lit, f, x, code)
        for g in c.__dict__.setdefault("generated_id_terms", []):
            _fix_generated(c, kind, lit, f, g)
    return reg[key]


def _fix_concrete(c, kind, lit, f, x, code):
    val = _STR_TRUTH[kind](str(x), lit)
    c.axiom(f(z3.IntVal(code)) if val else z3.Not(f(z3.IntVal(code))))


def _fix_generated(c, kind, lit, f, g):
    hexd = set("0123456789abcdef")
    if kind == "startswith":
        if "VAR".startswith(lit):
            c.axiom(f(g))
        elif not (lit.startswith("VAR") and set(lit[3:]) <= hexd and len(lit) <= 67):
            c.axiom(z3.Not(f(g)))
    elif kind == "endswith":
        if lit and not (set(lit) <= hexd and len(lit) <= 64) and not (len(lit) > 64 and "VAR".endswith(lit[:-64]) and set(lit[-64:]) <= hexd):
            c.axiom(z3.Not(f(g)))
    elif kind == "contains":
        if lit in "VAR":
            c.axiom(f(g))


def note_generated_id(term):
    c = ctx()
    c.__dict__.setdefault("generated_id_terms", []).append(term)
    for (kind, lit), f in c.__dict__.setdefault("str_preds", {}).items():
        _fix_generated(c, kind, lit, f, term)


def intern_id(x):
    """concrete id (str/int) -> SId with a stable integer code; distinct concrete ids get distinct codes"""
    if type(x) is SId:
        return x
    if type(x) is SInt:
        return SId(x.t)
    c = ctx()
    tab = c.__dict__.setdefault("id_table", {})
    key = (type(x).__name__, x)
    if key not in tab:
        # concrete ids live in the negative integers, ordered as CPython orders them among themselves
        tab[key] = -(len(tab) + 1)
        for (kind, lit), f in c.__dict__.setdefault("str_preds", {}).items():
            _fix_concrete(c, kind, lit, f, x, tab[key])
    return SId(z3.IntVal(tab[key]))


def snot(x):
    if type(x) is SBool:
        return lift(z3.Not(x.t))
    return not x


def sand(*xs):
    return lift(z3.And(*[to_bterm(x) for x in xs])) if xs else True


def sor(*xs):
    return lift(z3.Or(*[to_bterm(x) for x in xs])) if xs else False


def simplies(a, b):
    return lift(z3.Implies(to_bterm(a), to_bterm(b)))


def site(c, a, b):
    """symbolic if-then-else over scalars (no forking)."""
    c = to_bterm(c)
    if z3.is_true(z3.simplify(c)):
        return a
    if z3.is_false(z3.simplify(c)):
        return b
    if type(a) in (SBool, bool) and type(b) in (SBool, bool):
        return lift(z3.If(c, to_bterm(a), to_bterm(b)))
    return lift(z3.If(c, to_term(a), to_term(b)))


_fresh_counter = itertools.count()


def fresh_int(name="k"):
    return SInt(z3.Int(f"{name}!{next(_fresh_counter)}"))


def fresh_name(name):
    return f"{name}!{next(_fresh_counter)}"


# ------------------------------------------------------------------------------------------------
# execution context
# ------------------------------------------------------------------------------------------------

class Frame:
    """One decision scope: the global path, or one generic (per-element) application."""

    def __init__(self, decisions=None, assumptions=()):
        self.decisions = list(decisions or [])
        self.pos = 0
        self.pc = list(assumptions)  # z3 Bool terms


class Ctx:
    def __init__(self, theory=None, budget_ms=10000):
        self.frames = [Frame()]
        self.theory = theory  # callable(list[z3 Bool]) -> list[z3 Bool]: extra valid facts
        self.assumptions = []  # global assumptions (preconditions), z3 Bool
        self.pointwise = []  # (index var, z3 Bool in that var): holds for every index in range
        self.solver_calls = 0
        self.budget_ms = budget_ms
        self._cache = {}
        self.log = []
        self.index_terms = {}  # base name -> list of index terms to instantiate pointwise facts at
        self.generic_depth = 0
        self.stores = []  # recorded heap stores (frame checking)
        self.bases = {}  # ivar id -> Base
        self._pw_seen = set()
        self._keepalive = []
        self.families = {}
        self.contracts = {}
        self.repo = None
        self.notes = []

    # -- path condition ----------------------------------------------------------------------
    def pc(self):
        out = list(self.assumptions)
        for f in self.frames:
            out.extend(f.pc)
        return out

    def assume(self, term):
        term = to_bterm(term)
        self.frames[-1].pc.append(term)

    def assume_global(self, term):
        self.assumptions.append(to_bterm(term))

    def add_pointwise(self, ivar, term):
        term = to_bterm(term)
        key = (ivar.get_id(), term.get_id())
        if key in self._pw_seen:
            return
        self._pw_seen.add(key)
        self._keepalive.append(term)
        self.pointwise.append((ivar, term))
        self._cache.clear()

    def axiom(self, term):
        """a fact that is valid for *all* values of the symbols it mentions (an axiom about uninterpreted
        functions, or an instance of an assumed universally quantified precondition).  It survives local frames:
        if it mentions the index variable of a base it becomes a pointwise fact of that base."""
        term = to_bterm(term)
        from .folds import _mentions
        hit = [b for b in self.bases.values() if _mentions(term, b.ivar)]
        if not hit:
            key = ("g", term.get_id())
            if key not in self._pw_seen:
                self._pw_seen.add(key)
                self._keepalive.append(term)
                self.assumptions.append(term)
                self._cache.clear()
        elif len(hit) == 1:
            self.add_pointwise(hit[0].ivar, term)
        else:
            raise Unsupported("axiom over two index variables")

    def closure(self, extra=()):
        """path condition + pointwise instances + fold facts"""
        base = self.pc() + list(extra)
        if self.theory is not None:
            base = base + self.theory(self, base)
        return base

    def check(self, formulas, timeout_ms=None, want_model=False):
        s = z3.Solver()
        s.set("timeout", timeout_ms or self.budget_ms)
        for f in formulas:
            s.add(f)
        self.solver_calls += 1
        r = s.check()
        if want_model:
            return r, (s.model() if r == z3.sat else None)
        return r

    def entails(self, term, extra=()):
        pcl = self.pc()
        key = ("e", tuple(t.get_id() for t in pcl), term.get_id(), tuple(t.get_id() for t in extra))
        if key in self._cache:
            return self._cache[key]
        self._keepalive.append((pcl, term, extra))  # AST ids are only unique among live terms
        # a model of the current path condition that falsifies `term` settles non-entailment without a query
        pck = ("m", key[1], key[3])
        m = self._cache.get(pck)
        if m is not None:
            try:
                v = m.eval(term, model_completion=False)
                if z3.is_false(v):
                    self._cache[key] = False
                    return False
            except z3.Z3Exception:
                pass
        r, model = self.check(self.closure(list(extra) + [z3.Not(term)]), want_model=True)
        ok = (r == z3.unsat)
        if model is not None and pck not in self._cache:
            self._cache[pck] = model
        self._cache[key] = ok
        return ok

    def feasible(self, extra=()):
        r = self.check(self.closure(extra))
        return r != z3.unsat

    # -- branching ---------------------------------------------------------------------------
    def branch(self, term):
        term = z3.simplify(term)
        if z3.is_true(term):
            return True
        if z3.is_false(term):
            return False
        if self.entails(term):
            return True
        if self.entails(z3.Not(term)):
            return False
        fr = self.frames[-1]
        if len(self.frames) == 1 and self.bases:
            from .folds import _mentions
            for b in self.bases.values():
                if _mentions(term, b.ivar):
                    raise Unsupported(f"engine: a condition about the generic element of {b.name} reached the global "
                                      f"path ({term})")
        if fr.pos < len(fr.decisions):
            d = fr.decisions[fr.pos]
        else:
            d = True
            fr.decisions.append(True)
        fr.pos += 1
        fr.pc.append(term if d else z3.Not(term))
        return d


_ctx_stack = []


def ctx():
    if not _ctx_stack:
        raise Unsupported("symbolic value used outside an execution context")
    return _ctx_stack[-1]


def have_ctx():
    return bool(_ctx_stack)


class run_in:
    def __init__(self, c):
        self.c = c

    def __enter__(self):
        _ctx_stack.append(self.c)
        return self.c

    def __exit__(self, *a):
        _ctx_stack.pop()


def next_decisions(decisions):
    """depth-first successor of a decision list; None when exhausted"""
    d = list(decisions)
    while d and d[-1] is False:
        d.pop()
    if not d:
        return None
    d[-1] = False
    return d


def explore(run, make_ctx, max_paths=4000, budget_s=None):
    """Enumerate all feasible paths of `run()` (called with a fresh context each time).

    Yields (ctx, outcome) where outcome is ('ok', value) | ('raise', exc) | ('unsupported', exc).
    `budget_s`: wall-clock budget for the whole enumeration (the consumer's time included); when it is used up the
    remaining paths are given up as out of reach (what was decided so far stays decided).
    """
    import time as _time
    t0 = _time.time()
    decisions = []
    n = 0
    while decisions is not None:
        c = make_ctx()
        c.frames[0].decisions = list(decisions)
        with run_in(c):
            try:
                out = ("ok", run(c))
            except PathAbort:
                out = None
            except Unsupported as e:
                import os, traceback
                if os.environ.get("PYVC_DEBUG"):
                    traceback.print_exc()
                out = ("unsupported", e)
            except (RecursionError,) as e:
                out = ("unsupported", Unsupported(f"recursion limit: {e}"))
            except Exception as e:  # behaviour of the program under analysis
                out = ("raise", e)
        used = c.frames[0].decisions[: c.frames[0].pos]
        if out is not None:
            yield c, out
        n += 1
        if n > max_paths:
            raise Unsupported(f"more than {max_paths} paths")
        decisions = next_decisions(used)
        if budget_s is not None and decisions is not None and _time.time() - t0 > budget_s:
            raise Unsupported(f"time budget of {budget_s}s for this case used up after {n} paths (the code under check "
                              f"branches on symbolic data more than the harness was sized for)")


def local_paths(fn, assumptions=()):
    """Run fn() under a local frame, enumerating local decisions. Returns [(cond z3 Bool, value)].

    Exceptions raised by fn on a local path are returned as values of class LocalRaise.
    """
    c = ctx()
    results = []
    decisions = []
    count = 0
    while decisions is not None:
        fr = Frame(decisions, assumptions)
        c.frames.append(fr)
        try:
            try:
                v = fn()
            except (Unsupported, PathAbort):
                raise
            except Exception as e:
                v = LocalRaise(e)
            cond = z3.And(*fr.pc[len(assumptions):]) if len(fr.pc) > len(assumptions) else z3.BoolVal(True)
            results.append((cond, v))
            used = fr.decisions[: fr.pos]
        finally:
            c.frames.pop()
        count += 1
        if count > 256:
            raise Unsupported("more than 256 local paths in one generic application")
        decisions = next_decisions(used)
    return results


class LocalRaise:
    def __init__(self, exc):
        self.exc = exc
