"""pyvc.loader -- loads the *real* source text of the repository modules (and of `maz`) and executes it with
the shimmed builtins / library modules of pyvc.shim.  Nothing is copied: the text compiled here is the text CPython
would import (`/repo/puan/...`); its SHA-256 per function is recorded as evidence.  One mechanical rewrite is applied to
the syntax tree before compilation: comprehensions are desugared to map/filter/lambda (pyvc.desugar, which states what
it leaves untouched).
"""
import ast
import hashlib
import importlib
import os
import sys
import types
import builtins as _b

from . import shim

_REAL_IMPORT = _b.__import__

REPO_PACKAGES = ("puan", "puan.logic", "puan.logic.plog", "puan.ndarray", "puan.modules",
                 "puan.modules.configurator", "puan.misc")


class Repo:
    def __init__(self, root="/repo", overrides=None, numpy_mode="real", rs_model=False):
        import numpy
        self.root = root
        self.mods = {}
        self.sources = {}
        self.desugared = {}
        self.lib = shim.make_modules(numpy)
        self.numpy_mode = numpy_mode
        if numpy_mode == "sym":
            from .symnd import make_numpy_namespace
            self.lib["numpy"] = make_numpy_namespace(numpy)
        if rs_model:
            # the compiled extension replaced by the executable form of its assumed contract A-rs1 (pyvc.rsmodel)
            from . import rsmodel
            self.lib["puan_rspy"] = rsmodel
        self.builtins = shim.make_builtins({"__import__": self._import})
        self.overrides = overrides or {}
        self._maz = None
        self.lib["maz"] = self._load_maz()
        self.puan = self.load("puan")
        self.plog = self.load("puan.logic.plog")
        from .models import id_generator_model, from_json_model
        self.plog.AtLeast._id_generator = id_generator_model(self.plog.AtLeast._id_generator)
        self.plog.from_json = from_json_model(self.plog.from_json)

    # ------------------------------------------------------------------------------------------
    def _path(self, name):
        p = os.path.join(self.root, *name.split("."))
        if os.path.isdir(p):
            return os.path.join(p, "__init__.py"), True
        return p + ".py", False

    def load(self, name):
        if name in self.mods:
            return self.mods[name]
        if "." in name:
            parent = self.load(name.rsplit(".", 1)[0])
        path, is_pkg = self._path(name)
        src = open(path).read()
        self.sources[name] = (path, src)
        mod = types.ModuleType(name)
        mod.__file__ = path
        mod.__package__ = name if is_pkg else name.rsplit(".", 1)[0]
        if is_pkg:
            mod.__path__ = [os.path.dirname(path)]
        mod.__dict__["__builtins__"] = self.builtins
        self.mods[name] = mod
        if "." in name:
            setattr(parent, name.rsplit(".", 1)[1], mod)
        import warnings
        with warnings.catch_warnings():
            warnings.simplefilter("ignore", SyntaxWarning)
            from .desugar import desugar
            tree, stats = desugar(src, path)
            self.desugared[name] = stats
            code = compile(tree, path, "exec")
        exec(code, mod.__dict__)
        return mod

    def _load_maz(self):
        real = importlib.import_module("maz")
        path = real.__file__
        src = open(path).read()
        mod = types.ModuleType("maz")
        mod.__file__ = path
        mod.__dict__["__builtins__"] = self.builtins
        self.sources["maz"] = (path, src)
        exec(compile(src, path, "exec"), mod.__dict__)
        from .models import filter_map_concat_model
        mod.filter_map_concat = filter_map_concat_model(mod)
        return mod

    def _import(self, name, globals=None, locals=None, fromlist=(), level=0):
        if level > 0:
            pkg = (globals or {}).get("__package__") or ""
            parts = pkg.split(".")
            if level > 1:
                parts = parts[: -(level - 1)]
            base = ".".join(parts)
            name = f"{base}.{name}" if name else base
        top = name.split(".")[0]
        if name in REPO_PACKAGES or (top == "puan" and os.path.exists(self._path(name)[0])):
            mod = self.load(name)
            if fromlist:
                for f in fromlist:
                    sub = f"{name}.{f}"
                    if not hasattr(mod, f) and os.path.exists(self._path(sub)[0]):
                        self.load(sub)
                return mod
            return self.load(top)
        if name in self.lib:
            return self.lib[name]
        if top in self.lib and "." in name:
            return self.lib[top]
        return _REAL_IMPORT(name, globals, locals, fromlist, 0)

    # ------------------------------------------------------------------------------------------
    def function_source(self, modname, qualname):
        """(first line, source text without docstring/annotations as ast.dump, sha256) of a function"""
        path, src = self.sources[modname]
        tree = ast.parse(src)
        parts = qualname.split(".")
        node = tree
        for p in parts:
            found = None
            for ch in ast.iter_child_nodes(node):
                if isinstance(ch, (ast.FunctionDef, ast.ClassDef, ast.AsyncFunctionDef)) and ch.name == p:
                    found = ch
            if found is None:
                raise KeyError(f"{modname}:{qualname}")
            node = found
        seg = ast.get_source_segment(src, node)
        return {"file": path, "line": node.lineno, "end_line": node.end_lineno,
                "sha256": hashlib.sha256(seg.encode()).hexdigest()}
