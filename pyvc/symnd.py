"""pyvc.symnd -- a small pure-Python model of numpy.ndarray for *concrete shapes with symbolic entries*.

The repository's array classes (`class variable_ndarray(numpy.ndarray)`, ...) are exec'd from their real source with
`numpy` replaced by this module's namespace, so the real method bodies run on `nd` objects whose entries are Python
numbers, symbolic integers (SInt), symbolic reals (SReal, for `/` and floor), symbolic booleans, maybe-NaN values, or
arbitrary objects (the `variables` / `index` arrays).  Shapes are concrete: an obligation proved here holds for ALL
entries of arrays of that shape (bounded in shape, unbounded in values).

Modelled semantics (each checked against real numpy by rt.arrays:symnd_crosscheck):
  * elementwise arithmetic / comparison with broadcasting; sum/min/max/any/all/prod along an axis; .T; reshape(-1,1);
    basic and boolean-mask indexing; mask assignment `x[m] = v` / `x[m] = y[m]` as if-then-else (no forking);
    shape-changing selection by a symbolic mask branches on the mask entries;
  * S1: int64 arithmetic is mathematical; S2: `/` is exact real division and floor is the real floor (float rounding is
    NOT modelled); division by zero yields an unspecified value (numpy: +-inf/nan) -- `x == inf` is False on it and the
    code under analysis must overwrite it before it matters (it does: both mask assignments cover A == 0);
  * views are copies here, therefore a store through a view / slice of another array is refused (fail closed).
"""
import itertools
import math
import z3

from .sym import SInt, SBool, SId, Unsupported, ctx, lift, to_term, to_bterm, is_sym, site, snot, isi

R = z3.RealSort()


class SReal:
    """symbolic real number (result of `/`)"""
    __slots__ = ("t",)

    def __init__(self, t):
        self.t = t

    @property
    def __class__(self):
        return float

    @staticmethod
    def of(x):
        if type(x) is SReal:
            return x.t
        if type(x) in (SInt, SBool):
            return z3.ToReal(to_term(x))
        if type(x) in (int, bool):
            return z3.RealVal(int(x))
        if type(x) is float:
            if math.isnan(x) or math.isinf(x):
                raise Unsupported("nan/inf in symbolic real arithmetic")
            return z3.RealVal(x)
        raise Unsupported(f"not a real scalar: {type(x).__name__}")

    def _bin(self, o, f, rev=False):
        a, b = self.t, SReal.of(o)
        if rev:
            a, b = b, a
        return SReal(z3.simplify(f(a, b)))

    def __add__(self, o): return self._bin(o, lambda a, b: a + b)
    def __radd__(self, o): return self._bin(o, lambda a, b: a + b, True)
    def __sub__(self, o): return self._bin(o, lambda a, b: a - b)
    def __rsub__(self, o): return self._bin(o, lambda a, b: a - b, True)
    def __mul__(self, o): return self._bin(o, lambda a, b: a * b)
    def __rmul__(self, o): return self._bin(o, lambda a, b: a * b, True)
    def __truediv__(self, o): return self._bin(o, lambda a, b: a / b)
    def __rtruediv__(self, o): return self._bin(o, lambda a, b: a / b, True)
    def __neg__(self): return SReal(z3.simplify(-self.t))

    def _cmp(self, o, f):
        if type(o) is float and math.isinf(o):
            return f(0.0, o)        # a finite (or unspecified) real compared with +-inf
        if type(o) is float and math.isnan(o):
            return False
        return lift(f(self.t, SReal.of(o)))

    def __lt__(self, o): return self._cmp(o, lambda a, b: a < b)
    def __le__(self, o): return self._cmp(o, lambda a, b: a <= b)
    def __gt__(self, o): return self._cmp(o, lambda a, b: a > b)
    def __ge__(self, o): return self._cmp(o, lambda a, b: a >= b)

    def __eq__(self, o):
        if type(o) is float and (math.isinf(o) or math.isnan(o)):
            return False
        return lift(self.t == SReal.of(o))

    def __ne__(self, o):
        return snot(self.__eq__(o))

    def __hash__(self):
        raise Unsupported("hash of symbolic real")

    def floor(self):
        return lift(z3.ToInt(self.t))

    def __repr__(self):
        return f"⟦{self.t}⟧"


def sdiv(a, b):
    """numpy true division of scalars"""
    if type(a) in (int, float, bool) and type(b) in (int, float, bool):
        if b == 0:
            return float("nan") if a == 0 else math.copysign(float("inf"), a)
        return a / b
    return SReal(z3.simplify(SReal.of(a) / SReal.of(b)))


def sfloor(x):
    if type(x) is SReal:
        return x.floor()
    if type(x) in (SInt,):
        return x
    if type(x) is float:
        return x if (math.isnan(x) or math.isinf(x)) else float(math.floor(x))
    return x


class MaybeNaN:
    """a float entry that is NaN under `nan` (z3 Bool) and `value` otherwise (reducable_columns_approx)"""
    __slots__ = ("nan", "value")

    def __init__(self, nan, value):
        self.nan = nan
        self.value = value

    def __repr__(self):
        return f"MaybeNaN({self.nan}, {self.value})"

    def _num(self):
        """the numeric value, when the path condition excludes NaN (e.g. after selection by ~isnan)"""
        if ctx().entails(z3.Not(self.nan)):
            return self.value
        raise Unsupported("arithmetic on a value that may be NaN")

    def __add__(self, o): return self._num() + o
    def __radd__(self, o): return o + self._num()
    def __sub__(self, o): return self._num() - o
    def __rsub__(self, o): return o - self._num()
    def __mul__(self, o): return self._num() * o
    def __rmul__(self, o): return o * self._num()
    def __neg__(self): return -self._num()


def s_isnan(x):
    if type(x) is MaybeNaN:
        return lift(x.nan)
    if type(x) is float:
        return math.isnan(x)
    return False


def s_where(c, a, b):
    """elementwise if-then-else on scalars (including NaN-valued floats and objects)"""
    if type(c) is bool:
        return a if c else b
    ct = to_bterm(c)
    fa = type(a) is float and math.isnan(a)
    fb = type(b) is float and math.isnan(b)
    if fa or fb or type(a) is MaybeNaN or type(b) is MaybeNaN:
        na = z3.BoolVal(True) if fa else (a.nan if type(a) is MaybeNaN else z3.BoolVal(False))
        nb = z3.BoolVal(True) if fb else (b.nan if type(b) is MaybeNaN else z3.BoolVal(False))
        va = 0 if fa else (a.value if type(a) is MaybeNaN else a)
        vb = 0 if fb else (b.value if type(b) is MaybeNaN else b)
        return MaybeNaN(z3.simplify(z3.If(ct, na, nb)), s_where(c, va, vb))
    if type(a) is SReal or type(b) is SReal or type(a) is float or type(b) is float:
        return SReal(z3.simplify(z3.If(ct, SReal.of(a), SReal.of(b))))
    return site(c, a, b)


# ------------------------------------------------------------------------------------------------------------------
# nested-list helpers
# ------------------------------------------------------------------------------------------------------------------

def _shape(d):
    s = []
    while isinstance(d, list):
        s.append(len(d))
        if not d:
            break
        d = d[0]
    return tuple(s)


def _map(f, d):
    return [_map(f, x) for x in d] if isinstance(d, list) else f(d)


def _flat(d):
    if isinstance(d, list):
        for x in d:
            yield from _flat(x)
    else:
        yield d


def _build(shape, it):
    if not shape:
        return next(it)
    return [_build(shape[1:], it) for _ in range(shape[0])]


def _bshape(a, b):
    out = []
    for x, y in itertools.zip_longest(reversed(a), reversed(b), fillvalue=1):
        if x != y and 1 not in (x, y):
            raise ValueError(f"operands could not be broadcast together with shapes {a} {b}")
        out.append(max(x, y) if 0 not in (x, y) else 0)
    return tuple(reversed(out))


def _get(d, shape, idx, tshape):
    """element of d (of `shape`) at broadcast index idx of target shape tshape"""
    off = len(tshape) - len(shape)
    for k, n in enumerate(shape):
        i = idx[off + k]
        d = d[0 if n == 1 else i]
    return d


def _todata(x):
    if isi(x, nd):
        return x._d
    if isinstance(x, (list, tuple)):
        return [_todata(e) for e in x]
    try:
        import numpy as _np
        if isinstance(x, _np.ndarray):
            return x.tolist()
        if isinstance(x, _np.generic):
            return x.item()
    except ImportError:
        pass
    return x


class nd:
    """the model of numpy.ndarray"""
    _pyvc_nd = True

    def __new__(cls, data=None, dtype=None, *a, **k):
        self = object.__new__(cls)
        self._d = _todata(data) if data is not None else []
        self.dtype = dtype
        self._alias = None
        self._epoch = _epoch()
        self._stale = False
        return self

    def __init__(self, *a, **k):
        # like numpy.ndarray: construction happens in __new__ (subclasses override it and call asarray(...).view(cls))
        pass

    # ---- construction of instances of subclasses (numpy's view/finalize protocol) ----------------------------
    @classmethod
    def _wrap(cls, data, like=None, alias=None, dtype=None):
        k = type(like) if like is not None else cls
        if k is MaskedSel:
            k = type(like._src_owner) if getattr(like, "_src_owner", None) is not None else nd
        o = object.__new__(k)
        o._d = data
        o.dtype = dtype if dtype is not None else (like.dtype if like is not None else None)
        o._alias = (alias._alias if (alias is not None and alias._alias is not None) else alias)
        o._epoch = _epoch()
        o._stale = False
        if like is not None and not data and getattr(like, "_sh", None) is not None and not like._d:
            o._sh = like._sh
        if like is not None:
            like._chk()
        if like is not None and hasattr(o, "__array_finalize__"):
            o.__array_finalize__(like)
        return o

    def _chk(self):
        if getattr(self, "_stale", False):
            raise Unsupported("read of an array after a store through one of its views (write-through is not modelled)")

    def view(self, cls):
        o = object.__new__(cls)
        o._d = self._d          # same buffer: a view of the whole array may be written through
        o.dtype = self.dtype
        o._alias = self._alias
        o._epoch = self._epoch
        o._stale = False
        if getattr(self, "_sh", None) is not None:
            o._sh = self._sh
        if hasattr(o, "__array_finalize__"):
            o.__array_finalize__(self)
        return o

    def __array_finalize__(self, obj):
        pass

    # ---- basic attributes ----------------------------------------------------------------------------------------
    @property
    def shape(self):
        sh = getattr(self, "_sh", None)
        if sh is not None and not self._d:
            return sh
        return _shape(self._d)

    @property
    def ndim(self):
        return len(self.shape)

    @property
    def size(self):
        n = 1
        for s in self.shape:
            n *= s
        return n

    def __len__(self):
        if not isinstance(self._d, list):
            raise TypeError("len() of unsized object")
        return len(self._d)

    def __iter__(self):
        if not isinstance(self._d, list):
            raise TypeError("iteration over a 0-d array")
        for x in self._d:
            yield nd._wrap(x, self, alias=self) if isinstance(x, list) else x

    def tolist(self):
        return _map(lambda x: x, self._d)

    def copy(self):
        return nd._wrap(_map(lambda x: x, self._d), self)

    def astype(self, dtype):
        return nd._wrap(_map(lambda x: _cast(x, dtype), self._d), self, dtype=dtype)

    def flatten(self):
        return nd._wrap(list(_flat(self._d)), self)

    @property
    def T(self):
        sh = self.shape
        if len(sh) == 2 and sh[0] == 0:
            return nd._wrap([[] for _ in range(sh[1])], self, alias=self)
        if len(sh) <= 1:
            return nd._wrap(_map(lambda x: x, self._d), self, alias=self)
        rsh = tuple(reversed(sh))
        def at(idx):
            d = self._d
            for i in reversed(idx):
                d = d[i]
            return d
        data = _build(rsh, (at(idx) for idx in itertools.product(*[range(n) for n in rsh])))
        return nd._wrap(data, self, alias=self)

    def reshape(self, *shape):
        if len(shape) == 1 and isinstance(shape[0], (tuple, list)):
            shape = tuple(shape[0])
        flat = list(_flat(self._d))
        shape = list(shape)
        if -1 in shape:
            k = shape.index(-1)
            rest = 1
            for j, s in enumerate(shape):
                if j != k:
                    rest *= s
            shape[k] = len(flat) // rest if rest else 0
        return nd._wrap(_build(tuple(shape), iter(flat)), self, alias=self)

    # ---- elementwise ---------------------------------------------------------------------------------------------
    def _ew(self, o, f, rev=False):
        self._chk()
        od = _todata(o)
        sa, sb = self.shape, _shape(od)
        tsh = _bshape(sa, sb)
        def gen():
            for idx in itertools.product(*[range(n) for n in tsh]):
                a = _get(self._d, sa, idx, tsh)
                b = _get(od, sb, idx, tsh)
                yield f(b, a) if rev else f(a, b)
        return nd._wrap(_build(tsh, gen()), self)

    def __add__(self, o): return self._ew(o, lambda a, b: a + b)
    def __radd__(self, o): return self._ew(o, lambda a, b: a + b, True)
    def __sub__(self, o): return self._ew(o, lambda a, b: a - b)
    def __rsub__(self, o): return self._ew(o, lambda a, b: a - b, True)
    def __mul__(self, o): return self._ew(o, _smul)
    def __rmul__(self, o): return self._ew(o, _smul, True)
    def __truediv__(self, o): return self._ew(o, sdiv)
    def __rtruediv__(self, o): return self._ew(o, sdiv, True)
    def __neg__(self): return nd._wrap(_map(lambda x: -x, self._d), self)
    def __mod__(self, o): return self._ew(o, lambda a, b: a % b)                 # SInt % positive int constant; else refused there
    def __floordiv__(self, o): return self._ew(o, lambda a, b: a // b)
    def __lt__(self, o): return self._ew(o, lambda a, b: a < b)
    def __le__(self, o): return self._ew(o, lambda a, b: a <= b)
    def __gt__(self, o): return self._ew(o, lambda a, b: a > b)
    def __ge__(self, o): return self._ew(o, lambda a, b: a >= b)
    def __eq__(self, o): return self._ew(o, _seq)
    def __ne__(self, o): return self._ew(o, lambda a, b: snot(_seq(a, b)))
    def __invert__(self): return nd._wrap(_map(snot, self._d), self)
    def __and__(self, o): return self._ew(o, _sand)
    def __or__(self, o): return self._ew(o, _sor)
    __rand__ = __and__
    __ror__ = __or__

    def __hash__(self):
        return id(self)

    def __bool__(self):
        flat = list(_flat(self._d))
        if len(flat) != 1:
            raise ValueError("The truth value of an array with more than one element is ambiguous")
        return bool(flat[0])

    # ---- reductions ----------------------------------------------------------------------------------------------
    def _reduce(self, f, axis, init=None):
        self._chk()
        sh = self.shape
        if axis is None:
            flat = list(_flat(self._d))
            return _fold(f, flat, init)
        if axis < 0:
            axis += len(sh)
        osh = sh[:axis] + sh[axis + 1:]
        def gen():
            for idx in itertools.product(*[range(n) for n in osh]):
                vals = []
                for k in range(sh[axis]):
                    full = idx[:axis] + (k,) + idx[axis:]
                    d = self._d
                    for i in full:
                        d = d[i]
                    vals.append(d)
                yield _fold(f, vals, init)
        data = _build(osh, gen())
        return nd._wrap(data, self) if osh else data

    def sum(self, axis=None): return self._reduce(lambda a, b: a + b, axis, 0)
    def prod(self, axis=None): return self._reduce(_smul, axis, 1)
    def min(self, axis=None, initial=None, **kw):
        if kw:
            raise Unsupported("ndarray.min with out=/where=/keepdims=")
        return self._reduce(lambda a, b: s_where(b < a, b, a), axis, initial)

    def max(self, axis=None, initial=None, **kw):
        if kw:
            raise Unsupported("ndarray.max with out=/where=/keepdims=")
        return self._reduce(lambda a, b: s_where(b > a, b, a), axis, initial)
    def any(self, axis=None): return self._reduce(_sor, axis, False)
    def all(self, axis=None): return self._reduce(_sand, axis, True)

    def dot(self, o):
        return matmul(self, o)

    def clip(self, a_min=None, a_max=None, **kw):
        return clip(self, a_min, a_max, **kw)

    def argmax(self, axis=None):
        return argmax(self, axis)

    def argsort(self, axis=-1, **kw):
        return argsort(self, axis, **kw)

    # ---- indexing ------------------------------------------------------------------------------------------------
    def _concrete_mask(self, m):
        """boolean mask with symbolic entries -> concrete (branching on every entry: shape-changing selection)"""
        return _map(lambda x: bool(x) if type(x) is not bool else x, _todata(m))

    def __getitem__(self, key):
        self._chk()
        data = _index(self._d, key, self)
        if type(data) is MaskedSel:
            return data
        if isinstance(data, list):
            out = nd._wrap(data, self, alias=self)
            if not data and len(self.shape) >= 2:
                k0 = key[0] if isinstance(key, tuple) else key
                if isi(k0, nd) or isinstance(k0, (list, slice)):
                    out._sh = (0,) + tuple(self.shape[1:])      # all rows deselected: numpy keeps the trailing dimensions
            return out
        return data

    def __setitem__(self, key, value):
        root = self._alias if self._alias is not None else self
        if root._epoch < _epoch():
            # a store into an array that existed before the call under analysis (directly or through a view)
            ctx().stores.append(("nd-preexisting", root, "setitem"))
        if self._alias is not None:
            # views are copies in this model: the base no longer reflects the store
            root._stale = True
        _assign(self, key, value)

    def __repr__(self):
        return f"{type(self).__name__}({self._d!r})"


_NARROW = ("int8", "int16", "int32", "uint8", "uint16", "uint32", "uint64", "float16", "float32", "half", "single", "short", "intc")


def _cast(x, dtype):
    if getattr(dtype, "__name__", dtype if isinstance(dtype, str) else "") in _NARROW and (is_sym(x) or type(x) in (SReal, MaybeNaN)):
        # S1 treats int64/float64 arithmetic as mathematical; a narrower type wraps around / rounds, which is not modelled
        raise Unsupported("cast of a symbolic value to a narrow dtype (wrap-around / rounding is not modelled)")
    if dtype in (int, "int64") or getattr(dtype, "__name__", "") in ("int64", "int", "integer", "int32"):
        if type(x) is float:
            if math.isnan(x) or math.isinf(x):
                raise Unsupported("cast of nan/inf to int")
            return int(x)
        if type(x) is SReal:
            raise Unsupported("cast of a symbolic real to int (truncation is not modelled)")
        if type(x) is SBool:
            return x._asint()
        if type(x) is bool:
            return int(x)
        return x
    if dtype is float or getattr(dtype, "__name__", "") in ("float64", "float"):
        if type(x) in (int, bool):
            return float(x)
        return x
    if dtype is bool:
        return x
    return x


def _smul(a, b):
    if type(a) is MaybeNaN:
        a = a._num()
    if type(b) is MaybeNaN:
        b = b._num()
    fa = type(a) is float
    fb = type(b) is float
    if (fa and math.isnan(a)) or (fb and math.isnan(b)):
        return float("nan")
    if type(a) is SReal or type(b) is SReal or ((fa or fb) and (is_sym(a) or is_sym(b))):
        return SReal(z3.simplify(SReal.of(a) * SReal.of(b)))
    return a * b


def _seq(a, b):
    if type(a) is float and math.isnan(a):
        return False
    r = (a == b)
    if r is NotImplemented:
        return False
    return r


def _sand(a, b):
    if type(a) is bool and type(b) is bool:
        return a and b
    return lift(z3.And(to_bterm(a), to_bterm(b)))


def _sor(a, b):
    if type(a) is bool and type(b) is bool:
        return a or b
    return lift(z3.Or(to_bterm(a), to_bterm(b)))


def _fold(f, vals, init=None):
    if not vals:
        if init is None:
            raise ValueError("zero-size array to reduction operation which has no identity")
        return init
    acc = vals[0] if init is None else f(init, vals[0])
    for v in vals[1:]:
        acc = f(acc, v)
    return acc


def _is_mask(key):
    """boolean index array (list/nd of bools or SBools)"""
    d = _todata(key)
    if not isinstance(d, list):
        return False
    flat = list(_flat(d))
    return bool(flat) and all(type(x) in (bool, SBool) for x in flat)


def _concretise_mask(d):
    return _map(lambda x: x if type(x) is bool else bool(x), d)


def _index(d, key, owner):
    if not isinstance(key, tuple):
        key = (key,)
    if len(key) == 1 and (isi(key[0], nd) or isinstance(key[0], list)) and _is_mask(key[0]):
        m0 = _todata(key[0])
        if owner is not None and d is owner._d and len(_shape(m0)) == 1 and any(type(x) is SBool for x in m0) \
                and len(m0) == len(d) and not isinstance(d[0] if d else 0, list):
            return MaskedSel(list(d), list(m0), owner)     # only for `y[m]` on a 1-D array itself (never inside a recursion)
        m = _concretise_mask(m0)
        msh = _shape(m)
        if len(msh) == 1:
            return [x for x, keep in zip(d, m) if keep]
        flat_m = list(_flat(m))
        flat_d = list(_flat(d))
        return [x for x, keep in zip(flat_d, flat_m) if keep]
    k0, rest = key[0], key[1:]
    if k0 is None:
        return [_index(d, rest, owner)] if rest else [d]
    if isinstance(k0, slice):
        sel = d[k0]
        return [_index(x, rest, None) for x in sel] if rest else sel
    if isi(k0, nd) or isinstance(k0, list):
        kd = _todata(k0)
        if _is_mask(kd):
            m = _concretise_mask(kd)
            sel = [x for x, keep in zip(d, m) if keep]
        else:
            if rest and (isi(rest[0], nd) or isinstance(rest[0], list)) and not _is_mask(rest[0]):
                # paired fancy indexing a[rows, cols]; a symbolic row index selects by an if-then-else chain
                rd = _todata(rest[0])
                ksh, rsh = _shape(kd), _shape(rd)
                if len(ksh) > 1 or len(rsh) > 1:
                    # broadcasting pair of index arrays, e.g. a[arange(r).reshape(-1, 1), argsort(a)]
                    if rest[1:]:
                        raise Unsupported("fancy indexing with more than two index arrays")
                    tsh = _bshape(ksh, rsh)

                    def pick(idx):
                        i, j = _get(kd, ksh, idx, tsh), _get(rd, rsh, idx, tsh)
                        if is_sym(i) or is_sym(j):
                            raise Unsupported("broadcast fancy indexing with symbolic indices")
                        return d[int(i)][int(j)]
                    return _build(tsh, (pick(idx) for idx in itertools.product(*[range(n) for n in tsh])))
                out = []
                for i, j in zip(kd, rd):
                    if is_sym(i):
                        col = [row[int(j)] for row in d]
                        v = col[-1]
                        for r_ in range(len(col) - 2, -1, -1):
                            v = s_where(i == r_, col[r_], v)
                        out.append(v)
                    else:
                        out.append(d[int(i)][int(j)])
                if rest[1:]:
                    raise Unsupported("fancy indexing with more than two index arrays")
                return out
            sel = [d[int(i)] for i in kd]
        return [_index(x, rest, owner) for x in sel] if rest else sel
    if is_sym(k0):
        raise Unsupported("symbolic integer index into an array")
    x = d[int(k0)]
    return _index(x, rest, owner) if rest else x


def _assign(arr, key, value):
    """x[key] = value for the forms the repository uses: boolean mask (symbolic allowed: if-then-else), tuple of
    (int|slice, mask), integer / slice"""
    d = arr._d
    if type(value) is MaskedSel:
        # x[m] = y[m] / x[k, m] = y[m]: same mask on both sides -> pointwise if-then-else
        m = value._mask
        km = key[-1] if isinstance(key, tuple) else key
        kmd = _todata(km)
        same = len(kmd) == len(m) and all((a is b) or (type(a) is SBool and type(b) is SBool and a.t.eq(b.t)) or
                                          (type(a) is bool and a == b) for a, b in zip(kmd, m))
        if same:
            if isinstance(key, tuple) and len(key) == 2 and type(key[0]) is int:
                d[key[0]] = [s_where(c, v, old) for old, c, v in zip(d[key[0]], m, value._src)]
                return
            if not isinstance(key, tuple) or len(key) == 1:
                arr._d = [s_where(c, v, old) for old, c, v in zip(d, m, value._src)]
                return
    vd = _todata(value)
    if not isinstance(key, tuple):
        key = (key,)
    if len(key) == 1 and (isi(key[0], nd) or isinstance(key[0], list)) and _is_mask(key[0]):
        m = _todata(key[0])
        msh, dsh = _shape(m), _shape(d)
        if msh == dsh:
            if isinstance(vd, list):
                vsh = _shape(vd)
                if vsh == dsh:
                    src = vd
                else:
                    # x[m] = y[m]-style right-hand sides are recognised by the caller; a short vector needs a concrete mask
                    cm = _concretise_mask(m)
                    flat_v = iter(list(_flat(vd)))
                    arr._d = _build(dsh, (next(flat_v) if keep else old for old, keep in zip(_flat(d), _flat(cm))))
                    return
                arr._d = _build(dsh, (s_where(c, v, old) for old, c, v in zip(_flat(d), _flat(m), _flat(src))))
            else:
                arr._d = _build(dsh, (s_where(c, vd, old) for old, c in zip(_flat(d), _flat(m))))
            return
        if len(msh) == 1 and len(dsh) >= 1 and msh[0] == dsh[0]:
            cm = _concretise_mask(m)
            rows = [i for i, keep in enumerate(cm) if keep]
            for n, i in enumerate(rows):
                d[i] = vd[n] if isinstance(vd, list) and _shape(vd)[:1] == (len(rows),) else vd
            return
        raise Unsupported("mask assignment with mismatching shapes")
    if len(key) == 2 and type(key[0]) is int and (isi(key[1], nd) or isinstance(key[1], list)) and _is_mask(key[1]):
        row = d[key[0]]
        m = _todata(key[1])
        if isinstance(vd, list):
            if len(vd) == len(row):
                d[key[0]] = [s_where(c, v, old) for old, c, v in zip(row, m, vd)]
            else:
                cm = _concretise_mask(m)
                it = iter(vd)
                d[key[0]] = [next(it) if keep else old for old, keep in zip(row, cm)]
        else:
            d[key[0]] = [s_where(c, vd, old) for old, c in zip(row, m)]
        return
    if len(key) == 2 and isinstance(key[0], slice) and (isi(key[1], nd) or isinstance(key[1], list)) and _is_mask(key[1]):
        m = _todata(key[1])
        for r in range(*key[0].indices(len(d))):
            d[r] = [s_where(c, vd, old) for old, c in zip(d[r], m)]
        return
    if len(key) == 2 and (isi(key[0], nd) or isinstance(key[0], list)) and (isi(key[1], nd) or isinstance(key[1], list)):
        for i, j in zip(_todata(key[0]), _todata(key[1])):
            if is_sym(j):
                raise Unsupported("fancy assignment with a symbolic column index")
            if is_sym(i):
                # a symbolic row index (e.g. the result of argmax over symbolic data): written as if-then-else per row
                for r in range(len(d)):
                    d[r][int(j)] = s_where(i == r, vd, d[r][int(j)])
            else:
                d[int(i)][int(j)] = vd
        return
    if len(key) == 1 and type(key[0]) is int:
        d[key[0]] = vd
        return
    if len(key) == 1 and isinstance(key[0], slice):
        idxs = range(*key[0].indices(len(d)))
        for n, i in enumerate(idxs):
            d[i] = vd[n] if isinstance(vd, list) else vd
        return
    raise Unsupported(f"item assignment form not modelled: {key!r}")


def _epoch():
    from .sym import have_ctx
    return getattr(ctx(), "nd_epoch", 0) if have_ctx() else 0


class MaskedSel(nd):
    """`y[m]` for a symbolic 1-D mask m: consumed lazily by `x[m] = y[m]` (if-then-else); any other use makes the mask
    concrete by branching on its entries"""

    def __new__(cls, src, mask, owner=None):
        return object.__new__(cls)

    def __init__(self, src, mask, owner=None):
        object.__setattr__(self, "_src", src)
        object.__setattr__(self, "_mask", mask)
        object.__setattr__(self, "_cache", None)
        object.__setattr__(self, "_src_owner", owner)
        self.dtype = None
        self._alias = None
        self._epoch = _epoch()
        self._stale = False

    @property
    def _d(self):
        if self._cache is None:
            cm = _concretise_mask(self._mask)
            object.__setattr__(self, "_cache", [x for x, keep in zip(self._src, cm) if keep])
        return self._cache

    @_d.setter
    def _d(self, v):
        object.__setattr__(self, "_cache", v)

    def _ew(self, o, f, rev=False):
        # y[m] (op) scalar stays a lazy selection under the same mask, so that x[m] = y[m] * c is still an if-then-else
        if not isi(o, nd) and not isinstance(o, (list, tuple)):
            return MaskedSel([(f(o, a) if rev else f(a, o)) for a in self._src], self._mask, self._src_owner)
        return nd._ew(self, o, f, rev)

    def __neg__(self):
        return MaskedSel([-a for a in self._src], self._mask, self._src_owner)


# ------------------------------------------------------------------------------------------------------------------
# module-level functions (the names the repository uses from `numpy`)
# ------------------------------------------------------------------------------------------------------------------

def _like(x):
    return x if isi(x, nd) else None


def asarray(x, dtype=None):
    if isi(x, nd):
        if dtype is None or dtype == x.dtype:
            return x
        o = x.astype(dtype)
        return o
    return nd(_map(lambda e: _cast(e, dtype) if dtype else e, _todata(x)), dtype=dtype)


def array(x, dtype=None):
    if isi(x, nd):
        return nd._wrap(_map(lambda e: _cast(e, dtype) if dtype else e, x._d), x, dtype=dtype or x.dtype)
    data = _todata(list(x) if not isinstance(x, (list, tuple)) and hasattr(x, "__iter__") and not isi(x, nd) else x)
    return nd(_map(lambda e: _cast(e, dtype) if dtype else e, data), dtype=dtype)


def zeros(shape, dtype=float):
    shape = (shape,) if isinstance(shape, int) else tuple(shape)
    z = 0 if dtype in (int,) or getattr(dtype, "__name__", "") in ("int64", "int") else 0.0
    return nd(_build(shape, itertools.repeat(z)), dtype=dtype)


def ones(shape, dtype=float):
    shape = (shape,) if isinstance(shape, int) else tuple(shape)
    o = 1 if dtype in (int,) or getattr(dtype, "__name__", "") in ("int64", "int") else 1.0
    return nd(_build(shape, itertools.repeat(o)), dtype=dtype)


def isnan(x):
    if isi(x, nd):
        return nd._wrap(_map(s_isnan, x._d), None)
    return s_isnan(x)


def s_nan_to_num(x):
    """numpy.nan_to_num on one entry: NaN -> 0.0, everything finite unchanged (infinities are refused)"""
    if type(x) is MaybeNaN:
        v = x.value
        vt = v.t if hasattr(v, "t") else (z3.RealVal(v) if type(v) is float else z3.IntVal(int(v)))
        zero = z3.RealVal(0) if z3.is_real(vt) else z3.IntVal(0)
        out = z3.simplify(z3.If(x.nan, zero, vt))
        return SReal(out) if z3.is_real(out) else SInt(out)
    if type(x) is float:
        if math.isinf(x):
            raise Unsupported("nan_to_num of an infinity")
        return 0.0 if math.isnan(x) else x
    return x


def nan_to_num(x, *a, **k):
    if a or any(v is not None and v != 0.0 and kk != "copy" for kk, v in k.items()):
        raise Unsupported("nan_to_num with replacement values")
    if isi(x, nd):
        return nd._wrap(_map(s_nan_to_num, x._d), x)
    return s_nan_to_num(x)


def floor(x):
    if isi(x, nd):
        return nd._wrap(_map(sfloor, x._d), x)
    return sfloor(x)


def _red(name):
    def f(x, axis=None):
        return getattr(asarray(x), name)(axis=axis)
    return f


amax = _red("max")
amin = _red("min")
prod = _red("prod")
sum_ = _red("sum")


def matmul(a, b):
    a, b = asarray(a), asarray(b)
    sa, sb = a.shape, b.shape
    if len(sa) == 2 and len(sb) == 2:
        bt = b.T._d
        return nd._wrap([[_fold(lambda x, y: x + y, [_smul(p, q) for p, q in zip(row, col)], 0) for col in bt] for row in a._d], a)
    if len(sa) == 2 and len(sb) == 1:
        return nd._wrap([_fold(lambda x, y: x + y, [_smul(p, q) for p, q in zip(row, b._d)], 0) for row in a._d], a)
    if len(sa) == 1 and len(sb) == 1:
        return _fold(lambda x, y: x + y, [_smul(p, q) for p, q in zip(a._d, b._d)], 0)
    raise Unsupported(f"matmul of shapes {sa} {sb}")


def delete(a, idx, axis):
    a = asarray(a)
    idx = set(int(i) for i in _flat(_todata(idx))) if not isinstance(idx, int) else {idx}
    if axis == 1:
        return nd._wrap([[x for j, x in enumerate(row) if j not in idx] for row in a._d], a)
    if axis == 0:
        return nd._wrap([row for i, row in enumerate(a._d) if i not in idx], a)
    raise Unsupported("delete along this axis")


def append(a, b, axis=None):
    a, b = asarray(a), asarray(b)
    if axis == 1:
        return nd._wrap([list(x) + list(y) for x, y in zip(a._d, b._d)], a)
    if axis == 0:
        return nd._wrap(list(a._d) + list(b._d), a)
    return nd._wrap(list(_flat(a._d)) + list(_flat(b._d)), a)


def argwhere(m):
    m = asarray(m)
    cm = _concretise_mask(m._d)
    if len(m.shape) == 1:
        out = nd([[i] for i, keep in enumerate(cm) if keep])
        out._sh = (0, 1)
        return out
    raise Unsupported("argwhere on a matrix")


def argmax(x, axis=None):
    """index of the first maximum along an axis; for boolean data: the first True (0 if none)"""
    x = asarray(x)
    sh = x.shape
    if len(sh) == 1 and axis in (None, 0):
        cols = [list(x._d)]
        scalar = True
    elif len(sh) == 2 and axis == 0:
        cols = [[x._d[r][j] for r in range(sh[0])] for j in range(sh[1])]
        scalar = False
    elif len(sh) == 2 and axis == 1:
        cols = [list(row) for row in x._d]
        scalar = False
    else:
        raise Unsupported("argmax of this shape/axis")
    out = []
    for col in cols:
        if all(type(v) in (bool, SBool) for v in col):
            idx = 0
            for r_ in range(len(col) - 1, -1, -1):
                idx = s_where(col[r_], r_, idx)
            out.append(idx)
        else:
            best, idx = col[0], 0
            for r_ in range(1, len(col)):
                gt = col[r_] > best
                idx = s_where(gt, r_, idx)
                best = s_where(gt, col[r_], best)
            out.append(idx)
    return out[0] if scalar else nd(out)


def arange(n):
    return nd(list(range(int(n))))


def swapaxes(x, a, b):
    x = asarray(x)
    nd_ = len(x.shape)
    a, b = a % nd_ if nd_ else 0, b % nd_ if nd_ else 0
    if a == b:
        return x
    if nd_ == 2:
        return x.T
    raise Unsupported("swapaxes on arrays of more than two dimensions")


def flipud(x):
    x = asarray(x)
    return nd._wrap(list(reversed(x._d)), x, alias=x)


def _clip_scalar(v, lo, hi):
    if lo is not None:
        v = s_where(v < lo, lo, v)
    if hi is not None:
        v = s_where(v > hi, hi, v)
    return v


def clip(x, a_min=None, a_max=None, **kw):
    if kw:
        raise Unsupported("numpy.clip with out= / where=")
    if isi(x, nd):
        if isi(a_min, nd) or isi(a_max, nd) or isinstance(a_min, (list, tuple)) or isinstance(a_max, (list, tuple)):
            raise Unsupported("numpy.clip with array-valued limits")
        return nd._wrap(_map(lambda e: _clip_scalar(e, a_min, a_max), x._d), x)
    if is_sym(x) or is_sym(a_min) or is_sym(a_max):
        return _clip_scalar(x, a_min, a_max)
    import numpy as _np
    return int(_np.clip(x, a_min, a_max))


class errstate:
    def __init__(self, **k):
        pass

    def __enter__(self):
        return self

    def __exit__(self, *a):
        return False


def _ufunc2(f):
    def g(a, b, *extra, **kw):
        if extra or kw:
            raise Unsupported("numpy binary function with out=/where=/dtype= on a symbolic array")
        a = asarray(a) if not isi(a, nd) else a
        return a._ew(b, f)
    return g


def _ufunc1(f):
    def g(a, *extra, **kw):
        if extra or kw:
            raise Unsupported("numpy unary function with extra arguments on a symbolic array")
        if isi(a, nd):
            return nd._wrap(_map(f, a._d), a)
        if isinstance(a, (list, tuple)):
            return nd(_map(f, _todata(a)))
        return f(a)
    return g


def _sabs(x):
    return s_where(x < 0, -x, x)


def _ssign(x):
    return s_where(x > 0, 1, s_where(x < 0, -1, 0))


def where(c, *ab):
    if len(ab) != 2:
        raise Unsupported("numpy.where with one argument (index arrays) on a symbolic array")
    a, b = ab
    c = asarray(c) if not isi(c, nd) else c
    sh = _bshape(_bshape(c.shape, _shape(_todata(a))), _shape(_todata(b)))
    ad, bd = _todata(a), _todata(b)
    sa, sb, sc = _shape(ad), _shape(bd), c.shape
    def gen():
        for idx in itertools.product(*[range(n) for n in sh]):
            yield s_where(_get(c._d, sc, idx, sh), _get(ad, sa, idx, sh), _get(bd, sb, idx, sh))
    return nd._wrap(_build(sh, gen()), _like(a) or _like(b))


def concatenate(arrs, axis=0):
    arrs = [asarray(x) for x in arrs]
    out = arrs[0]
    for x in arrs[1:]:
        out = append(out, x, axis=axis)
    return out


def hstack(arrs):
    arrs = [asarray(x) for x in arrs]
    return concatenate(arrs, axis=0 if len(arrs[0].shape) == 1 else 1)


def vstack(arrs):
    arrs = [asarray(x) for x in arrs]
    arrs = [x if len(x.shape) > 1 else nd._wrap([list(x._d)], x) for x in arrs]
    return concatenate(arrs, axis=0)


def stack(arrs, axis=0):
    arrs = [asarray(x) for x in arrs]
    if axis != 0:
        raise Unsupported("numpy.stack along an axis other than 0")
    return nd._wrap([x._d for x in arrs], arrs[0])


def argsort(x, axis=-1, kind=None, **kw):
    """stable argsort of a 1-D array with symbolic entries: the permutation is concrete on every path (the comparisons
    branch), as numpy's result is for concrete data; 2-D: along the last axis, row by row"""
    if kw:
        raise Unsupported("numpy.argsort with order= / stable= arguments on a symbolic array")
    x = asarray(x)
    sh = x.shape
    if len(sh) == 2 and axis in (-1, 1):
        return nd._wrap([argsort(nd._wrap(list(row), None))._d for row in x._d], None)
    if len(sh) != 1:
        raise Unsupported("numpy.argsort of this rank / axis on a symbolic array")
    vals = list(x._d)
    order = []
    for i in range(len(vals)):
        pos = len(order)
        # insertion from the right keeps equal elements in index order (stable)
        while pos > 0 and bool(vals[i] < vals[order[pos - 1]]):
            pos -= 1
        order.insert(pos, i)
    return nd._wrap(order, None)


def cumsum(x, axis=None):
    x = asarray(x)
    if axis is None or len(x.shape) == 1:
        flat = list(_flat(x._d))
        out, acc = [], 0
        for v in flat:
            acc = acc + v
            out.append(acc)
        return nd._wrap(out, None)
    if len(x.shape) == 2 and axis in (0, 1, -1, -2):
        rows = [list(r) for r in x._d]
        if axis in (1, -1):
            out = []
            for r in rows:
                acc, o = 0, []
                for v in r:
                    acc = acc + v
                    o.append(acc)
                out.append(o)
        else:
            out, acc = [], [0] * (len(rows[0]) if rows else 0)
            for r in rows:
                acc = [a + v for a, v in zip(acc, r)]
                out.append(list(acc))
        return nd._wrap(out, x)
    raise Unsupported("numpy.cumsum along an axis of a symbolic array of more than two dimensions")


def atleast_1d(x):
    x = asarray(x)
    return x if len(x.shape) >= 1 else nd._wrap([x._d], x)


def atleast_2d(x):
    x = atleast_1d(x)
    return x if len(x.shape) >= 2 else nd._wrap([list(x._d)], x)


def array_split(x, n, axis=0):
    if axis != 0 or type(n) is not int:
        raise Unsupported("numpy.array_split with sections / another axis")
    x = asarray(x)
    rows = list(x._d)
    q, r = divmod(len(rows), n) if n else (0, 0)
    out, k = [], 0
    for j in range(n):
        m = q + (1 if j < r else 0)
        out.append(nd._wrap(rows[k:k + m], x))
        k += m
    return out


def zeros_like(x, dtype=None):
    x = asarray(x)
    return nd._wrap(_map(lambda e: 0, x._d), x, dtype=dtype or x.dtype)


def ones_like(x, dtype=None):
    x = asarray(x)
    return nd._wrap(_map(lambda e: 1, x._d), x, dtype=dtype or x.dtype)


def full(shape, value, dtype=None):
    shape = (shape,) if isinstance(shape, int) else tuple(shape)
    return nd(_build(shape, itertools.repeat(value)), dtype=dtype)


def count_nonzero(x, axis=None):
    x = asarray(x)
    return nd._wrap(_map(lambda e: s_where(_seq(e, 0), 0, 1) if not isinstance(e, bool) else int(e), x._d), x).sum(axis=axis)


def _refuse(name, f):
    """an unmodelled numpy function: fine on concrete data, refused on a symbolic array (real numpy would coerce the
    array to dtype=object and drive the computation through Python comparisons, i.e. an uncontrolled path explosion)"""
    import functools

    def has_sym(v, depth=0):
        if isi(v, nd):
            return True
        if depth < 3 and isinstance(v, (list, tuple)):
            return any(has_sym(e, depth + 1) for e in v)
        return is_sym(v) or type(v) in (SReal, MaybeNaN)

    @functools.wraps(f)
    def g(*a, **k):
        if any(has_sym(v) for v in a) or any(has_sym(v) for v in k.values()):
            raise Unsupported(f"numpy.{name} on a symbolic array is not modelled")
        return f(*a, **k)
    return g


def make_numpy_namespace(real_numpy):
    """module object the array module of the repository sees as `numpy`"""
    import types
    from .shim import ModuleShim
    ns = ModuleShim(real_numpy, {
        "ndarray": nd, "asarray": asarray, "array": array, "zeros": zeros, "ones": ones, "isnan": isnan, "floor": floor, "nan_to_num": nan_to_num, "atleast_1d": atleast_1d, "atleast_2d": atleast_2d,
        "max": amax, "min": amin, "prod": prod, "sum": sum_, "matmul": matmul, "dot": matmul, "delete": delete,
        "append": append, "argwhere": argwhere, "clip": clip, "errstate": errstate, "argmax": argmax, "arange": arange,
        "swapaxes": swapaxes, "flipud": flipud,
        "minimum": _ufunc2(lambda a, b: s_where(b < a, b, a)), "maximum": _ufunc2(lambda a, b: s_where(b > a, b, a)),
        "add": _ufunc2(lambda a, b: a + b), "subtract": _ufunc2(lambda a, b: a - b), "multiply": _ufunc2(_smul),
        "divide": _ufunc2(sdiv), "true_divide": _ufunc2(sdiv),
        "less": _ufunc2(lambda a, b: a < b), "less_equal": _ufunc2(lambda a, b: a <= b),
        "greater": _ufunc2(lambda a, b: a > b), "greater_equal": _ufunc2(lambda a, b: a >= b),
        "equal": _ufunc2(_seq), "not_equal": _ufunc2(lambda a, b: snot(_seq(a, b))),
        "logical_and": _ufunc2(_sand), "logical_or": _ufunc2(_sor), "logical_not": _ufunc1(snot),
        "abs": _ufunc1(_sabs), "absolute": _ufunc1(_sabs), "sign": _ufunc1(_ssign), "negative": _ufunc1(lambda x: -x),
        "where": where, "concatenate": concatenate, "hstack": hstack, "vstack": vstack, "stack": stack,
        "array_split": array_split, "argsort": argsort, "cumsum": cumsum, "zeros_like": zeros_like, "ones_like": ones_like, "full": full, "count_nonzero": count_nonzero,
        "any": _red("any"), "all": _red("all"), "amax": amax, "amin": amin,
    })
    for name in dir(real_numpy):
        if name.startswith("_") or name in ns.__dict__:
            continue
        f = getattr(real_numpy, name)
        if callable(f) and not isinstance(f, type):
            ns.__dict__[name] = _refuse(name, f)
    return ns
