"""pyvc.folds -- abstract sequences of symbolic length, generic application, folds and the sigma theory.

A `Seq` is a list of segments: concrete elements and `Gen(base, guard, elem)` = "for every index i of
`base` (0 <= i < base.n) with guard(i), the element elem(i)".  `elem` is an ordinary Python value built
while the index variable of the base was generic.  map/filter over a Gen apply the (concrete) Python
callable once to the generic element (all local paths, merged).  sum/len/any/all over a Gen become
hash-consed opaque integers ("fold symbols") whose meaning is supplied by `sigma_theory`:

  region analysis -- the boolean conditions occurring in the summed terms split the index range into
  finitely many regions; inside a region every summed term is linear over "unknowns" u(i) (applications
  of uninterpreted functions to the index).  Each fold symbol is therefore *equal* to an explicit linear
  combination of basis sums B[r,u] = sum_{i in r} u(i) and region counts C[r]; pointwise linear facts
  (class invariants, callee postconditions = induction hypothesis) that hold in a region are summed over
  the region.  All of this is quantifier-free; premises are discharged on one generic index.

Every derived fact is a valid consequence (for every n >= 0), so proofs that use them are sound; the
theory is incomplete, hence a failed proof is never reported as a violation (see engine.refute).
"""
import itertools
import z3
from .sym import (isi, SInt, SBool, Unsupported, ctx, lift, to_term, to_bterm, local_paths, LocalRaise,
                  is_sym, site)


class Base:
    """An abstract index domain (e.g. the child list of the receiver)."""

    def __init__(self, name, n=None):
        self.name = name
        self.ivar = z3.Int(f"i.{name}")
        self.n = z3.Int(f"n.{name}") if n is None else n

    def inrange(self, idx=None):
        idx = self.ivar if idx is None else idx
        return z3.And(idx >= 0, idx < self.n)


class Gen:
    def __init__(self, base, guard, elem):
        self.base = base
        self.guard = guard  # z3 Bool over base.ivar
        self.elem = elem


class GenToken:
    """What native iteration over a Seq yields for an abstract segment.  Only pyvc shims understand it."""
    __slots__ = ("gen",)

    def __init__(self, gen):
        self.gen = gen

    def __getattr__(self, name):
        raise Unsupported(f"native code touched an abstract sequence segment (.{name}); "
                          f"an explicit loop or comprehension over an unbounded child list is outside the subset")

    def __hash__(self):
        raise Unsupported("abstract sequence segment hashed by native code")

    def __eq__(self, o):
        raise Unsupported("abstract sequence segment compared by native code")

    def __lt__(self, o):
        raise Unsupported("abstract sequence segment compared by native code")

    def __bool__(self):
        raise Unsupported("abstract sequence segment used as truth value")


class Seq:
    """list-like with abstract segments; order is abstracted once a Gen is present (bag semantics)."""

    def __init__(self, segs=()):
        self.segs = []
        for s in segs:
            self._push(s)

    def _push(self, s):
        if isi(s, GenToken):
            s = s.gen
        if isi(s, Gen):
            g = z3.simplify(s.guard)
            if z3.is_false(g):
                return
            self.segs.append(Gen(s.base, g, s.elem))
        else:
            self.segs.append(("e", s))

    @property
    def abstract(self):
        return any(isi(s, Gen) for s in self.segs)

    def __iter__(self):
        for s in self.segs:
            yield GenToken(s) if isi(s, Gen) else s[1]

    def concrete_list(self):
        if self.abstract:
            raise Unsupported("concrete list needed but the sequence has an abstract segment")
        return [s[1] for s in self.segs]

    def __bool__(self):
        n = seq_len(self)
        return bool(n != 0)

    def __add__(self, o):
        return Seq(list(self) + list(to_seq(o)))

    def __radd__(self, o):
        return Seq(list(to_seq(o)) + list(self))

    def append(self, x):
        ctx().stores.append(("seq", self, "append"))
        self._push(x)

    def extend(self, xs):
        ctx().stores.append(("seq", self, "extend"))
        for x in to_seq(xs):
            self._push(x)

    def copy(self):
        return Seq(list(self))

    # list's in-place operations mutate the receiver (aliases see the change), exactly as for a real list
    def __iadd__(self, xs):
        self.extend(xs)
        return self

    def __imul__(self, k):
        raise Unsupported("in-place repetition of a symbolic sequence")

    def insert(self, k, x):
        if self.abstract:
            raise Unsupported("list.insert into an abstract sequence (order is abstracted)")
        ctx().stores.append(("seq", self, "insert"))
        self.segs.insert(k, ("e", x))

    def clear(self):
        ctx().stores.append(("seq", self, "clear"))
        del self.segs[:]

    def remove(self, *a, **k): raise Unsupported("list.remove on a symbolic sequence")
    def pop(self, *a, **k): raise Unsupported("list.pop on a symbolic sequence")
    def sort(self, *a, **k): raise Unsupported("list.sort on a symbolic sequence")
    def reverse(self, *a, **k): raise Unsupported("list.reverse on a symbolic sequence")
    def __delitem__(self, *a, **k): raise Unsupported("del on a symbolic sequence")

    def __getitem__(self, k):
        if isi(k, slice):
            if self.abstract:
                raise Unsupported("slice of an abstract sequence")
            return Seq(self.concrete_list()[k])
        if isi(k, int):
            if not self.abstract:
                return self.concrete_list()[k]
            raise Unsupported("positional indexing into an abstract sequence (order is abstracted)")
        raise Unsupported("symbolic index into a sequence")

    def __setitem__(self, k, v):
        if self.abstract or not isi(k, int):
            raise Unsupported("item assignment into an abstract sequence")
        ctx().stores.append(("seq", self, "setitem"))
        self.segs[k] = ("e", v)

    def __contains__(self, x):
        return seq_any(self, lambda e: e == x)

    def __eq__(self, o):
        if o is self:
            return True
        raise Unsupported("equality of abstract sequences")

    def __hash__(self):
        return id(self)

    def index(self, x):
        raise Unsupported("list.index on a symbolic sequence")

    def __repr__(self):
        return "Seq[" + ", ".join("Gen(%s|%s)" % (s.base.name, s.guard) if isi(s, Gen) else repr(s[1])
                                  for s in self.segs) + "]"


def subst_value(v, ivar, term):
    """instantiate a generic element value at a concrete / Skolem index"""
    from .sym import SId
    tv = type(v)
    if tv is SId:
        return SId(z3.substitute(v.t, (ivar, term)))
    if tv is SInt:
        return SInt(z3.substitute(v.t, (ivar, term)))
    if tv is SBool:
        return lift(z3.substitute(v.t, (ivar, term)))
    if tv in (tuple, list):
        return tv(subst_value(x, ivar, term) for x in v)
    if tv is Cases:
        return Cases([(z3.substitute(c, (ivar, term)), subst_value(x, ivar, term)) for c, x in object.__getattribute__(v, "_pairs")])
    if tv.__name__ == "AbsNode":
        return tv(v._fam, z3.substitute(v._idx, (ivar, term)) if not isinstance(v._idx, int) else v._idx)
    d = getattr(v, "__dict__", None)
    if isinstance(d, dict) and tv.__module__.startswith("puan"):
        o = object.__new__(tv)
        for k, x in d.items():
            o.__dict__[k] = subst_value(x, ivar, term)
        return o
    return v


class SeqDict:
    """dict(zip(keys, values)) over aligned abstract sequences (same base): lookup by a witness index.

    d[key]: the key must occur (otherwise KeyError, decided by branching on the count fold); the value is the
    value element at a Skolem index w with  key(w) == key  and no later occurrence (dict: last writer wins)."""
    _pyvc_proxy = True

    def __init__(self, keys, vals):
        ks, vs = to_seq(keys), to_seq(vals)
        if len(ks.segs) != 1 or len(vs.segs) != 1 or not isi(ks.segs[0], Gen) or not isi(vs.segs[0], Gen) \
                or ks.segs[0].base is not vs.segs[0].base or not ks.segs[0].guard.eq(vs.segs[0].guard):
            raise Unsupported("dict(zip()) over abstract sequences that are not aligned segments of one base")
        self.kgen, self.vgen = ks.segs[0], vs.segs[0]

    @property
    def __class__(self):
        return dict

    def _has(self, key):
        return seq_any(Seq([self.kgen]), lambda k: k == key)

    def __contains__(self, key):
        return self._has(key)

    def _lookup(self, key):
        from .sym import fresh_name
        c = ctx()
        base = self.kgen.base
        memo = c.__dict__.setdefault("_seqdict_w", {})
        mk = (id(self), repr(getattr(key, "t", key)))
        if mk not in memo:
            w = z3.Int(fresh_name(f"w.{base.name}"))
            c.index_terms.setdefault(base.name, []).append(w)
            kw = subst_value(self.kgen.elem, base.ivar, w)
            c.assume_global(z3.And(base.inrange(w), z3.substitute(self.kgen.guard, (base.ivar, w)), to_bterm(kw == key)))
            # no later occurrence of the key
            later = local_paths(lambda: self.kgen.elem == key, assumptions=[base.inrange(), self.kgen.guard])
            c.add_pointwise(base.ivar, z3.Implies(z3.And(base.ivar > w, self.kgen.guard), z3.Not(to_bterm(merge(later)))))
            c._cache.clear()
            memo[mk] = w
        w = memo[mk]
        return subst_value(self.vgen.elem, base.ivar, w)

    def __getitem__(self, key):
        if self._has(key):
            return self._lookup(key)
        raise KeyError(key)

    def get(self, key, default=None):
        if self._has(key):
            return self._lookup(key)
        return default

    def __len__(self):
        raise Unsupported("len of a dictionary over abstract sequences")

    def __iter__(self):
        raise Unsupported("iteration over a dictionary over abstract sequences")


def has_abstract(x):
    if isi(x, Seq):
        return x.abstract
    if isi(x, GenToken):
        return True
    if isi(x, (list, tuple)):
        return any(isi(e, GenToken) for e in x)
    return False


def to_seq(x):
    if isi(x, Seq):
        return x
    if isi(x, GenToken):
        return Seq([x])
    if isi(x, (str, bytes, dict)):
        raise Unsupported(f"to_seq of {type(x).__name__}")
    try:
        return Seq(list(x))
    except TypeError:
        raise Unsupported(f"not iterable: {type(x).__name__}")


def seq_or_list(items):
    """Return a plain list when nothing is abstract (maximal fidelity), else a Seq."""
    items = list(items)
    if any(isi(e, GenToken) for e in items):
        return Seq(items)
    return items


# ------------------------------------------------------------------------------------------------
# merging of values computed on different local paths
# ------------------------------------------------------------------------------------------------

class Cases:
    """A value that is one of several Python values depending on symbolic conditions (if-then-else object).

    It only ever lives inside the element of a Gen, i.e. it is only touched inside a generic application, where
    branching is local: every use picks the applicable case by (local) branching on the case conditions."""
    _pyvc_proxy = True

    def __init__(self, pairs):
        object.__setattr__(self, "_pairs", pairs)  # [(z3 Bool, value)]

    def _pick(self):
        c = ctx()
        pairs = object.__getattribute__(self, "_pairs")
        for cond, v in pairs[:-1]:
            if c.branch(cond):
                return v
        cond, v = pairs[-1]
        if c.branch(cond):
            return v
        from .sym import PathAbort
        raise PathAbort()

    @property
    def __class__(self):
        return self._pick().__class__

    def __getattr__(self, name):
        return getattr(self._pick(), name)

    def __setattr__(self, name, value):
        raise Unsupported("store through a merged (Cases) object")

    def __eq__(self, o):
        return self._pick() == o

    def __ne__(self, o):
        return self._pick() != o

    def __lt__(self, o):
        return self._pick() < o

    def __getitem__(self, k):
        return self._pick()[k]

    def __hash__(self):
        raise Unsupported("hash of merged object")

    def __iter__(self):
        return iter(self._pick())

    def __bool__(self):
        return bool(self._pick())

    def __repr__(self):
        return "Cases(" + "; ".join(f"{c} -> {v!r:.40}" for c, v in object.__getattribute__(self, "_pairs")) + ")"


def unwrap(x):
    """the applicable case of a merged value (local branching); identity for anything else"""
    while type(x) is Cases:
        x = x._pick()
    return x


def _assume_frame(cond):
    from .sym import Frame
    return Frame([], [cond])


def cases_of(x):
    """[(cond, value)] view of any value"""
    if type(x) is Cases:
        return list(object.__getattribute__(x, '_pairs'))
    return [(z3.BoolVal(True), x)]


def merge(pairs):
    """[(cond, value)] -> one value.  Conditions are assumed exhaustive and exclusive (decision tree leaves)."""
    flat = []
    for cond, v in pairs:
        if isi(v, LocalRaise):
            raise Unsupported(f"element-level exception inside a generic application: "
                              f"{type(v.exc).__name__}: {v.exc}")
        if type(v) is Cases:
            for c2, v2 in object.__getattribute__(v, "_pairs"):
                flat.append((z3.simplify(z3.And(cond, c2)), v2))
        else:
            flat.append((cond, v))
    flat = [(c, v) for c, v in flat if not z3.is_false(z3.simplify(c))]
    if not flat:
        raise Unsupported("merge of zero feasible local paths")
    first = flat[0][1]
    if all(v is first for _, v in flat):
        return first
    scal = (SInt, SBool, int, bool)
    if all(isi(v, scal) for _, v in flat):
        if all(isi(v, (SBool, bool)) for _, v in flat):
            t = to_bterm(flat[-1][1])
            for c, v in reversed(flat[:-1]):
                t = z3.If(c, to_bterm(v), t)
            return lift(t)
        from .sym import SId
        if any(isi(v, SId) for _, v in flat):
            if not all(isi(v, SId) for _, v in flat):
                raise Unsupported("merge of id and non-id scalars")
            t = flat[-1][1].t
            for c, v in reversed(flat[:-1]):
                t = z3.If(c, v.t, t)
            return SId(z3.simplify(t))
        t = to_term(flat[-1][1])
        for c, v in reversed(flat[:-1]):
            t = z3.If(c, to_term(v), t)
        return lift(t)
    if any(v is None for _, v in flat):
        raise Unsupported("merge of None with non-None values (identity tests would be unsound)")
    if all(isi(v, tuple) for _, v in flat) and len({len(v) for _, v in flat}) == 1:
        k = len(first)
        return tuple(merge([(c, v[j]) for c, v in flat]) for j in range(k))
    # group identical objects
    groups = []
    for c, v in flat:
        for g in groups:
            if g[1] is v:
                g[0] = z3.simplify(z3.Or(g[0], c))
                break
        else:
            groups.append([c, v])
    return Cases([(c, v) for c, v in groups])


def apply_generic(f, gen, extra_assumptions=()):
    """Apply Python callable f to the generic element of gen; all local paths, merged."""
    c = ctx()
    assumptions = [gen.base.inrange(), gen.guard] + list(extra_assumptions)
    c.generic_depth += 1
    try:
        return merge(local_paths(lambda: f(gen.elem), assumptions=assumptions))
    finally:
        c.generic_depth -= 1


# ------------------------------------------------------------------------------------------------
# sequence operations used by the shims and by spec functions
# ------------------------------------------------------------------------------------------------

def seq_map(f, s):
    s = to_seq(s)
    out = []
    for seg in s.segs:
        if isi(seg, Gen):
            out.append(Gen(seg.base, seg.guard, apply_generic(f, seg)))
        else:
            out.append(f(seg[1]))
    return Seq(out)


def seq_filter(p, s):
    s = to_seq(s)
    out = []
    for seg in s.segs:
        if isi(seg, Gen):
            r = apply_generic((lambda e: _truthy(p(e))) if p is not None else _truthy, seg)
            out.append(Gen(seg.base, z3.And(seg.guard, to_bterm(r)), seg.elem))
        else:
            v = seg[1]
            if (p(v) if p is not None else v):
                out.append(v)
    return Seq(out)


def _truthy(v):
    """truth value of v *without* forcing a fork when it is already symbolic"""
    if isi(v, (SBool, bool)):
        return v
    if isi(v, SInt):
        return lift(v.t != 0)
    return bool(v)


def fold_symbol(kind, base, term):
    """hash-consed opaque integer for SUM_{i<n} term(i)"""
    c = ctx()
    term = z3.simplify(term)
    key = (kind, base.name, term.sexpr())
    reg = c.__dict__.setdefault("folds", {})
    if key not in reg:
        sym = z3.Int(f"{kind}[{base.name}|{_short(term)}]#{_h(term.sexpr())}")
        reg[key] = (sym, base, term)
        c._cache.clear()
    return reg[key][0]


def _h(s):
    import hashlib
    return hashlib.md5(s.encode()).hexdigest()[:8]


def _short(t):
    s = t.sexpr().replace("\n", " ")
    return s if len(s) < 70 else s[:67] + "..."


def seq_sum(s, f=None, start=0):
    s = to_seq(s)
    total = start
    for seg in s.segs:
        if isi(seg, Gen):
            v = apply_generic(f, seg) if f is not None else seg.elem
            if isi(v, tuple):
                raise Unsupported("sum of tuples over an abstract sequence")
            t = z3.simplify(z3.If(seg.guard, to_term(v), z3.IntVal(0)))
            if z3.is_int_value(t) and t.as_long() == 0:
                continue
            total = total + SInt(fold_symbol("sum", seg.base, t))
        else:
            total = total + (f(seg[1]) if f is not None else seg[1])
    return total


def seq_len(s):
    s = to_seq(s)
    if not s.abstract:
        return len(s.segs)
    return seq_sum(s, lambda e: 1)


def seq_count(s, p):
    return seq_sum(s, lambda e: site(_truthy(p(e)), 1, 0))


def seq_any(s, p=None):
    s = to_seq(s)
    if not s.abstract:
        acc = False
        for seg in s.segs:
            v = _truthy(p(seg[1]) if p else seg[1])
            acc = lift(z3.Or(to_bterm(acc), to_bterm(v)))
        return acc
    return seq_count(s, p or (lambda e: e)) >= 1


def seq_all(s, p=None):
    s = to_seq(s)
    if not s.abstract:
        acc = True
        for seg in s.segs:
            v = _truthy(p(seg[1]) if p else seg[1])
            acc = lift(z3.And(to_bterm(acc), to_bterm(v)))
        return acc
    from .sym import snot
    return seq_count(s, lambda e: snot(_truthy((p or (lambda x: x))(e)))) == 0


# ------------------------------------------------------------------------------------------------
# sigma theory: region / basis analysis
# ------------------------------------------------------------------------------------------------

_MENTION_CACHE = {}


class FastSubst:
    """z3.substitute with the (from, to) arrays built once (the Python wrapper re-validates every pair per call)"""

    def __init__(self, pairs):
        self.n = len(pairs)
        self.pairs = pairs
        if self.n:
            self.ctx = pairs[0][0].ctx
            self._from = (z3.Ast * self.n)(*[a.as_ast() for a, _ in pairs])
            self._to = (z3.Ast * self.n)(*[b.as_ast() for _, b in pairs])
            self.ids = [a for a, _ in pairs]

    def __call__(self, t):
        if not self.n:
            return t
        if not any(_mentions(t, a) for a in self.ids):
            return t
        return z3.z3._to_expr_ref(z3.Z3_substitute(self.ctx.ref(), t.as_ast(), self.n, self._from, self._to), self.ctx)



def _mentions(t, v):
    """does term t contain the constant v?  (memoised per (t, v); the cache keeps the terms alive so that AST ids
    stay valid)"""
    vid = v.get_id()
    tab = _MENTION_CACHE.setdefault(vid, {})
    root = t.get_id()
    hit = tab.get(root)
    if hit is not None:
        return hit[1]
    # iterative post-order with memo
    stack = [(t, False)]
    while stack:
        x, expanded = stack.pop()
        xid = x.get_id()
        if xid in tab:
            continue
        if xid == vid:
            tab[xid] = (x, True)
            continue
        ch = x.children()
        if not ch:
            tab[xid] = (x, False)
            continue
        if not expanded:
            stack.append((x, True))
            for c_ in ch:
                if c_.get_id() not in tab:
                    stack.append((c_, False))
        else:
            tab[xid] = (x, any(tab[c_.get_id()][1] for c_ in ch))
    return tab[root][1]


_BOOL_CONN = (z3.Z3_OP_AND, z3.Z3_OP_OR, z3.Z3_OP_NOT, z3.Z3_OP_IMPLIES, z3.Z3_OP_ITE, z3.Z3_OP_XOR)


def _bool_atoms(t, ivar, acc):
    """collect boolean atoms (w.r.t. connectives) mentioning ivar that occur as conditions inside t"""
    seen = set()

    def walk(x, in_bool):
        if x.get_id() in seen and not in_bool:
            return
        seen.add(x.get_id())
        if z3.is_bool(x):
            k = x.decl().kind() if z3.is_app(x) else None
            if k in (z3.Z3_OP_AND, z3.Z3_OP_OR, z3.Z3_OP_NOT, z3.Z3_OP_IMPLIES, z3.Z3_OP_XOR) or \
                    (k == z3.Z3_OP_ITE) or (k == z3.Z3_OP_EQ and z3.is_bool(x.arg(0))):
                for ch in x.children():
                    walk(ch, True)
                return
            if z3.is_true(x) or z3.is_false(x):
                return
            # atom
            if _mentions(x, ivar):
                acc[x.get_id()] = x
            for ch in x.children():
                walk(ch, False)
            return
        for ch in x.children():
            walk(ch, False)
    walk(t, z3.is_bool(t))


_LIN_CACHE = {}


def _linear(t, ivar):
    key = (t.get_id(), ivar.get_id())
    hit = _LIN_CACHE.get(key)
    if hit is not None:
        return hit[1]
    r = _linear0(t, ivar)
    _LIN_CACHE[key] = (t, r)
    return r


def _linear0(t, ivar):
    """decompose Int term into {unknown_id: (unknown_term, coef_term)} + const_term, w.r.t. ivar.

    Unknowns are maximal subterms mentioning ivar that are not +,-,*(by ivar-free factor).
    Coefs/const are ivar-free z3 Int terms.  Returns (dict, const) or None when an If remains.
    """
    zero = z3.IntVal(0)
    if not _mentions(t, ivar):
        return {}, t
    if z3.is_app(t):
        k = t.decl().kind()
        if k == z3.Z3_OP_ADD:
            acc, const = {}, zero
            for ch in t.children():
                r = _linear(ch, ivar)
                if r is None:
                    return None
                d, c0 = r
                const = const + c0
                for uid, (u, cf) in d.items():
                    if uid in acc:
                        acc[uid] = (u, acc[uid][1] + cf)
                    else:
                        acc[uid] = (u, cf)
            return acc, const
        if k == z3.Z3_OP_SUB:
            chs = t.children()
            r = _linear(chs[0], ivar)
            if r is None:
                return None
            acc, const = dict(r[0]), r[1]
            for ch in chs[1:]:
                r = _linear(ch, ivar)
                if r is None:
                    return None
                d, c0 = r
                const = const - c0
                for uid, (u, cf) in d.items():
                    if uid in acc:
                        acc[uid] = (u, acc[uid][1] - cf)
                    else:
                        acc[uid] = (u, -cf)
            return acc, const
        if k == z3.Z3_OP_UMINUS:
            r = _linear(t.arg(0), ivar)
            if r is None:
                return None
            return {uid: (u, -cf) for uid, (u, cf) in r[0].items()}, -r[1]
        if k == z3.Z3_OP_MUL:
            free = [ch for ch in t.children() if not _mentions(ch, ivar)]
            dep = [ch for ch in t.children() if _mentions(ch, ivar)]
            if len(dep) == 1:
                r = _linear(dep[0], ivar)
                if r is None:
                    return None
                f = free[0]
                for x in free[1:]:
                    f = f * x
                return {uid: (u, cf * f) for uid, (u, cf) in r[0].items()}, r[1] * f
            # product of two index-dependent terms: opaque unknown
            return {t.get_id(): (t, z3.IntVal(1))}, zero
        if k == z3.Z3_OP_ITE:
            return None
    return {t.get_id(): (t, z3.IntVal(1))}, zero


def _arith_atoms(t, ivar, acc):
    """collect arithmetic comparison atoms mentioning ivar (candidates to be summed)"""
    seen = set()
    stack = [t]
    while stack:
        x = stack.pop()
        if x.get_id() in seen:
            continue
        seen.add(x.get_id())
        if z3.is_app(x) and z3.is_bool(x):
            k = x.decl().kind()
            if k in (z3.Z3_OP_LE, z3.Z3_OP_GE, z3.Z3_OP_LT, z3.Z3_OP_GT) or \
                    (k == z3.Z3_OP_EQ and z3.is_int(x.arg(0))):
                if _mentions(x, ivar):
                    acc[x.get_id()] = x
        stack.extend(x.children())


class SigmaTheory:
    """callable(ctx, formulas) -> list of extra valid facts (relevant to the fold symbols occurring in formulas)"""

    def __init__(self):
        self.stats = {"regions": 0, "premise_queries": 0, "facts": 0, "analyses": 0}
        self._memo = {}

    def __call__(self, c, formulas):
        # pointwise facts instantiated at the generic index and at every index term in use (cached per context)
        pk = (len(c.pointwise), sum(len(v) for v in c.index_terms.values()), id(c))
        cache = c.__dict__.setdefault("_pw_inst", {})
        if cache.get("key") != pk:
            inst = []
            for ivar, phi in c.pointwise:
                base = c.bases.get(ivar.get_id())
                if base is None:
                    continue
                inst.append(z3.Implies(base.inrange(), phi))
                for k in c.index_terms.get(base.name, []):
                    inst.append(z3.Implies(base.inrange(k), z3.substitute(phi, (ivar, k))))
            cache["key"] = pk
            cache["inst"] = inst
        out = list(cache["inst"])
        folds = getattr(c, "folds", {})
        if folds:
            symids = {v[0].get_id(): k for k, v in folds.items()}
            used = set()
            for f in formulas:
                used |= _fold_syms(f, symids)
            rel = {symids[i]: folds[symids[i]] for i in used}
            if rel:
                pwk = self._pw_key(c) + "|" + _h("|".join(str(k) for ks in c.index_terms.values() for k in ks))
                relset = frozenset(rel.keys())
                hit = None
                for (ks, pk2), facts in self._memo.items():
                    if pk2 == pwk and relset <= ks:
                        hit = facts
                        break
                if hit is None:
                    hit = self._sigma(c, rel)
                    self._memo[(relset, pwk)] = hit
                out.extend(hit)
        return out

    def _pw_key(self, c):
        """structural key of the pointwise facts (AST ids are not stable across contexts)"""
        cache = c.__dict__.setdefault("_pw_keys", {})
        n = len(c.pointwise)
        if cache.get("n") != n:
            cache["n"] = n
            cache["key"] = _h("|".join(p.sexpr() for _, p in c.pointwise))
        return cache["key"]

    def _sigma(self, c, folds):
        self.stats["analyses"] += 1
        akey = _h(repr(sorted(folds.keys())) + repr([p.sexpr() for _, p in c.pointwise]))
        facts = []
        by_base = {}
        for key, (sym, base, term) in folds.items():
            by_base.setdefault(base.name, (base, []))[1].append((sym, term))
        for bname, (base, items) in by_base.items():
            ivar = base.ivar
            J = z3.Int(f"J.{bname}")
            pw = [z3.substitute(phi, (iv, J)) for iv, phi in c.pointwise if iv.get_id() == ivar.get_id()]
            sub = lambda t: z3.substitute(t, (ivar, J))
            terms = [(sym, sub(term)) for sym, term in items]
            atoms = {}
            for _, t in terms:
                _bool_atoms(t, J, atoms)
            atoms = list(atoms.values())
            if len(atoms) > 12:
                raise Unsupported(f"sigma theory: {len(atoms)} region conditions")
            solver = z3.Solver()
            solver.set("timeout", 5000)
            solver.add(base.inrange(J), *pw)

            def check(*extra):
                self.stats["premise_queries"] += 1
                solver.push()
                solver.add(*extra)
                r = solver.check()
                m = solver.model() if r == z3.sat else None
                solver.pop()
                return r, m
            # enumerate feasible regions
            regions = []

            def rec(k, lits):
                r, _ = check(*lits)
                if r == z3.unsat:
                    return
                if k == len(atoms):
                    regions.append(list(lits))
                    return
                rec(k + 1, lits + [atoms[k]])
                rec(k + 1, lits + [z3.Not(atoms[k])])
            rec(0, [])
            self.stats["regions"] += len(regions)
            cand = {}
            for phi in pw:
                _arith_atoms(phi, J, cand)
            for _, t in terms:
                _arith_atoms(t, J, cand)
            cand = list(cand.values())
            counts = []
            sums = {sym.get_id(): (sym, z3.IntVal(0)) for sym, _ in terms}
            for ridx, lits in enumerate(regions):
                rkey = z3.simplify(z3.And(*lits)).sexpr() if lits else "true"
                C = z3.Int(f"cnt[{bname}|{_short_s(rkey)}]#{akey}.{ridx}")
                counts.append(C)
                facts.append(C >= 0)
                subst = [(a, z3.BoolVal(True)) if not z3.is_not(l) else (a, z3.BoolVal(False))
                         for a, l in zip(atoms, lits)]
                fsub = FastSubst(subst)
                basis = {}

                def B(u):
                    if u.get_id() not in basis:
                        b = z3.Int(f"bs[{bname}|{_short_s(rkey)}|{_short(u)}]#{akey}.{ridx}.{_h(u.sexpr())}")
                        basis[u.get_id()] = (u, b)
                        facts.append(z3.Implies(C == 0, b == 0))
                    return basis[u.get_id()][1]
                for sym, t in terms:
                    tr = z3.simplify(fsub(t))
                    lin = _linear(tr, J)
                    if lin is None:
                        raise Unsupported(f"sigma theory: non-linear summand after region substitution: {tr}")
                    d, c0 = lin
                    expr = c0 * C
                    for uid, (u, cf) in d.items():
                        expr = expr + cf * B(u)
                    s0 = sums[sym.get_id()]
                    sums[sym.get_id()] = (sym, s0[1] + expr)
                # a registered index term that lies in this region makes the region non-empty
                for k in c.index_terms.get(bname, []):
                    inst = [z3.substitute(l, (J, k)) for l in lits]
                    facts.append(z3.Implies(z3.And(base.inrange(k), *inst), C >= 1))
                if not basis:
                    continue
                known = set(basis.keys())
                solver.push()
                solver.add(*lits)
                # (1) arithmetic region literals hold pointwise in the region: sum them
                for l in lits:
                    if _is_arith_lit(l):
                        lu = _atom_unknowns(l, J)
                        if lu and lu <= known:
                            sf = self._sum_atom(z3.simplify(l), J, C, B)
                            if sf is not None:
                                facts.append(sf)
                # a few models of the region: a candidate falsified by one of them cannot be entailed
                models = []
                r, m = check()
                if r == z3.sat:
                    models.append(m)

                def entailed(lit):
                    for mm in models:
                        if z3.is_false(mm.eval(lit, model_completion=True)):
                            return False
                    r, m2 = check(z3.Not(lit))
                    if r == z3.sat and len(models) < 8:
                        models.append(m2)
                    return r == z3.unsat
                # (2) syntactic candidates: linear atoms of the pointwise facts over this region's unknowns
                for a in cand:
                    ar = fsub(a)
                    if ar is not a:
                        ar = z3.simplify(ar)
                    if z3.is_true(ar) or z3.is_false(ar):
                        continue
                    lin = _atom_unknowns(ar, J)
                    if not lin or not lin <= known:
                        continue
                    for lit in (ar, z3.Not(ar)):
                        if entailed(lit):
                            sf = self._sum_atom(lit, J, C, B)
                            if sf is not None:
                                facts.append(sf)
                            break
                # (3) semantic pairwise order between the region's unknowns (chains through terms that occur in no
                #     fold, e.g. ihi = hi.d = lo.d, are found here)
                us = [u for u, _ in basis.values()]
                for x in range(len(us)):
                    for y in range(len(us)):
                        if x != y and z3.is_int(us[x]) and z3.is_int(us[y]):
                            if entailed(us[x] <= us[y]):
                                facts.append(B(us[x]) <= B(us[y]))
                # constant unknowns
                r, m = check()
                if r == z3.sat:
                    for uid, (u, b) in list(basis.items()):
                        mv = m.eval(u, model_completion=True)
                        if z3.is_int_value(mv):
                            r2, _ = check(u != mv)
                            if r2 == z3.unsat:
                                facts.append(b == mv * C)
                solver.pop()
            facts.append(z3.Sum(counts) == base.n if counts else base.n == 0)
            facts.append(base.n >= 0)
            for sym, expr in sums.values():
                facts.append(sym == z3.simplify(expr))
        self.stats["facts"] += len(facts)
        return facts

    def _sum_atom(self, lit, J, C, B):
        """lit: arithmetic literal over J entailed in the region -> its sum over the region"""
        neg = False
        a = lit
        if z3.is_not(a):
            neg = True
            a = a.arg(0)
        if not z3.is_app(a):
            return None
        k = a.decl().kind()
        if k not in (z3.Z3_OP_LE, z3.Z3_OP_GE, z3.Z3_OP_LT, z3.Z3_OP_GT, z3.Z3_OP_EQ):
            return None
        lhs, rhs = a.arg(0), a.arg(1)
        if not z3.is_int(lhs):
            return None
        diff = _linear(z3.simplify(lhs - rhs), J)
        if diff is None:
            return None
        d, c0 = diff
        expr = c0 * C
        for uid, (u, cf) in d.items():
            expr = expr + cf * B(u)
        # pointwise: diff OP 0
        if not neg:
            if k == z3.Z3_OP_LE: return expr <= 0
            if k == z3.Z3_OP_GE: return expr >= 0
            if k == z3.Z3_OP_LT: return expr <= -C   # diff <= -1 pointwise
            if k == z3.Z3_OP_GT: return expr >= C
            if k == z3.Z3_OP_EQ: return expr == 0
        else:
            if k == z3.Z3_OP_LE: return expr >= C    # diff >= 1
            if k == z3.Z3_OP_GE: return expr <= -C
            if k == z3.Z3_OP_LT: return expr >= 0
            if k == z3.Z3_OP_GT: return expr <= 0
            if k == z3.Z3_OP_EQ: return None
        return None


_FS_CACHE = {}


def _fold_syms(f, symids):
    """ids of fold symbols occurring in formula f (cached per formula AST; fold symbols are Int constants whose
    names start with 'sum[')"""
    fid = f.get_id()
    hit = _FS_CACHE.get(fid)
    if hit is None:
        found = set()
        seen = set()
        stack = [f]
        while stack:
            x = stack.pop()
            i = x.get_id()
            if i in seen:
                continue
            seen.add(i)
            if z3.is_const(x):
                if x.decl().kind() == z3.Z3_OP_UNINTERPRETED and x.decl().name().startswith("sum["):
                    found.add(i)
                continue
            stack.extend(x.children())
        hit = (f, frozenset(found))   # keep f alive so that the id stays valid
        _FS_CACHE[fid] = hit
    return {i for i in hit[1] if i in symids}


def _consts_in(formulas):
    seen = set()
    stack = list(formulas)
    while stack:
        x = stack.pop()
        i = x.get_id()
        if i in seen:
            continue
        seen.add(i)
        stack.extend(x.children())
    return seen


def _atom_unknowns(a, J):
    """ids of the unknowns of an arithmetic comparison atom (None if not linear)"""
    if z3.is_not(a):
        a = a.arg(0)
    if not (z3.is_app(a) and a.num_args() == 2 and z3.is_int(a.arg(0))):
        return None
    lin = _linear(z3.simplify(a.arg(0) - a.arg(1)), J)
    if lin is None:
        return None
    return set(lin[0].keys())


def _is_arith_lit(l):
    a = l.arg(0) if z3.is_not(l) else l
    if not z3.is_app(a) or a.num_args() != 2:
        return False
    k = a.decl().kind()
    return k in (z3.Z3_OP_LE, z3.Z3_OP_GE, z3.Z3_OP_LT, z3.Z3_OP_GT) or (k == z3.Z3_OP_EQ and z3.is_int(a.arg(0)))


def _short_s(s):
    s = s.replace("\n", " ")
    return s if len(s) < 60 else s[:57] + "..."
