"""pyvc.desugar -- the one mechanical rewrite applied to the repository's module text before it is compiled for
symbolic execution:  comprehensions and generator expressions become the map/filter/lambda pipelines they abbreviate.

    [E for x in S if C]          ->  list(map(lambda x: E, filter(lambda x: C, S)))
    {E for x in S}               ->  set(map(lambda x: E, S))
    {K: V for x in S}            ->  dict(map(lambda x: (K, V), S))
    (E for x in S)               ->  map(lambda x: E, S)
    for a, b in S                ->  lambda t: (lambda a, b: ...)(*t)
    for x in S for y in T        ->  chain.from_iterable(map(lambda x: <inner>, S))

Why: CPython's comprehension byte code drives the iteration itself, so an abstract sequence (unbounded child list) cannot
take part in it; map/filter are shimmed.  The rewrite preserves evaluation order (outermost iterable evaluated at once,
everything else per element), scoping (comprehension targets are function-local, as lambda parameters are; class-body
names are visible in the outermost iterable only, in both forms) and laziness (generator expression <-> map object).
Dropped: nothing.  Left untouched (compiled as written): comprehensions containing `:=`, `await`, `yield`, `async for`,
or nested (non-flat) tuple targets.  Source positions are kept, so evidence hashes and tracebacks refer to /repo's text.
"""
import ast

HELPERS = ("__pyvc_map__", "__pyvc_filter__", "__pyvc_list__", "__pyvc_set__", "__pyvc_dict__", "__pyvc_flat__")


def _bad(node):
    for n in ast.walk(node):
        if isinstance(n, (ast.NamedExpr, ast.Await, ast.Yield, ast.YieldFrom)):
            return True
        if isinstance(n, ast.comprehension) and n.is_async:
            return True
    return False


def _flat_target(t):
    if isinstance(t, ast.Name):
        return True
    if isinstance(t, (ast.Tuple, ast.List)):
        return all(isinstance(e, ast.Name) for e in t.elts)
    return False


def _name(n):
    return ast.Name(id=n, ctx=ast.Load())


def _lam(target, body):
    """lambda <target>: body   (flat tuple targets through an inner lambda applied to *t)"""
    if isinstance(target, ast.Name):
        args = ast.arguments(posonlyargs=[], args=[ast.arg(arg=target.id)], kwonlyargs=[], kw_defaults=[], defaults=[])
        return ast.Lambda(args=args, body=body)
    inner = ast.Lambda(args=ast.arguments(posonlyargs=[], args=[ast.arg(arg=e.id) for e in target.elts],
                                          kwonlyargs=[], kw_defaults=[], defaults=[]), body=body)
    t = "__pyvc_t__"
    call = ast.Call(func=inner, args=[ast.Starred(value=_name(t), ctx=ast.Load())], keywords=[])
    return ast.Lambda(args=ast.arguments(posonlyargs=[], args=[ast.arg(arg=t)], kwonlyargs=[], kw_defaults=[],
                                         defaults=[]), body=call)


def _call(fn, *args):
    return ast.Call(func=_name(fn), args=list(args), keywords=[])


class Desugar(ast.NodeTransformer):
    def __init__(self):
        self.count = 0
        self.skipped = 0

    def _pipeline(self, elt, gens):
        g = gens[0]
        src = g.iter
        for cond in g.ifs:
            src = _call("__pyvc_filter__", _lam(g.target, cond), src)
        if len(gens) == 1:
            return _call("__pyvc_map__", _lam(g.target, elt), src)
        inner = self._pipeline(elt, gens[1:])
        return _call("__pyvc_flat__", _call("__pyvc_map__", _lam(g.target, inner), src))

    def _ok(self, node):
        if _bad(node) or not all(_flat_target(g.target) for g in node.generators):
            self.skipped += 1
            return False
        return True

    def _finish(self, new, old):
        self.count += 1
        new = ast.copy_location(new, old)
        for n in ast.walk(new):
            if not hasattr(n, "lineno"):
                ast.copy_location(n, old)
        return ast.fix_missing_locations(new)

    def visit_Call(self, node):
        # str(x) with exactly one positional argument -> __pyvc_str__(x): the same str(x), except that it refuses a built-in
        # container with symbolic parts (whose text would spell out placeholder names).  The NAME `str` itself stays
        # the real type (class bases such as `class Dtype(str, Enum)`, type(x) == str, str.join).
        self.generic_visit(node)
        if isinstance(node.func, ast.Name) and node.func.id == "str" and len(node.args) == 1 and not node.keywords \
                and not isinstance(node.args[0], ast.Starred):
            self.str_calls = getattr(self, "str_calls", 0) + 1
            new = ast.Call(func=ast.copy_location(ast.Name(id="__pyvc_str__", ctx=ast.Load()), node.func), args=node.args, keywords=[])
            return ast.copy_location(new, node)
        return node

    # X[k] (load) and `a in X` / `a not in X`: the same operations, except that a NATIVE tuple/list holding the marker of an
    # abstract segment (what `*args` makes of an abstract sequence) refuses positional access and membership -- natively the
    # marker would count as ONE element, so `args[:1]`, `args[0]` or `x in args` would silently mean something else.
    def _slice_expr(self, sl):
        if isinstance(sl, ast.Slice):
            none = lambda: ast.Constant(value=None)
            return ast.Call(func=ast.Name(id="slice", ctx=ast.Load()),
                            args=[sl.lower or none(), sl.upper or none(), sl.step or none()], keywords=[])
        if isinstance(sl, ast.Tuple):
            return ast.Tuple(elts=[self._slice_expr(e) for e in sl.elts], ctx=ast.Load())
        return sl

    def visit_Subscript(self, node):
        self.generic_visit(node)
        if not isinstance(node.ctx, ast.Load):
            return node
        if any(isinstance(n, ast.Starred) for n in ast.walk(node.slice)):
            return node
        self.subscripts = getattr(self, "subscripts", 0) + 1
        new = ast.Call(func=ast.Name(id="__pyvc_getitem__", ctx=ast.Load()), args=[node.value, self._slice_expr(node.slice)], keywords=[])
        new = ast.copy_location(new, node)
        for n in ast.walk(new):
            if not hasattr(n, "lineno"):
                ast.copy_location(n, node)
        return new

    def visit_Compare(self, node):
        self.generic_visit(node)
        if len(node.ops) == 1 and isinstance(node.ops[0], (ast.In, ast.NotIn)):
            self.memberships = getattr(self, "memberships", 0) + 1
            call = ast.Call(func=ast.Name(id="__pyvc_in__", ctx=ast.Load()), args=[node.left, node.comparators[0]], keywords=[])
            new = call if isinstance(node.ops[0], ast.In) else ast.UnaryOp(op=ast.Not(), operand=call)
            new = ast.copy_location(new, node)
            for n in ast.walk(new):
                if not hasattr(n, "lineno"):
                    ast.copy_location(n, node)
            return new
        return node

    def visit_ListComp(self, node):
        self.generic_visit(node)
        if not self._ok(node):
            return node
        return self._finish(_call("__pyvc_list__", self._pipeline(node.elt, node.generators)), node)

    def visit_SetComp(self, node):
        self.generic_visit(node)
        if not self._ok(node):
            return node
        return self._finish(_call("__pyvc_set__", self._pipeline(node.elt, node.generators)), node)

    def visit_GeneratorExp(self, node):
        self.generic_visit(node)
        if not self._ok(node):
            return node
        return self._finish(self._pipeline(node.elt, node.generators), node)

    def visit_DictComp(self, node):
        self.generic_visit(node)
        if not self._ok(node):
            return node
        pair = ast.Tuple(elts=[node.key, node.value], ctx=ast.Load())
        return self._finish(_call("__pyvc_dict__", self._pipeline(pair, node.generators)), node)


# ======================================================================================================================
# for-loops
# ======================================================================================================================
#
#     for T in S:                        def __pyvc_body_k(T):
#         BODY                   ->          nonlocal <names BODY assigns that the enclosing function also binds>
#     [else: E]                              BODY'       (continue -> return None; break -> return BREAK;
#                                                         return X -> return Ret(X))
#                                        __pyvc_r_k = __pyvc_for__(S, __pyvc_body_k, (<nonlocal names>), generic_ok)
#                                        if __pyvc_isret__(__pyvc_r_k): return __pyvc_r_k.value      (if BODY returns)
#                                        if __pyvc_r_k is None: E                                     (if else-clause)
#
# On concrete data `__pyvc_for__` is the loop CPython would run (same order, same early exits).  On an abstract sequence
# it runs the body once on the generic element in local frames and turns the effects into folds (pyvc.loops).  The
# rewrite is applied only when it is an exact re-expression of the loop: the loop sits in a function; targets are plain
# names; neither the targets nor the names only BODY assigns are read outside the loop; BODY has no yield / await / try /
# with / import / def / class / del / global / nonlocal / match / zero-argument super().  Every other `for` is compiled
# as written with its iterable passed through `__pyvc_iter__`, which refuses an abstract sequence (the native loop would
# run the body once on a placeholder).  `generic_ok` is false when BODY has statement-level effects other than
# `name.append(x)` and assignments to plain names; such a loop over an abstract sequence is outside the subset.

_SCOPES = (ast.FunctionDef, ast.AsyncFunctionDef, ast.Lambda, ast.ClassDef, ast.ListComp, ast.SetComp, ast.DictComp,
           ast.GeneratorExp)


def _own(node):
    """nodes of node's subtree that belong to the same scope (does not enter nested scopes; yields the scope nodes)"""
    stack = list(ast.iter_child_nodes(node))
    while stack:
        n = stack.pop()
        yield n
        if not isinstance(n, _SCOPES):
            stack.extend(ast.iter_child_nodes(n))


def _stores(nodes):
    out = set()
    for n in nodes:
        if isinstance(n, ast.Name) and isinstance(n.ctx, (ast.Store, ast.Del)):
            out.add(n.id)
        elif isinstance(n, (ast.FunctionDef, ast.AsyncFunctionDef, ast.ClassDef)):
            out.add(n.name)
        elif isinstance(n, ast.ExceptHandler) and n.name:
            out.add(n.name)
        elif isinstance(n, (ast.Import, ast.ImportFrom)):
            for a in n.names:
                out.add((a.asname or a.name).split(".")[0])
    return out


def _binds(scope, name):
    """does the nested scope bind `name` itself (so that loads inside it do not refer to the enclosing variable)?"""
    if isinstance(scope, (ast.FunctionDef, ast.AsyncFunctionDef, ast.Lambda)):
        a = scope.args
        params = [x.arg for x in a.posonlyargs + a.args + a.kwonlyargs] + [x.arg for x in (a.vararg, a.kwarg) if x]
        if name in params:
            return True
        if isinstance(scope, ast.Lambda):
            return False
        body = [n for st in scope.body for n in [st] + list(_own(st))]
        for n in body:
            if isinstance(n, (ast.Nonlocal, ast.Global)) and name in n.names:
                return False
        return name in _stores(body)
    if isinstance(scope, ast.ClassDef):
        return False
    return any(name in _stores(list(_own(g.target)) + [g.target]) for g in scope.generators)


def _free_load(node, name, skip=None):
    """is `name` read (as the enclosing function's variable) anywhere in node's subtree, outside `skip`?"""
    if node is skip:
        return False
    if isinstance(node, ast.Name) and node.id == name and isinstance(node.ctx, ast.Load):
        return True
    if isinstance(node, _SCOPES) and _binds(node, name):
        if isinstance(node, (ast.ListComp, ast.SetComp, ast.DictComp, ast.GeneratorExp)):
            return _free_load(node.generators[0].iter, name, skip)
        if isinstance(node, ast.Lambda):
            return any(_free_load(d, name, skip) for d in node.args.defaults + [d for d in node.args.kw_defaults if d])
        return False
    return any(_free_load(ch, name, skip) for ch in ast.iter_child_nodes(node))


_FORBIDDEN = (ast.Yield, ast.YieldFrom, ast.Await, ast.Try, ast.With, ast.AsyncWith, ast.AsyncFor, ast.Import,
              ast.ImportFrom, ast.FunctionDef, ast.AsyncFunctionDef, ast.ClassDef, ast.Delete, ast.Global, ast.Nonlocal,
              ast.NamedExpr) + tuple(getattr(ast, n) for n in ("Match", "TryStar") if hasattr(ast, n))


def _simple_effects(stmts, calls=None):
    """statement-level effects limited to: assignments to plain names, name.append(x), control flow; a call statement
    `f(x)` on a plain name is admitted provisionally: `calls` collects such names and the loop driver checks at run time
    that each is the bound `append` of a list (an alias like `add = out.append`)"""
    if calls is None:
        calls = set()
    for st in stmts:
        if isinstance(st, (ast.Pass, ast.Break, ast.Continue, ast.Return, ast.Raise, ast.Assert)):
            continue
        if isinstance(st, ast.Assign):
            if all(isinstance(t, ast.Name) or (isinstance(t, (ast.Tuple, ast.List)) and all(isinstance(e, ast.Name) for e in t.elts))
                   for t in st.targets):
                continue
            return False
        if isinstance(st, (ast.AugAssign, ast.AnnAssign)):
            if isinstance(st.target, ast.Name):
                continue
            return False
        if isinstance(st, ast.If):
            if _simple_effects(st.body, calls) and _simple_effects(st.orelse, calls):
                continue
            return False
        if isinstance(st, ast.Expr):
            v = st.value
            if isinstance(v, ast.Constant):
                continue
            if isinstance(v, ast.Call) and isinstance(v.func, ast.Attribute) and v.func.attr == "append" \
                    and isinstance(v.func.value, ast.Name) and len(v.args) == 1 and not v.keywords:
                continue
            if isinstance(v, ast.Call) and isinstance(v.func, ast.Name) and len(v.args) == 1 and not v.keywords:
                calls.add(v.func.id)
                continue
            return False
        if isinstance(st, (ast.For, ast.While)):
            if _simple_effects(st.body, calls) and _simple_effects(st.orelse, calls):
                continue
            return False
        return False
    return True


class _BodyRewrite(ast.NodeTransformer):
    """continue / break / return of THIS loop -> returns of the body function"""

    def __init__(self):
        self.has_return = False

    def visit_FunctionDef(self, node): return node
    visit_AsyncFunctionDef = visit_Lambda = visit_ClassDef = visit_FunctionDef

    def _inner_loop(self, node):
        # break / continue inside belong to the inner loop; return still belongs to the function
        saved = getattr(self, "_depth", 0)
        self._depth = saved + 1
        self.generic_visit(node)
        self._depth = saved
        return node
    visit_For = visit_While = _inner_loop

    def visit_Continue(self, node):
        if getattr(self, "_depth", 0):
            return node
        return ast.copy_location(ast.Return(value=ast.Constant(value=None)), node)

    def visit_Break(self, node):
        if getattr(self, "_depth", 0):
            return node
        return ast.copy_location(ast.Return(value=_name("__pyvc_BREAK__")), node)

    def visit_Return(self, node):
        self.has_return = True
        val = node.value if node.value is not None else ast.Constant(value=None)
        return ast.copy_location(ast.Return(value=_call("__pyvc_Ret__", val)), node)


class LoopDesugar:
    def __init__(self):
        self.count = 0
        self.guarded = 0
        self._k = 0

    # -- entry ---------------------------------------------------------------------------------------------------------
    def run(self, tree):
        self._scope(tree, None)
        return tree

    def _scope(self, node, func):
        """rewrite the statement lists of `node`'s own scope; `func` = enclosing FunctionDef (None: module / class)"""
        for field in ("body", "orelse", "finalbody", "handlers"):
            stmts = getattr(node, field, None)
            if not isinstance(stmts, list):
                continue
            new = []
            for st in stmts:
                if isinstance(st, (ast.FunctionDef, ast.AsyncFunctionDef)):
                    self._scope(st, st if isinstance(st, ast.FunctionDef) else None)
                    new.append(st)
                elif isinstance(st, ast.ClassDef):
                    self._scope(st, None)
                    new.append(st)
                elif isinstance(st, ast.For):
                    new.extend(self._for(st, func))
                else:
                    if not isinstance(st, ast.expr):
                        self._scope(st, func)
                    new.append(st)
            setattr(node, field, new)
        # match statements / other containers are left alone (their loops keep the guard-free native form)

    # -- one loop ------------------------------------------------------------------------------------------------------
    def _guard(self, st, func):
        self.guarded += 1
        st.iter = ast.copy_location(_call("__pyvc_iter__", st.iter), st.iter)
        ast.fix_missing_locations(st.iter)
        self._scope(st, func)
        return [st]

    def _for(self, st, func):
        if func is None:
            return self._guard(st, func)
        tgt = st.target
        if not _flat_target(tgt):
            return self._guard(st, func)
        tnames = [tgt.id] if isinstance(tgt, ast.Name) else [e.id for e in tgt.elts]
        inner = [n for b in st.body + st.orelse for n in [b] + list(_own(b))]
        if any(isinstance(n, _FORBIDDEN) for n in inner) or \
                any(isinstance(n, ast.Name) and n.id in ("super", "locals", "vars", "eval", "exec") for n in inner):
            return self._guard(st, func)
        body_nodes = [n for b in st.body for n in [b] + list(_own(b))]
        W = _stores(body_nodes) - set(tnames)
        fn_nodes = list(_own(func))
        decl = set()
        for n in fn_nodes:
            if isinstance(n, ast.Global):
                decl |= set(n.names)
        if decl & (W | set(tnames)):
            return self._guard(st, func)
        a = func.args
        params = {x.arg for x in a.posonlyargs + a.args + a.kwonlyargs} | {x.arg for x in (a.vararg, a.kwarg) if x}
        loop_nodes = {id(n) for n in [st] + list(_own(st))}
        outside = [n for n in fn_nodes if id(n) not in loop_nodes]
        stores_outside = _stores(outside) | params
        for n in fn_nodes:
            if isinstance(n, ast.Nonlocal):
                stores_outside |= set(n.names)
        carried = sorted(W & stores_outside)
        temps = W - stores_outside
        # names the loop alone binds must not be read outside it
        for name in list(temps) + tnames:
            for other in func.body:
                if _free_load(other, name, skip=st):
                    return self._guard(st, func)
            # the for-else clause runs after the loop, in the enclosing function
            if any(_free_load(e, name) for e in st.orelse):
                return self._guard(st, func)
        # build the body function
        self._k += 1
        k = self._k
        self.count += 1
        rw = _BodyRewrite()
        body = [rw.visit(b) for b in st.body]
        fname, rname = f"__pyvc_body_{k}", f"__pyvc_r_{k}"
        if isinstance(tgt, ast.Name):
            fargs = ast.arguments(posonlyargs=[], args=[ast.arg(arg=tgt.id)], kwonlyargs=[], kw_defaults=[], defaults=[])
            pre = []
        else:
            fargs = ast.arguments(posonlyargs=[], args=[ast.arg(arg="__pyvc_t__")], kwonlyargs=[], kw_defaults=[], defaults=[])
            pre = [ast.Assign(targets=[ast.Tuple(elts=[ast.Name(id=n, ctx=ast.Store()) for n in tnames], ctx=ast.Store())],
                              value=_name("__pyvc_t__"))]
        fbody = ([ast.Nonlocal(names=carried)] if carried else []) + pre + body + [ast.Return(value=ast.Constant(value=None))]
        fdef = ast.FunctionDef(name=fname, args=fargs, body=fbody, decorator_list=[], returns=None, type_comment=None)
        if hasattr(ast, "TypeVar"):
            fdef.type_params = []
        stmt_calls = set()
        generic_ok = _simple_effects(st.body, stmt_calls)
        call = ast.Assign(targets=[ast.Name(id=rname, ctx=ast.Store())],
                          value=_call("__pyvc_for__", st.iter, _name(fname),
                                      ast.Tuple(elts=[ast.Constant(value=n) for n in carried], ctx=ast.Load()),
                                      ast.Constant(value=generic_ok),
                                      ast.Tuple(elts=[ast.Constant(value=n) for n in sorted(stmt_calls)], ctx=ast.Load())))
        out = [fdef, call]
        if rw.has_return:
            out.append(ast.If(test=_call("__pyvc_isret__", _name(rname)),
                              body=[ast.Return(value=ast.Attribute(value=_name(rname), attr="value", ctx=ast.Load()))], orelse=[]))
        if st.orelse:
            out.append(ast.If(test=ast.Compare(left=_name(rname), ops=[ast.Is()], comparators=[ast.Constant(value=None)]),
                              body=st.orelse, orelse=[]))
        for o in out:
            ast.copy_location(o, st)
            for n in ast.walk(o):
                if not hasattr(n, "lineno"):
                    ast.copy_location(n, st)
            ast.fix_missing_locations(o)
        # loops nested in the body are handled with the body function as their enclosing function
        self._scope(fdef, fdef)
        for o in out[2:]:
            self._scope(o, func)
        return out


def desugar(src, path):
    """-> (ast ready for compile, {comprehensions, comprehensions_untouched, loops, loops_guarded})"""
    tree = ast.parse(src, path)
    d = Desugar()
    tree = d.visit(tree)
    ast.fix_missing_locations(tree)
    ld = LoopDesugar()
    ld.run(tree)
    ast.fix_missing_locations(tree)
    return tree, {"comprehensions": d.count, "comprehensions_untouched": d.skipped, "loops": ld.count,
                  "loops_guarded": ld.guarded, "str_calls": getattr(d, "str_calls", 0),
                  "subscripts": getattr(d, "subscripts", 0), "memberships": getattr(d, "memberships", 0)}
