"""pyvc.desugar -- the one mechanical rewrite applied to the repository's module text before it is compiled for
symbolic execution:  comprehensions and generator expressions become the map/filter/lambda pipelines they abbreviate.

    [E for x in S if C]          ->  list(map(lambda x: E, filter(lambda x: C, S)))
    {E for x in S}               ->  set(map(lambda x: E, S))
    {K: V for x in S}            ->  dict(map(lambda x: (K, V), S))
    (E for x in S)               ->  map(lambda x: E, S)
    for a, b in S                ->  lambda t: (lambda a, b: ...)(*t)
    for x in S for y in T        ->  chain.from_iterable(map(lambda x: <inner>, S))

Why: CPython's comprehension byte code drives the iteration itself, so an abstract sequence (unbounded child list) cannot
take part in it; map/filter are shimmed.  The rewrite preserves evaluation order (outermost iterable evaluated at once,
everything else per element), scoping (comprehension targets are function-local, as lambda parameters are; class-body
names are visible in the outermost iterable only, in both forms) and laziness (generator expression <-> map object).
Dropped: nothing.  Left untouched (compiled as written): comprehensions containing `:=`, `await`, `yield`, `async for`,
or nested (non-flat) tuple targets.  Source positions are kept, so evidence hashes and tracebacks refer to /repo's text.
"""
import ast

HELPERS = ("__pyvc_map__", "__pyvc_filter__", "__pyvc_list__", "__pyvc_set__", "__pyvc_dict__", "__pyvc_flat__")


def _bad(node):
    for n in ast.walk(node):
        if isinstance(n, (ast.NamedExpr, ast.Await, ast.Yield, ast.YieldFrom)):
            return True
        if isinstance(n, ast.comprehension) and n.is_async:
            return True
    return False


def _flat_target(t):
    if isinstance(t, ast.Name):
        return True
    if isinstance(t, (ast.Tuple, ast.List)):
        return all(isinstance(e, ast.Name) for e in t.elts)
    return False


def _name(n):
    return ast.Name(id=n, ctx=ast.Load())


def _lam(target, body):
    """lambda <target>: body   (flat tuple targets through an inner lambda applied to *t)"""
    if isinstance(target, ast.Name):
        args = ast.arguments(posonlyargs=[], args=[ast.arg(arg=target.id)], kwonlyargs=[], kw_defaults=[], defaults=[])
        return ast.Lambda(args=args, body=body)
    inner = ast.Lambda(args=ast.arguments(posonlyargs=[], args=[ast.arg(arg=e.id) for e in target.elts],
                                          kwonlyargs=[], kw_defaults=[], defaults=[]), body=body)
    t = "__pyvc_t__"
    call = ast.Call(func=inner, args=[ast.Starred(value=_name(t), ctx=ast.Load())], keywords=[])
    return ast.Lambda(args=ast.arguments(posonlyargs=[], args=[ast.arg(arg=t)], kwonlyargs=[], kw_defaults=[],
                                         defaults=[]), body=call)


def _call(fn, *args):
    return ast.Call(func=_name(fn), args=list(args), keywords=[])


class Desugar(ast.NodeTransformer):
    def __init__(self):
        self.count = 0
        self.skipped = 0

    def _pipeline(self, elt, gens):
        g = gens[0]
        src = g.iter
        for cond in g.ifs:
            src = _call("__pyvc_filter__", _lam(g.target, cond), src)
        if len(gens) == 1:
            return _call("__pyvc_map__", _lam(g.target, elt), src)
        inner = self._pipeline(elt, gens[1:])
        return _call("__pyvc_flat__", _call("__pyvc_map__", _lam(g.target, inner), src))

    def _ok(self, node):
        if _bad(node) or not all(_flat_target(g.target) for g in node.generators):
            self.skipped += 1
            return False
        return True

    def _finish(self, new, old):
        self.count += 1
        new = ast.copy_location(new, old)
        for n in ast.walk(new):
            if not hasattr(n, "lineno"):
                ast.copy_location(n, old)
        return ast.fix_missing_locations(new)

    def visit_ListComp(self, node):
        self.generic_visit(node)
        if not self._ok(node):
            return node
        return self._finish(_call("__pyvc_list__", self._pipeline(node.elt, node.generators)), node)

    def visit_SetComp(self, node):
        self.generic_visit(node)
        if not self._ok(node):
            return node
        return self._finish(_call("__pyvc_set__", self._pipeline(node.elt, node.generators)), node)

    def visit_GeneratorExp(self, node):
        self.generic_visit(node)
        if not self._ok(node):
            return node
        return self._finish(self._pipeline(node.elt, node.generators), node)

    def visit_DictComp(self, node):
        self.generic_visit(node)
        if not self._ok(node):
            return node
        pair = ast.Tuple(elts=[node.key, node.value], ctx=ast.Load())
        return self._finish(_call("__pyvc_dict__", self._pipeline(pair, node.generators)), node)


def desugar(src, path):
    """-> (ast ready for compile, number of comprehensions rewritten, number left untouched)"""
    tree = ast.parse(src, path)
    d = Desugar()
    tree = d.visit(tree)
    ast.fix_missing_locations(tree)
    return tree, d.count, d.skipped
