"""pyvc.shim -- the builtins and library modules the repository code sees while it is executed symbolically.

The repository modules are exec'd from their real source text with a private `__builtins__` mapping and a
private `__import__`.  Every shim behaves exactly like the original when no symbolic data is involved
(it then *calls* the original); with symbolic data it implements the library model listed in DESIGN.md
section 3.3 (validated against CPython by the encoding cross-check).
"""
import builtins as _b
import itertools as _it
import functools as _ft
import operator as _op
import types
import z3

from .sym import (isi, SInt, SBool, SId, Unsupported, ctx, have_ctx, lift, to_term, to_bterm, is_sym, snot, site,
                  intern_id)
from .folds import (Seq, Gen, GenToken, Cases, to_seq, has_abstract, seq_map, seq_filter, seq_sum, seq_len,
                    seq_any, seq_all, seq_or_list, merge, apply_generic)

_real = {n: getattr(_b, n) for n in dir(_b)}


class OneShot:
    """What map()/filter() return over an abstract sequence: an ITERATOR.  The first consumer that runs it to exhaustion
    gets the elements, every later consumer gets nothing (CPython's behaviour for consumers that run one after the
    other); after a short-circuiting consumer (any / all / in) read an unknown part of it, any further use is refused."""
    _pyvc_proxy = True

    def __init__(self, seq):
        self.seq = seq
        self.state = "fresh"

    def take(self, partial=False):
        if self.state == "partial":
            raise Unsupported("iterator over an unbounded child list used again after any()/all()/in read part of it")
        if self.state == "done":
            return Seq([])
        self.state = "partial" if partial else "done"
        return self.seq

    def __iter__(self):
        return _real["iter"](self.take())

    def __contains__(self, x):
        return x in self.take(partial=True)


def _materialise(it, partial=False):
    """iterable -> list (real) or Seq (when abstract)."""
    if isi(it, OneShot):
        m = it.take(partial)
        return m if m.abstract else m.concrete_list()
    if isi(it, Seq):
        return it if it.abstract else it.concrete_list()
    if isi(it, GenToken):
        return Seq([it])
    if isi(it, (SymVec,)):
        return list(it.items)
    items = _real["list"](it)
    if any(isi(e, GenToken) for e in items):
        return Seq(items)
    return items


# ------------------------------------------------------------------------------------------------
# builtin *types*: subclasses whose metaclass makes isinstance/issubclass/== behave like the original
# ------------------------------------------------------------------------------------------------

class _TypeShimMeta(type):
    def __instancecheck__(cls, x):
        return _real["isinstance"](x, cls.__orig__)

    def __subclasscheck__(cls, c):
        try:
            return _real["issubclass"](c, cls.__orig__)
        except TypeError:
            return False

    def __eq__(cls, other):
        return other is cls or other is cls.__orig__

    def __ne__(cls, other):
        return not (other is cls or other is cls.__orig__)

    def __hash__(cls):
        return hash(cls.__orig__)

    def __repr__(cls):
        return repr(cls.__orig__)


class list_(list, metaclass=_TypeShimMeta):
    __orig__ = list

    def __new__(cls, it=()):
        m = _materialise(it)
        if isi(m, Seq):
            return Seq(_real["list"](m))
        return _real["list"](m)


class tuple_(tuple, metaclass=_TypeShimMeta):
    __orig__ = tuple

    def __new__(cls, it=()):
        m = _materialise(it)
        if isi(m, Seq):
            return Seq(_real["list"](m))
        return _real["tuple"](m)


class set_(set, metaclass=_TypeShimMeta):
    __orig__ = set

    def __new__(cls, it=()):
        m = _materialise(it)
        if isi(m, Seq) or any(_needs_symset(e) for e in m):
            return SymSet(to_seq(m))
        return _real["set"](m)


class dict_(dict, metaclass=_TypeShimMeta):
    __orig__ = dict

    def __new__(cls, *a, **k):
        if a and not isi(a[0], dict):
            if isi(a[0], SeqZip):
                from .folds import SeqDict
                if len(a[0].ms) != 2:
                    raise Unsupported("dict(zip()) of other than two sequences")
                return SeqDict(a[0].ms[0], a[0].ms[1])
            m = _materialise(a[0])
            if isi(m, Seq):
                # an abstract sequence of (key, value) pairs: one segment whose element is a 2-tuple
                from .folds import SeqDict
                if len(m.segs) == 1 and isi(m.segs[0], Gen) and isi(m.segs[0].elem, tuple) and len(m.segs[0].elem) == 2:
                    g = m.segs[0]
                    return SeqDict(Seq([Gen(g.base, g.guard, g.elem[0])]), Seq([Gen(g.base, g.guard, g.elem[1])]))
                raise Unsupported("dict() over an abstract sequence of pairs")
            if any(is_sym(p[0]) for p in m):
                return SymDict(m)
            return _real["dict"](m, **k)
        return _real["dict"](*a, **k)


class int_(int, metaclass=_TypeShimMeta):
    __orig__ = int

    def __new__(cls, x=0, *a):
        if type(x) is SBool:
            return x._asint()
        if type(x) is SInt:
            return x
        if type(x) is SId:
            raise Unsupported("int() of a symbolic id")
        return _real["int"](x, *a)


def _container_with_symbolic_parts(x, depth=0):
    """a BUILT-IN container (tuple/list/dict/set) that holds a symbolic scalar somewhere inside: its str()/repr() would
    spell out the engine's placeholder names, and whatever the code computes from that text would be meaningless"""
    if depth > 6:
        return False
    t = _real["type"](x)
    if t in (tuple, list, set, frozenset):
        return any(is_sym(e) or getattr(_real["type"](e), "_pyvc_proxy", False) or isi(e, (Seq, GenToken, Cases))
                   or _container_with_symbolic_parts(e, depth + 1) for e in x)
    if t is dict:
        return any(is_sym(e) or getattr(_real["type"](e), "_pyvc_proxy", False) or _container_with_symbolic_parts(e, depth + 1)
                   for kv in x.items() for e in kv)
    return False


def str_(x):
    """str(x) of the module text (rewritten call sites only; the name `str` stays the real type)"""
    if _real["type"](x) is str:
        return x
    if isi(x, (Seq, GenToken, Cases)) or _container_with_symbolic_parts(x):
        raise Unsupported("str() of a container with symbolic parts")
    return _real["str"](x)


def _native_with_marker(x):
    t = _real["type"](x)
    return (t is tuple or t is list) and any(_real["type"](e) is GenToken for e in x)


def getitem_(x, k):
    """x[k] of the module text"""
    if _native_with_marker(x):
        raise Unsupported("positional access to a sequence with an abstract segment")
    return x[k]


def in_(a, x):
    """`a in x` of the module text; `not in` is rewritten to `not (a in x)`.  The result goes through bool() exactly as the
    operator's would (a symbolic truth value branches there)."""
    if _native_with_marker(x):
        raise Unsupported("membership in a sequence with an abstract segment")
    return a in x


def repr_(x):
    if isi(x, (Seq, GenToken, Cases)) or _container_with_symbolic_parts(x):
        raise Unsupported("repr() of a container with symbolic parts")
    return _real["repr"](x)


_TYPE_SHIMS = {list: list_, tuple: tuple_, set: set_, dict: dict_, int: int_}


class SymStr:
    """an opaque string built from symbolic parts; only equality of identical construction is known"""

    def __init__(self, parts):
        self.parts = parts

    @property
    def __class__(self):
        return str

    def __add__(self, o):
        return SymStr(("cat", self, o))

    def __radd__(self, o):
        return SymStr(("cat", o, self))

    def encode(self, *a):
        return self

    def replace(self, *a):
        return SymStr(("replace", self) + a)

    def __hash__(self):
        raise Unsupported("hash of symbolic string")

    def __eq__(self, o):
        raise Unsupported("equality on a symbolic string")

    def __format__(self, spec):
        return "<symstr>"

    def __str__(self):
        return "<symstr>"


def _needs_symset(e):
    if is_sym(e) or isi(e, Cases) or getattr(_real["type"](e), "_pyvc_proxy", False):
        return True
    if isi(e, (int, str, bytes, float, type(None), bool)):
        return False
    if isi(e, tuple):
        return any(_needs_symset(x) for x in e)
    # objects of repository classes: their __hash__ would run on symbolic fields
    d = getattr(e, "__dict__", None)
    if d is None:
        return False
    return _obj_symbolic(e, 0)


def _obj_symbolic(o, depth):
    if depth > 3:
        return False
    if is_sym(o) or isi(o, (Seq, Cases, GenToken)):
        return True
    d = getattr(o, "__dict__", None)
    if isi(d, dict):
        return any(_obj_symbolic(v, depth + 1) for v in d.values())
    if isi(o, (list, tuple)):
        return any(_obj_symbolic(v, depth + 1) for v in o)
    return False


class SymSet:
    """set() over symbolic elements: membership by (hash ==) and (__eq__), as CPython does."""

    def __init__(self, seq):
        self.seq = seq

    def distinct_count(self):
        """number of distinct elements under CPython's set semantics (hash equal and __eq__)"""
        s = self.seq
        gens = [seg for seg in s.segs if isi(seg, Gen)]
        items = [seg[1] for seg in s.segs if not isi(seg, Gen)]
        total = 0
        for g in gens:
            # each abstract family declares its own elements pairwise distinct under (hash, eq): wf, "no node lists a
            # child twice"; two different families in one set are not supported
            if not getattr(g.base, "distinct", False):
                raise Unsupported("len(set()) over an abstract sequence not known to be duplicate free")
            total = total + seq_len(Seq([g]))
        if len({g.base.name for g in gens}) > 1 or len(gens) > 1:
            raise Unsupported("len(set()) over two abstract segments")
        for k, e in enumerate(items):
            dup = False
            for j in range(k):
                dup = lift(z3.Or(to_bterm(dup), to_bterm(_py_set_same(items[j], e))))
            for g in gens:
                hit = seq_any(Seq([g]), lambda x, e=e: _py_set_same(x, e))
                dup = lift(z3.Or(to_bterm(dup), to_bterm(hit)))
            total = total + site(dup, 0, 1)
        return total

    def __iter__(self):
        # iteration order of a set is unspecified: only order-insensitive consumers may use this
        if self.seq.abstract:
            return iter(self.seq)
        items = self.seq.concrete_list()
        out = []
        for k, e in enumerate(items):
            dup = False
            for j in range(k):
                dup = lift(z3.Or(to_bterm(dup), to_bterm(_py_set_same(items[j], e))))
            if type(dup) is bool:
                if not dup:
                    out.append(e)
            else:
                if not ctx().branch(dup.t):
                    out.append(e)
        return iter(out)


def _py_set_same(a, b):
    if a is b:
        return True
    ha, hb = hash_(a), hash_(b)
    heq = (ha == hb)
    if heq is False:
        return False
    eq = (a == b)
    return lift(z3.And(to_bterm(heq), to_bterm(eq)))


class SymDict:
    """dict built from (key, value) pairs with symbolic keys; last writer wins."""

    def __init__(self, pairs):
        self.pairs = [(k, v) for k, v in pairs]

    def _lookup(self, key, default, missing_raises):
        res = None
        found = False
        for k, v in self.pairs:
            hit = (k == key)
            if hit is True:
                res, found = v, True
            elif hit is False:
                continue
            else:
                if ctx().branch(to_bterm(hit)):
                    res, found = v, True
        if not found:
            if missing_raises:
                raise KeyError(key)
            return default
        return res

    def __getitem__(self, key):
        return self._lookup(key, None, True)

    def get(self, key, default=None):
        return self._lookup(key, default, False)

    def __contains__(self, key):
        return lift(z3.Or(*[to_bterm(k == key) for k, _ in self.pairs])) if self.pairs else False

    def keys(self):
        return [k for k, _ in self.pairs]

    def values(self):
        return [v for _, v in self.pairs]

    def items(self):
        return list(self.pairs)

    def __len__(self):
        raise Unsupported("len of symbolic dict")


# ------------------------------------------------------------------------------------------------
# builtin functions
# ------------------------------------------------------------------------------------------------

def map_(f, *its):
    if not have_ctx():
        return _real["map"](f, *its)
    if len(its) == 1:
        m = _materialise(its[0])
        if isi(m, Seq):
            return OneShot(seq_map(f, m))
        return iter([f(x) for x in m])
    ms = [_materialise(i) for i in its]
    if any(isi(m, Seq) for m in ms):
        raise Unsupported("map over several iterables with an abstract one")
    return iter([f(*xs) for xs in _real["zip"](*ms)])


def filter_(p, it):
    if not have_ctx():
        return _real["filter"](p, it)
    m = _materialise(it)
    if isi(m, Seq):
        return OneShot(seq_filter(p, m))
    out = []
    for x in m:
        if (p(x) if p is not None else x):
            out.append(x)
    return iter(out)


def sum_(it, start=0):
    m = _materialise(it)
    if isi(m, Seq):
        return seq_sum(m, None, start)
    return _real["sum"](m, start)


def len_(x):
    if isi(x, Seq):
        return seq_len(x)
    if isi(x, SymSet):
        return x.distinct_count()
    if isi(x, SymVec):
        return len(x.items)
    if isi(x, (list, tuple)) and any(isi(e, GenToken) for e in x):
        return seq_len(Seq(x))
    return _real["len"](x)


def sorted_(it, key=None, reverse=False):
    m = _materialise(it)
    if isi(m, Seq):
        # S7: sorted returns a permutation of its input; the sequence is a bag from here on
        return Seq(_real["list"](m))
    return _real["sorted"](m, key=key, reverse=reverse)


def any_(it):
    m = _materialise(it, partial=True)
    if isi(m, Seq):
        return seq_any(m)
    for x in m:
        if x:
            return True
    return False


def all_(it):
    m = _materialise(it, partial=True)
    if isi(m, Seq):
        return seq_all(m)
    for x in m:
        if not x:
            return False
    return True


def _minmax(is_min, args, key=None, default=None):
    items = _materialise(args[0]) if len(args) == 1 else _real["list"](args)
    if isi(items, Seq):
        raise Unsupported("min/max over an abstract sequence")
    if key is not None or not any(is_sym(x) for x in items):
        f = _real["min"] if is_min else _real["max"]
        return f(items, key=key) if key is not None else f(items)
    acc = items[0]
    for x in items[1:]:
        c = (x < acc) if is_min else (x > acc)
        acc = site(c, x, acc)
    return acc


def min_(*a, **k):
    return _minmax(True, a, **k)


def max_(*a, **k):
    return _minmax(False, a, **k)


def zip_(*its):
    if not have_ctx():
        return _real["zip"](*its)
    ms = [_materialise(i) for i in its]
    if any(isi(m, Seq) for m in ms):
        return SeqZip(ms)
    return iter(_real["list"](_real["zip"](*ms)))


class SeqZip:
    """zip over aligned abstract sequences (same segment structure); consumed only by dict()"""

    def __init__(self, ms):
        self.ms = ms

    def __iter__(self):
        raise Unsupported("iteration over zip of abstract sequences")


def enumerate_(it, start=0):
    m = _materialise(it)
    if isi(m, Seq):
        raise Unsupported("enumerate over an abstract sequence (positions are abstracted)")
    return _real["enumerate"](m, start)


def isinstance_(x, cls):
    return issubclass_(getattr(x, "__class__", type(x)), cls)


def issubclass_(c, cls):
    if isi(c, SymClass):
        return c.issub(cls)
    return _real["issubclass"](c, cls)


class SymClass:
    """class of an object whose kind is symbolic (not used when kinds are resolved by forking)"""

    def __init__(self, cases):
        self.cases = cases

    def issub(self, cls):
        return lift(z3.Or(*[c for c, k in self.cases if _real["issubclass"](k, cls)]))


class _type_meta(type):
    def __instancecheck__(cls, x):
        return _real["isinstance"](x, type)


class type_(type, metaclass=_type_meta):
    """type(x) -> class as the running code must see it"""

    def __new__(cls, *a):
        if len(a) == 1:
            x = a[0]
            k = getattr(x, "__class__", None)
            t = _real["type"](x)
            if k is not None and k is not t and (is_sym(x) or getattr(t, "_pyvc_proxy", False)):
                t = k
            return _TYPE_SHIMS.get(t, t)
        return _real["type"](*a)


_HASH_MOD = (1 << 61) - 1


def hash_(x):
    """S6: hash(int) = int (|x| < 2^61-1, -1 -> -2); hash(str) uninterpreted; tuples uninterpreted of parts"""
    tx = _real["type"](x)
    if tx is SId:
        return SInt(z3.Function("strhash", z3.IntSort(), z3.IntSort())(x.t))
    if tx is SInt:
        return lift(z3.If(x.t == -1, z3.IntVal(-2), x.t))
    if tx is SBool:
        return x._asint()
    if tx is tuple:
        sym_t = _obj_symbolic(x, 0)
        if not sym_t:
            try:
                return _real["hash"](x)
            except TypeError:
                sym_t = True      # a symbolic field deeper than the look-ahead
        parts = [hash_(e) for e in x]
        if not any(is_sym(p) for p in parts):
            return _real["hash"](tuple(parts)) if not sym_t else _real["hash"](x)
        f = z3.Function(f"tuplehash{len(parts)}", *([z3.IntSort()] * (len(parts) + 1)))
        args = [to_term(p) for p in parts]
        app = f(*args)
        # A-hash: no accidental collision between tuple hashes (equal hashes <=> equal component hashes).  Hashes of
        # integers stay exact (hash(n) = n, hash(-1) = -2), so arithmetic coincidences such as
        # hash(0)+hash(3) == hash(1)+hash(2) are still found.
        c = ctx()
        seen = c.__dict__.setdefault("tuplehash_apps", {}).setdefault(len(parts), [])
        key = app.sexpr()
        if all(k != key for k, _, _ in seen):
            for _, app2, args2 in seen:
                c.axiom(z3.Implies(app == app2, z3.And(*[a == b for a, b in _real["zip"](args, args2)])))
            seen.append((key, app, args))
        return lift(app)
    if isi(x, Seq):
        # bag abstraction (S7): the hash of a child list is a function of the bag of its elements' hashes
        mix = z3.Function("hashmix", z3.IntSort(), z3.IntSort())
        total = seq_sum(x, lambda e: SInt(mix(to_term(hash_(e)))))
        return SInt(z3.Function("seqhash", z3.IntSort(), z3.IntSort())(to_term(total)))
    if getattr(tx, "_pyvc_proxy", False):
        from .folds import unwrap
        x = unwrap(x)
        if hasattr(x, "pyhash"):
            return x.pyhash()
        return hash_(x)
    if tx is str and have_ctx() and getattr(ctx(), "symbolic_ids", False):
        return SInt(z3.Function("strhash", z3.IntSort(), z3.IntSort())(intern_id(x).t))
    h = getattr(tx, "__hash__", None)
    if h is not None and _obj_symbolic(x, 0) and tx.__module__ not in ("builtins",):
        return h(x)  # run the class's own __hash__ (from repository source) on symbolic fields
    try:
        return _real["hash"](x)
    except TypeError:
        # a symbolic field deeper than the look-ahead made the class's own __hash__ return a symbolic integer
        if h is not None and tx.__module__ not in ("builtins",):
            return h(x)
        raise


def next_(it, *default):
    if isi(it, OneShot):
        it = it.take(partial=True)
    if isi(it, Seq):
        if it.abstract:
            raise Unsupported("next() on an abstract sequence")
        it = iter(it.concrete_list())
    return _real["next"](it, *default)


def iter_(x, *a):
    if isi(x, OneShot):
        return x
    if isi(x, Seq) and x.abstract:
        raise Unsupported("iter() of an abstract sequence")
    return _real["iter"](x, *a)


def abs_(x):
    return x.__abs__()


def range_(*a):
    if any(is_sym(x) for x in a):
        raise Unsupported("range() with symbolic bound")
    return _real["range"](*a)


def callable_(x):
    return _real["callable"](x)


def make_builtins(extra=None):
    d = dict(_real)
    d.update({
        "map": map_, "filter": filter_, "sum": sum_, "len": len_, "sorted": sorted_, "any": any_, "all": all_,
        "min": min_, "max": max_, "zip": zip_, "enumerate": enumerate_, "isinstance": isinstance_,
        "issubclass": issubclass_, "type": type_, "hash": hash_, "next": next_, "iter": iter_, "abs": abs_,
        "range": range_, "list": list_, "tuple": tuple_, "set": set_, "dict": dict_, "int": int_,
        "repr": repr_, "__pyvc_str__": str_, "__pyvc_getitem__": getitem_, "__pyvc_in__": in_,
    })
    # helpers referenced by the comprehension desugaring (pyvc.desugar); private names, so a module that shadows
    # `map`/`list` keeps its own meaning
    d.update({"__pyvc_map__": map_, "__pyvc_filter__": filter_, "__pyvc_list__": list_, "__pyvc_set__": set_,
              "__pyvc_dict__": dict_, "__pyvc_flat__": lambda its: _chain().from_iterable(its)})
    from . import loops
    d.update({"__pyvc_for__": loops.pyvc_for, "__pyvc_iter__": loops.pyvc_iter, "__pyvc_Ret__": loops.Ret,
              "__pyvc_BREAK__": loops.BREAK, "__pyvc_isret__": loops.isret})
    if extra:
        d.update(extra)
    return d


# ------------------------------------------------------------------------------------------------
# small symbolic vectors (numpy one-liners in plog: array(list_of_pairs).sum(axis=0) >= v) * 1 )
# ------------------------------------------------------------------------------------------------

class SymVec:
    """1-D vector of symbolic scalars (result of a column-wise reduction)"""

    def __init__(self, items):
        self.items = list(items)

    def _ew(self, o, f):
        if isi(o, SymVec):
            return SymVec([f(a, b) for a, b in _real["zip"](self.items, o.items)])
        return SymVec([f(a, o) for a in self.items])

    def __ge__(self, o): return self._ew(o, lambda a, b: a >= b)
    def __gt__(self, o): return self._ew(o, lambda a, b: a > b)
    def __le__(self, o): return self._ew(o, lambda a, b: a <= b)
    def __lt__(self, o): return self._ew(o, lambda a, b: a < b)
    def __mul__(self, o): return self._ew(o, lambda a, b: a * b)
    __rmul__ = __mul__
    def __add__(self, o): return self._ew(o, lambda a, b: a + b)
    __radd__ = __add__
    def __sub__(self, o): return self._ew(o, lambda a, b: a - b)

    def __iter__(self):
        return iter(self.items)

    def __len__(self):
        return len(self.items)

    def __getitem__(self, k):
        return self.items[k]

    @property
    def __class__(self):
        import numpy
        return numpy.ndarray


class SymRows:
    """numpy.array(list of equal-length tuples) with an abstract number of rows"""

    def __init__(self, seq, width):
        self.seq = seq
        self.width = width

    def sum(self, axis=None):
        if axis != 0:
            raise Unsupported("SymRows.sum only along axis 0")
        return SymVec([seq_sum(self.seq, (lambda k: (lambda row: row[k]))(k)) for k in range(self.width)])


def np_array(real_numpy):
    def array(obj, *a, **k):
        if isi(obj, Seq) or (isi(obj, (list, tuple)) and _obj_symbolic(obj, 0)):
            s = to_seq(obj)
            widths = set()
            for seg in s.segs:
                e = seg.elem if isi(seg, Gen) else seg[1]
                if isi(e, Cases):
                    for _, v in e._pairs:
                        widths.add(len(v) if isi(v, tuple) else None)
                else:
                    widths.add(len(e) if isi(e, tuple) else None)
            if not s.segs:
                # numpy.array([]).sum(axis=0) is the scalar 0.0
                return _EmptyRows()
            if len(widths) == 1 and None not in widths:
                return SymRows(s, widths.pop())
            if widths == {None} and not s.abstract:
                return SymVec(s.concrete_list())
            raise Unsupported("numpy.array of symbolic data of this shape")
        return real_numpy.array(obj, *a, **k)
    return array


class _EmptyRows:
    def sum(self, axis=None):
        return 0


class ModuleShim(types.ModuleType):
    def __init__(self, real, overrides):
        super().__init__(real.__name__)
        self.__dict__["_real"] = real
        self.__dict__.update(overrides)

    def __getattr__(self, name):
        return getattr(self.__dict__["_real"], name)


# itertools ---------------------------------------------------------------------------------------

class _chain:
    def __call__(self, *its):
        if not have_ctx():
            return _it.chain(*its)
        out = []
        for i in its:
            m = _materialise(i)
            out.extend(_real["list"](m))
        return seq_or_list(out) if any(isi(e, GenToken) for e in out) else iter(out)

    def from_iterable(self, its):
        m = _materialise(its)
        if isi(m, Seq):
            raise Unsupported("chain.from_iterable over an abstract sequence of sequences")
        return self(*m)


def _compress(data, selectors):
    d, s = _materialise(data), _materialise(selectors)
    if isi(d, Seq) or isi(s, Seq):
        raise Unsupported("itertools.compress over abstract sequences")
    out = []
    for x, sel in _real["zip"](d, s):
        if sel:
            out.append(x)
    return iter(out)


def _starmap(f, it):
    m = _materialise(it)
    if isi(m, Seq):
        return seq_map(lambda args: f(*args), m)
    return iter([f(*args) for args in m])


def _reduce(f, it, *init):
    m = _materialise(it)
    if isi(m, Seq):
        raise Unsupported("functools.reduce over an abstract sequence")
    return _ft.reduce(f, m, *init)


def make_modules(real_numpy):
    itertools_shim = ModuleShim(_it, {"chain": _chain(), "compress": _compress, "starmap": _starmap})
    functools_shim = ModuleShim(_ft, {"reduce": _reduce})
    numpy_shim = ModuleShim(real_numpy, {"array": np_array(real_numpy)})
    return {"itertools": itertools_shim, "functools": functools_shim, "numpy": numpy_shim}
