"""pyvc.rsmodel -- the ASSUMED contract A-rs1 of the compiled extension puan_rspy, as an executable model.

Only what the Python glue of `AtLeast.to_ge_polyhedron` touches: StatementPy / AtLeastPy / SignPy / TheoryPy and
TheoryPy.to_ge_polyhedron(active, reduced=False) -> object with .b, .a.val / .a.nrows / .a.ncols, .variables[j].id/.bounds.

A-rs1: the top statement is the compound no other statement references; columns are the statement indices in increasing
order (the top has no column when `active`); per compound k with sign s_k, threshold value_k = -bias_k, children J_k:
        (e_k - value_k) * X_k  +  s_k * sum_{j in J_k} X_j   >=   e_k,      e_k = sum_j min(s_k*lo_j, s_k*hi_j)
and for the asserted top:   s * sum_j X_j >= value.        Entries may be symbolic (mathematical integers, S1).
The real extension is validated against exactly these rows at run time, model by model (rt.logic:a_rs1_rows).
"""
from .sym import Unsupported, site


class SignPy:
    Positive = "Positive"
    Negative = "Negative"


class AtLeastPy:
    def __init__(self, ids, bias, sign):
        self.ids, self.bias, self.sign = list(ids), bias, sign


class StatementPy:
    def __init__(self, variable, bounds, expression):
        self.variable, self.bounds, self.expression = variable, tuple(bounds), expression


class _Var:
    def __init__(self, id, bounds):
        self.id, self.bounds = id, bounds


class _Mat:
    def __init__(self, val, nrows, ncols):
        self.val, self.nrows, self.ncols = val, nrows, ncols


class _Poly:
    def __init__(self, a, b, variables):
        self.a, self.b, self.variables, self.index = a, b, variables, []


def _smin(a, b):
    return site(a <= b, a, b)


class TheoryPy:
    def __init__(self, statements):
        self.statements = list(statements)

    def to_ge_polyhedron(self, active, reduced):
        if reduced:
            return self._open_reduced(active)
        st = self.statements
        idx = [s.variable for s in st]
        if any(type(i) is not int for i in idx) or len(set(idx)) != len(idx):
            raise Unsupported("A-rs1: statement indices must be pairwise distinct concrete integers")
        by = {s.variable: s for s in st}
        referenced = set()
        for s in st:
            if s.expression is not None:
                for j in s.expression.ids:
                    if type(j) is not int or j not in by:
                        raise Unsupported("A-rs1: a child index that is not a statement (the extension panics)")
                    referenced.add(j)
        tops = [s for s in st if s.expression is not None and s.variable not in referenced]
        if len(tops) != 1:
            raise Unsupported("A-rs1: exactly one top statement expected")
        top = tops[0]
        cols = sorted(i for i in idx if not (active and i == top.variable))
        pos = {i: k for k, i in enumerate(cols)}
        rows, b = [], []
        for s in sorted((s for s in st if s.expression is not None), key=lambda s: s.variable):
            ex = s.expression
            sg = 1 if ex.sign == SignPy.Positive else -1
            value = -ex.bias
            row = [0] * len(cols)
            for j in ex.ids:
                row[pos[j]] = row[pos[j]] + sg
            if active and s is top:
                rows.append(row)
                b.append(value)
                continue
            e = 0
            for j in ex.ids:
                lo, hi = by[j].bounds
                e = e + _smin(sg * lo, sg * hi)
            row[pos[s.variable]] = row[pos[s.variable]] + (e - value)
            rows.append(row)
            b.append(e)
        val = [x for r in rows for x in r]
        return _Poly(_Mat(val, len(rows), len(cols)), b, [_Var(i, by[i].bounds) for i in cols])


def _open_reduced(self, active):
    """to_ge_polyhedron(active, reduced=True) as an OPEN contract: what the compiled reduction returns is not modelled (A-rs1
    covers reduced=False only) -- the answer is a matrix of fresh symbolic integers (two rows) over the statement indices in
    increasing order, a fresh symbolic right-hand side, and the statements' own bounds.  Only obligations about how the
    Python glue TRANSPORTS that answer (b | A, column variables looked up by index) can be stated over it."""
    import z3
    from .sym import SInt, fresh_name
    by = {s.variable: s for s in self.statements}
    cols = sorted(by)
    nrows = 2
    val = [SInt(z3.Int(fresh_name(f"rs.red.a{i}.{j}"))) for i in range(nrows) for j in cols]
    b = [SInt(z3.Int(fresh_name(f"rs.red.b{i}"))) for i in range(nrows)]
    p = _Poly(_Mat(val, nrows, len(cols)), b, [_Var(i, by[i].bounds) for i in cols])
    TheoryPy.last_reduced = (self, p, active)
    return p


TheoryPy._open_reduced = _open_reduced


def _theory_solve(self, objectives, reduced):
    """TheoryPy.solve as an OPEN contract: the compiled solver's answer is not modelled (nothing is assumed about it beyond its
    form) -- the call records what the Python glue handed over and returns, per objective, a solution that maps every
    statement index to a fresh symbolic integer, a symbolic objective value and a symbolic status code.  Obligations are
    stated on the recorded arguments and on how the glue reports those symbolic values back."""
    import z3
    from .sym import SInt, fresh_name
    self.solve_calls = getattr(self, "solve_calls", [])
    objs = [dict(o) for o in objectives]
    self.solve_calls.append((objs, reduced))
    TheoryPy.last_solve = (self, objs, reduced)
    out = []
    for q, _ in enumerate(objs):
        sol = {s.variable: SInt(z3.Int(fresh_name(f"rs.sol{q}.{s.variable}"))) for s in self.statements}
        out.append((sol, SInt(z3.Int(fresh_name(f"rs.ov{q}"))), SInt(z3.Int(fresh_name(f"rs.status{q}")))))
    self.solve_answers = out
    return out


TheoryPy.solve = _theory_solve


def py_optimized_bit_allocation_64(values):
    """ASSUMED contract A-rs2 of the compiled bit allocation, as an executable model (validated at run time against the
    extension on random inputs by rt.arrays:a_rs2_bit_allocation): reading the non-zero values left to right, an entry
    equal to its predecessor gets the predecessor's weight, any other entry gets 1 + the sum of all weights before it
    (so a new priority level outweighs everything below it together).  64-bit overflow is not modelled (S1)."""
    vals = list(values.tolist()) if hasattr(values, "tolist") else list(values)
    out = []
    total = 0
    for k, v in enumerate(vals):
        if k == 0:
            w = 1
        else:
            w = site(v == vals[k - 1], out[-1], total + 1)
        out.append(w)
        total = total + w
    return out
