"""pyvc.loops -- run-time side of the for-loop desugaring (pyvc.desugar).

`pyvc_for(iterable, body, carried, generic_ok)` is the loop.  Concrete data: exactly CPython's loop (same order, early
exits).  A sequence with an abstract segment (unbounded child list): the body runs ONCE on the generic element of the
segment, in local frames (one per decision path of the body), and its effects are turned into what the shimmed
map / filter / sum would have produced:

  * `lst.append(e)` on a list the body closes over      -> an abstract segment  { e(i) | i in segment, path condition }
  * `acc = acc + d` on a carried (nonlocal) integer       -> acc + SUM_i ite(path condition, d(i), 0)       (a fold)
  * `return c` / `break` / `raise` under a condition g    -> a (global) case split on  EXISTS i. g(i); the value must not
                                                             depend on the element, no two different exits may both be
                                                             possible, and the loop must have no other effects
Everything else (a carried variable updated non-additively, an early exit whose value depends on the element, effects
besides append/assignment) is refused with Unsupported: the obligation is then UNDECIDED, never a verdict.
Assumptions shared with the map/filter shims: S8 (re-iterable), bag abstraction (S5/S7), element-level purity of calls.
"""
import z3
from .sym import SInt, SBool, Unsupported, ctx, isi, lift, to_term, to_bterm, local_paths, LocalRaise, fresh_name
from .folds import Seq, Gen, GenToken, has_abstract, to_seq, merge, seq_sum, seq_len, _mentions


class Ret:
    __slots__ = ("value",)

    def __init__(self, value):
        self.value = value


class _Break:
    def __repr__(self):
        return "BREAK"


BREAK = _Break()
_UNBOUND = object()


def isret(r):
    return type(r) is Ret


def pyvc_iter(it):
    """iterable of a for-loop that is compiled as written: an abstract sequence cannot drive a native loop"""
    from .shim import OneShot
    if type(it) is OneShot:
        it = it.take()
    if isi(it, (Seq, GenToken)) and has_abstract(it) or (type(it) in (list, tuple) and has_abstract(it)):
        raise Unsupported("a for-loop outside the desugared subset iterates over an unbounded child list")
    return it


def pyvc_for(it, body, carried=(), generic_ok=True, stmt_calls=()):
    from .sym import have_ctx
    from .shim import OneShot
    if type(it) is OneShot:
        it = it.take()
    abstract = have_ctx() and ((isi(it, Seq) and it.abstract) or (type(it) in (list, tuple) and has_abstract(it)))
    if not abstract:
        for x in it:
            if type(x) is GenToken:
                raise Unsupported("loop over an iterator that yields an abstract segment")
            r = body(x)
            if r is not None:
                return r
        return None
    s = to_seq(it)
    for seg in s.segs:
        if not isi(seg, Gen):
            r = body(seg[1])
            if r is not None:
                return r
            continue
        if not generic_ok:
            raise Unsupported("loop over an unbounded child list whose body has effects other than append/assignment")
        r = _generic(seg, body, carried, stmt_calls)
        if r is not None:
            return r
    return None


def _cells(body):
    names = body.__code__.co_freevars
    return list(zip(names, body.__closure__ or ()))


def _get(cell):
    try:
        return cell.cell_contents
    except ValueError:
        return _UNBOUND


def _length(v):
    if type(v) is list:
        return len(v)
    if isi(v, Seq):
        return len(v.segs)
    return None


def _truncate(v, n):
    if type(v) is list:
        del v[n:]
    else:
        del v.segs[n:]


def _tail(v, n):
    if type(v) is list:
        return list(v[n:])
    out = []
    for s in v.segs[n:]:
        out.append(GenToken(s) if isi(s, Gen) else s[1])
    return out


def _ids(v, n):
    items = v[:n] if type(v) is list else v.segs[:n]
    return [id(x) for x in items]


def _exists(gen, cond):
    """EXISTS i in the segment with cond(i) -- decided by a (global) case split"""
    n = seq_len(Seq([Gen(gen.base, z3.And(gen.guard, cond), gen.elem)]))
    return bool(n >= 1)


def _generic(gen, body, carried, stmt_calls=()):
    c = ctx()
    cells = _cells(body)
    snap = [(name, cell, _get(cell)) for name, cell in cells]
    lists = [(name, cell, v, _length(v)) for name, cell, v in snap if _length(v) is not None]
    # call statements on plain names are admitted only if the name is an alias of a list's append
    known = {name: v for name, cell, v in snap}
    for fname in stmt_calls:
        f = known.get(fname, _UNBOUND)
        owner = getattr(f, "__self__", None)
        if f is _UNBOUND or getattr(f, "__name__", "") != "append" or _length(owner) is None:
            raise Unsupported(f"loop over an unbounded child list whose body calls `{fname}(...)` as a statement "
                              f"(only an alias of list.append is within the subset)")
        if not any(v is owner for _, _, v, _ in lists):
            lists.append((f"<{fname}.__self__>", None, owner, _length(owner)))
    acc0 = {}
    for name, cell, v in snap:
        if name in carried and isi(v, (int, SInt)) and not isi(v, bool):
            acc0[name] = SInt(z3.Int(fresh_name(f"acc0.{name}")))
        elif name in carried and isi(v, (bool, SBool)):
            # a flag: run the body on a fresh symbolic value so that every assignment is seen (even `flag = False` when the
            # flag is False) and updates like `flag = flag or c(x)` can be analysed
            acc0[name] = SBool(z3.Bool(fresh_name(f"flag0.{name}")))
    ivar = gen.base.ivar

    def reset():
        for name, cell, v in snap:
            if v is _UNBOUND:
                continue
            cell.cell_contents = acc0.get(name, v)
        for name, cell, v, n0 in lists:
            _truncate(v, n0)

    prefix = {name: _ids(v, n0) for name, cell, v, n0 in lists}

    def run():
        reset()
        r = body(gen.elem)
        after = {name: _get(cell) for name, cell, v in snap if name in carried}
        for name, cell, v, n0 in lists:
            if _length(v) < n0 or _ids(v, n0) != prefix[name]:
                raise Unsupported(f"loop body removes or replaces elements of the list `{name}` it closes over")
        emits = {name: _tail(v, n0) for name, cell, v, n0 in lists}
        return (r, after, emits)

    c.generic_depth += 1
    try:
        paths = local_paths(run, assumptions=[gen.base.inrange(), gen.guard])
    finally:
        c.generic_depth -= 1
        reset()
        for name, cell, v in snap:
            if v is not _UNBOUND:
                cell.cell_contents = v
    feasible = []
    for cond, val in paths:
        cond = z3.simplify(cond)
        if z3.is_false(cond):
            continue
        feasible.append((cond, val))
    if not feasible:
        raise Unsupported("loop body: no feasible local path")
    exits, normal = [], []
    for cond, val in feasible:
        if isi(val, LocalRaise):
            exits.append((cond, ("raise", val.exc)))
            continue
        r, after, emits = val
        if r is not None:
            exits.append((cond, ("exit", r)))
        else:
            normal.append((cond, after, emits))

    def effects(after, emits):
        if any(emits[k] for k in emits):
            return True
        for name, cell, v in snap:
            if name in carried and after.get(name, v) is not acc0.get(name, v):
                return True
        return False

    # a path condition that depends on the running value of a carried variable makes the loop order-dependent, except for
    # the flag idiom `flag = flag and/or c(x)` (analysed below): such a path may change that flag only
    syms = {name: a.t for name, a in acc0.items()}
    for cond, val in feasible:
        used = [name for name, t in syms.items() if _mentions(cond, t)]
        if not used:
            continue
        if isi(val, LocalRaise) or val[0] is not None:
            raise Unsupported("an early exit of the loop depends on the running value of a carried variable")
        _, after, emits = val
        if any(emits[k] for k in emits):
            raise Unsupported("what the loop appends depends on the running value of a carried variable (order-dependent)")
        for name, cell, v in snap:
            if name in carried and after.get(name, v) is not acc0.get(name, v):
                if not (len(used) == 1 and used[0] == name and type(acc0[name]) is SBool):
                    raise Unsupported(f"the update of `{name}` depends on the running value of a carried variable (not a fold)")
    if exits:
        if any(effects(val[1], val[2]) for cond, val in feasible if not isi(val, LocalRaise)):
            raise Unsupported("loop with an early exit that also accumulates (order-dependent under the bag abstraction)")
        taken = None
        for cond, ex in exits:
            if _exists(gen, cond):
                if taken is not None and not _same_exit(taken, ex):
                    raise Unsupported("two different early exits of one loop are both possible (order-dependent)")
                taken = taken or ex
        if taken is not None:
            kind, r = taken
            if kind == "raise":
                raise r
            if type(r) is Ret and not any(r.value is v0 for _, _, v0 in snap) and _depends(r.value, ivar):
                raise Unsupported("early exit of a loop with a value that depends on the element (order-dependent)")
            return r
        return None
    # ---- accumulators
    for name, cell, v in snap:
        if name not in carried:
            continue
        changed = [(cond, after[name]) for cond, after, _ in normal if after.get(name, v) is not acc0.get(name, v)]
        if not changed:
            cell.cell_contents = v
            continue
        if name not in acc0:
            raise Unsupported(f"loop-carried variable `{name}` that is neither an integer accumulator nor a boolean flag")
        if type(acc0[name]) is SBool:
            # boolean flag.  Each path's new value is a term T(flag, i); the loop is order-independent if every update is
            # monotone in the same direction:  up   (T[flag:=True] = True):  final = old or  EXISTS i. cond(i) and T[False](i)
            #                                  down (T[flag:=False] = False): final = old and FORALL i. cond(i) -> T[True](i)
            f0 = acc0[name].t
            # combined per-element update U(flag, i): the path taken may itself depend on the flag (`ok = ok and p(x)`)
            U = f0
            for cond, after, _ in reversed(normal):
                nv = after.get(name, v)
                if nv is acc0[name]:
                    continue
                if not isi(nv, (bool, SBool)):
                    raise Unsupported(f"loop-carried flag `{name}` leaves the booleans")
                U = z3.If(cond, to_bterm(nv), U)
            U1 = z3.simplify(z3.substitute(U, (f0, z3.BoolVal(True))))
            U0 = z3.simplify(z3.substitute(U, (f0, z3.BoolVal(False))))

            def valid(t):
                if z3.is_true(t):
                    return True
                sv = z3.Solver()
                sv.set("timeout", 3000)
                sv.add(gen.base.inrange(), gen.guard, z3.Not(t))
                return sv.check() == z3.unsat
            old = to_bterm(v)
            if valid(U1):
                ex = seq_len(Seq([Gen(gen.base, z3.And(gen.guard, U0), gen.elem)])) >= 1
                cell.cell_contents = lift(z3.Or(old, to_bterm(ex)))
            elif valid(z3.Not(U0)):
                ex = seq_len(Seq([Gen(gen.base, z3.And(gen.guard, z3.Not(U1)), gen.elem)])) >= 1
                cell.cell_contents = lift(z3.And(old, z3.Not(to_bterm(ex))))
            else:
                raise Unsupported(f"loop-carried flag `{name}` is updated non-monotonically (last writer wins: order-dependent)")
            continue
        a0 = acc0[name].t
        if any(_mentions(cond, a0) for cond, _, _ in normal):
            raise Unsupported(f"the path taken in the loop body depends on the running value of `{name}` (not a fold)")
        pairs = []
        for cond, after, _ in normal:
            nv = after[name]
            if nv is acc0[name]:
                pairs.append((cond, 0))
                continue
            if not isi(nv, (int, SInt)) or isi(nv, bool):
                raise Unsupported(f"loop-carried variable `{name}` leaves the integers")
            d = z3.simplify(to_term(nv) - a0)
            if _mentions(d, a0):
                raise Unsupported(f"loop-carried variable `{name}` is not updated additively")
            pairs.append((cond, lift(d)))
        delta = merge(pairs)
        total = seq_sum(Seq([Gen(gen.base, gen.guard, delta)]))
        cell.cell_contents = v + total
    # ---- appended elements
    for name, cell, v, n0 in lists:
        width = max(len(emits[name]) for _, _, emits in normal)
        for j in range(width):
            sel = [(cond, emits[name][j]) for cond, _, emits in normal if len(emits[name]) > j]
            guard = z3.simplify(z3.And(gen.guard, z3.Or(*[cnd for cnd, _ in sel])))
            if any(isi(e, GenToken) for _, e in sel):
                raise Unsupported("loop body appends a whole abstract segment per element (nested sequences)")
            elem = merge(sel) if len(sel) > 1 else sel[0][1]
            g = Gen(gen.base, guard, elem)
            if type(v) is list:
                v.append(GenToken(g))
            else:
                v._push(g)
    return None


def _same_exit(a, b):
    if a[0] != b[0]:
        return False
    if a[0] == "raise":
        return type(a[1]) is type(b[1])
    ra, rb = a[1], b[1]
    if ra is BREAK or rb is BREAK:
        return ra is rb
    va, vb = ra.value, rb.value
    if va is vb:
        return True
    if isi(va, (bool, int, str, type(None))) and isi(vb, (bool, int, str, type(None))) and type(va) is type(vb):
        return va == vb
    return False


def _depends(v, ivar):
    if isi(v, (SInt, SBool)):
        return _mentions(v.t, ivar)
    if hasattr(v, "t") and z3.is_expr(getattr(v, "t", None)):
        return _mentions(v.t, ivar)
    if isi(v, (tuple, list)):
        return any(_depends(e, ivar) for e in v)
    if v is None or isi(v, (bool, int, str, float)):
        return False
    # an arbitrary object built or selected inside the body may carry the element: refuse
    return True
