"""pyvc.nodes -- abstract proposition nodes, abstract interpretations, and callee contracts.

An `AbsNode(family, idx)` stands for "the idx-th element of an abstract family of nodes" (e.g. child i of
the receiver).  Everything known about it is an uninterpreted function of the index: id(i), lo(i), hi(i),
atom(i), plus the *spec symbols* introduced by the spec functions of the contracts (truth value under an
interpretation, interval value, safety, ...).  Calling a method on an abstract compound node does not execute
any code: it returns a new abstract node (of a derived family) and installs the callee's postconditions,
instantiated at i, as pointwise facts -- the induction hypothesis of the modular proof.  If the node is an
atom the *real* `puan.variable` code runs on a real instance with symbolic fields.
"""
import z3
from .sym import (isi, SInt, SBool, SId, Unsupported, ctx, lift, to_term, to_bterm, local_paths, fresh_name, site)
from .folds import Base, Gen, Seq, merge

I = z3.IntSort()
Bo = z3.BoolSort()


class Family:
    def __init__(self, name, base=None, kind="node"):
        self.name = name
        self.base = base
        self.kind = kind  # 'node' (atom or compound), 'compound', 'atom'
        self.distinct_ids = False

    def fn(self, attr, sort=I):
        return z3.Function(f"{attr}.{self.name}", I, sort)

    def at(self, idx):
        return AbsNode(self, idx)


class AbsNode:
    _pyvc_proxy = True

    def __init__(self, fam, idx):
        d = object.__getattribute__(self, "__dict__")
        d["_fam"] = fam
        d["_idx"] = idx
        d["_cache"] = {}

    # -- symbols ------------------------------------------------------------------------------
    def sym(self, attr, sort=I):
        fam, idx = self._fam, self._idx
        t = fam.fn(attr, sort)(idx)
        return lift(t) if sort == Bo else SInt(t)

    def sym_bool(self, attr):
        return self.sym(attr, Bo)

    def atom_truth(self):
        return lift(self.atom_term())

    def is_atom(self):
        k = self._fam.kind
        if k == "atom":
            return True
        if k == "compound":
            return False
        return ctx().branch(self._fam.fn("atom", Bo)(self._idx))

    def atom_term(self):
        k = self._fam.kind
        if k == "atom":
            return z3.BoolVal(True)
        if k == "compound":
            return z3.BoolVal(False)
        return self._fam.fn("atom", Bo)(self._idx)

    def _var(self):
        """real puan.variable instance standing for this node's own variable"""
        c = self._cache
        if "var" not in c:
            repo = ctx().repo
            v = object.__new__(repo.puan.variable)
            v.__dict__["id"] = SId(self._fam.fn("id")(self._idx))
            b = object.__new__(repo.puan.Bounds)
            b.__dict__["lower"] = self.sym("lo")
            b.__dict__["upper"] = self.sym("hi")
            v.__dict__["bounds"] = b
            c["var"] = v
        return c["var"]

    @property
    def __class__(self):
        repo = ctx().repo
        return repo.puan.variable if self.is_atom() else repo.plog.AtLeast

    def __getattr__(self, name):
        if name.startswith("__") and name.endswith("__"):
            raise AttributeError(name)
        if self.is_atom():
            return getattr(self._var(), name)
        if name in ("id",):
            return self._var().id
        if name == "bounds":
            return self._var().bounds
        if name == "variable":
            return self._var()
        if name == "generated_id":
            return self.sym("generated_id", Bo)
        if name == "prio":
            # abstract nodes carry no configurator tag unless the harness's family says they may (optional attribute:
            # presence is the symbol has_prio.F(i), the value prio.F(i))
            if getattr(self._fam, "optional_prio", False) and self.sym_bool("has_prio"):
                return self.sym("prio")
            raise AttributeError(name)
        con = ctx().contracts.get(name)
        if con is not None:
            return lambda *a, **k: con.call(self, *a, **k)
        raise Unsupported(f"attribute .{name} of an abstract compound node (no contract registered)")

    def __setattr__(self, name, value):
        c = ctx()
        c.stores.append(("abs", self, name))
        raise Unsupported(f"store to attribute .{name} of an abstract node")

    def __lt__(self, other):
        return self.id < other.id

    def __eq__(self, other):
        if other is self:
            return True
        if self.is_atom():
            return self._var() == other
        # AtLeast.__eq__ (type, id, equation bounds, value): opaque, but it implies equal ids
        oid = getattr(other, "id", None)
        if type(oid) is not SId:
            return False
        import hashlib
        tag = hashlib.md5(oid.t.sexpr().encode()).hexdigest()[:8]
        t = z3.Function(f"eq.{self._fam.name}|{tag}", I, Bo)(self._idx)
        ctx().axiom(z3.Implies(t, self._var().id.t == oid.t))
        return lift(t)

    def __hash__(self):
        raise Unsupported("native hash of an abstract node")

    def pyhash(self):
        """model of hash(node) for the shims: the real variable.__hash__ on atoms, opaque on compounds"""
        if self.is_atom():
            from .shim import hash_
            return hash_(self._var())
        return self.sym("pyhash")

    def __repr__(self):
        return f"<{self._fam.name}[{self._idx}]>"

    __str__ = __repr__

    def __format__(self, spec):
        return repr(self)


def is_abs(x):
    return type(x) is AbsNode


# ------------------------------------------------------------------------------------------------
# abstract interpretation / assumption dictionaries
# ------------------------------------------------------------------------------------------------

class AbsEnv:
    """An abstract dict id -> value where a value has one of the three accepted forms.

    forms: subset of {'int','tuple','bounds'} the harness allows.  `total_on` may restrict.
    Function symbols: has.<name>(id), form.<name>(id) in {0,1,2}, lo.<name>(id), hi.<name>(id).
    For form int lo == hi.
    """
    _pyvc_proxy = True

    def __init__(self, name, forms=("int",), nonempty_intervals=True):
        self.name = name
        self.forms = tuple(forms)
        self.f_has = z3.Function(f"has.{name}", I, Bo)
        self.f_form = z3.Function(f"form.{name}", I, I)
        self.f_lo = z3.Function(f"lo.{name}", I, I)
        self.f_hi = z3.Function(f"hi.{name}", I, I)

    @property
    def __class__(self):
        return dict

    def _key(self, key):
        from .sym import intern_id
        if type(key) is SId:
            return key.t
        if type(key) in (str, int):
            return intern_id(key).t
        raise Unsupported(f"abstract interpretation queried with a non-id key {type(key).__name__}")

    def has(self, key):
        k = self._key(key)
        self._wf(k)
        return lift(self.f_has(k))

    def lo(self, key):
        k = self._key(key)
        self._wf(k)
        return SInt(self.f_lo(k))

    def hi(self, key):
        k = self._key(key)
        self._wf(k)
        return SInt(self.f_hi(k))

    def _wf(self, k):
        c = ctx()
        c.axiom(self.f_lo(k) <= self.f_hi(k))
        codes = {"int": 0, "tuple": 1, "bounds": 2}
        c.axiom(z3.Or(*[self.f_form(k) == codes[f] for f in self.forms]))
        c.axiom(z3.Implies(self.f_form(k) == 0, self.f_lo(k) == self.f_hi(k)))

    def __contains__(self, key):
        return self.has(key)

    def _value(self, k):
        c = ctx()
        self._wf(k)
        form = self.f_form(k)
        if c.branch(form == 0):
            return SInt(self.f_lo(k))
        if c.branch(form == 1):
            return (SInt(self.f_lo(k)), SInt(self.f_hi(k)))
        repo = c.repo
        b = object.__new__(repo.puan.Bounds)
        b.__dict__["lower"] = SInt(self.f_lo(k))
        b.__dict__["upper"] = SInt(self.f_hi(k))
        return b

    def get(self, key, default=None):
        k = self._key(key)
        if ctx().branch(self.f_has(k)):
            return self._value(k)
        return default

    def __getitem__(self, key):
        k = self._key(key)
        if ctx().branch(self.f_has(k)):
            return self._value(k)
        raise KeyError(key)

    def __setitem__(self, key, value):
        ctx().stores.append(("env", self, key))
        raise Unsupported("store into an abstract interpretation")

    def __iter__(self):
        raise Unsupported("iteration over an abstract interpretation")

    def __len__(self):
        raise Unsupported("len of an abstract interpretation")

    def __repr__(self):
        return f"<env {self.name}>"


class UnionEnv(AbsEnv):
    """spec-level union a | b (b wins) of two abstract interpretations, as a derived AbsEnv"""

    def __init__(self, a, b):
        AbsEnv.__init__(self, f"({a.name}|{b.name})", forms=tuple(sorted(set(a.forms) | set(b.forms))))
        self.a, self.b = a, b

    def link(self, k):
        """facts tying this env's symbols at key k to a and b"""
        a, b = self.a, self.b
        return z3.And(
            self.f_has(k) == z3.Or(a.f_has(k), b.f_has(k)),
            self.f_lo(k) == z3.If(b.f_has(k), b.f_lo(k), a.f_lo(k)),
            self.f_hi(k) == z3.If(b.f_has(k), b.f_hi(k), a.f_hi(k)),
            self.f_form(k) == z3.If(b.f_has(k), b.f_form(k), a.f_form(k)))

    def _wf(self, k):
        ctx().axiom(self.link(k))
        self.a._wf(k)
        self.b._wf(k)


# ------------------------------------------------------------------------------------------------
# callee contracts (induction hypothesis on abstract nodes)
# ------------------------------------------------------------------------------------------------

class Contract:
    """contract of a method as seen by callers on *abstract compound* nodes

    result_kind: 'compound' | 'node' | 'value' (plain data described only by ensures)
    ensures: list of callables (self, result, *args) -> truth value (evaluated symbolically, generic in i)
    """

    def __init__(self, name, result_kind, ensures, arg_key=None, result_factory=None):
        self.name = name
        self.result_kind = result_kind
        self.ensures = ensures
        self.arg_key = arg_key or (lambda *a, **k: tuple(getattr(x, "name", repr(x)) for x in a))
        self.result_factory = result_factory

    def call(self, node, *args, **kwargs):
        c = ctx()
        key = (node._fam.name, self.name, self.arg_key(*args, **kwargs))
        memo = c.__dict__.setdefault("contract_results", {})
        if key in memo:
            fam = memo[key]
            return fam.at(node._idx) if isi(fam, Family) else fam(node)
        if self.result_factory is not None:
            res = self.result_factory(node, *args, **kwargs)
            memo[key] = lambda n, _r=res: _r
            return res
        fam = Family(f"{self.name}({node._fam.name}{''.join(',' + str(k) for k in key[2])})",
                     node._fam.base, self.result_kind)
        memo[key] = fam
        c.families[fam.name] = fam
        res = fam.at(node._idx)
        # induction hypothesis: every ensures clause, instantiated at this node
        ivar = node._fam.base.ivar if node._fam.base is not None else None
        guard = z3.Not(node.atom_term())
        for ens in self.ensures:
            generic = fam.at(ivar) if ivar is not None else res
            gnode = node._fam.at(ivar) if ivar is not None else node
            assumptions = [guard if ivar is None else z3.substitute(guard, (node._idx, ivar))]
            if ivar is not None:
                assumptions.append(node._fam.base.inrange())
            paths = local_paths(lambda: ens(gnode, generic, *args, **kwargs), assumptions=assumptions)
            t = to_bterm(merge(paths))
            fact = z3.Implies(z3.And(*assumptions), t)
            if ivar is not None:
                c.add_pointwise(ivar, fact)
            else:
                c.assume_global(fact)
        return res


# ------------------------------------------------------------------------------------------------
# helpers for spec functions: usable on real objects (native, rt engine) and on proxies (pyvc)
# ------------------------------------------------------------------------------------------------

def fsum(xs, f):
    from .folds import seq_sum, has_abstract
    if isi(xs, Seq) or has_abstract(xs):
        return seq_sum(xs, f)
    total = 0
    for x in xs:
        total = total + f(x)
    return total


def fall(xs, f):
    from .folds import seq_all, has_abstract, to_seq
    if isi(xs, Seq) or has_abstract(xs):
        return seq_all(to_seq(xs), f)
    acc = True
    for x in xs:
        acc = band(acc, f(x))
    return acc


def fany(xs, f):
    from .folds import seq_any, has_abstract, to_seq
    if isi(xs, Seq) or has_abstract(xs):
        return seq_any(to_seq(xs), f)
    acc = False
    for x in xs:
        acc = bor(acc, f(x))
    return acc


def ite(c, a, b):
    if type(c) is bool:
        return a if c else b
    if type(c) is SBool:
        return site(c, a, b)
    return a if c else b


def band(*xs):
    if all(type(x) is bool for x in xs):
        return all(xs)
    from .sym import sand
    return sand(*xs)


def bor(*xs):
    if all(type(x) is bool for x in xs):
        return any(xs)
    from .sym import sor
    return sor(*xs)


def bnot(x):
    if type(x) is bool:
        return not x
    from .sym import snot
    return snot(x)


def implies(a, b):
    return bor(bnot(a), b)


def beq(a, b):
    """equality as a truth value, symbolic or concrete"""
    r = (a == b)
    return r
