"""pyvc.models -- assumed contracts of library helpers that are outside the executor's reach.

Each model is listed in the evidence as an *assumed contract* and is validated against the real
implementation by the encoding cross-check (rt engine), never proved.
"""
from .folds import Seq, seq_map
from .sym import Unsupported, isi


def filter_map_concat_model(mazmod):
    """maz.filter_map_concat(p, t, f)(xs)[k] = t(xs[k]) if p(xs[k]) else f(xs[k])   (order kept).

    On concrete lists the real maz implementation runs; the model is used for abstract sequences only.
    """
    real_cls = mazmod.filter_map_concat

    class filter_map_concat:
        def __init__(self, filter_predicate, tmap_function=lambda x: x, fmap_function=lambda x: x):
            self.filter_predicate = filter_predicate
            self.tmap_function = tmap_function
            self.fmap_function = fmap_function
            self._real = real_cls(filter_predicate, tmap_function, fmap_function)

        def __call__(self, objects):
            from .shim import _materialise
            m = _materialise(objects)
            if not isi(m, Seq):
                return self._real(m)
            p, t, f = self.filter_predicate, self.tmap_function, self.fmap_function
            return seq_map(lambda x: t(x) if p(x) else f(x), m)

    return filter_map_concat


def id_generator_model(orig):
    """AtLeast._id_generator: 'VAR' + sha256(ids of the children, value, sign).

    Assumed contract for symbolic arguments: the result is an id that is a *function* of (bag of child ids,
    value, sign) -- equal arguments give equal ids; nothing else is assumed (in particular not injectivity:
    that would be SHA-256 collision freedom, assumption A-sha).  Concrete arguments run the real code.
    """
    import z3
    from .sym import SId, SInt, is_sym, to_term, have_ctx
    from .folds import Seq, has_abstract, seq_sum
    from .shim import _obj_symbolic

    def _id_generator(propositions, value, sign, prefix="VAR"):
        if not have_ctx():
            return orig(propositions, value, sign, prefix)
        symbolic = is_sym(value) or is_sym(sign) or isi(propositions, Seq) or has_abstract(propositions)
        if not symbolic:
            propositions = list(propositions)
            symbolic = any(getattr(type(p), "_pyvc_proxy", False) or is_sym(p.id) for p in propositions)
        if not symbolic:
            return orig(propositions, value, sign, prefix)
        idh = z3.Function("idmix", z3.IntSort(), z3.IntSort())

        def key(p):
            pid = p.id
            return SInt(idh(pid.t)) if type(pid) is SId else SInt(idh(to_term(_intern(pid))))
        summary = seq_sum(propositions, key)
        g = z3.Function("genid", z3.IntSort(), z3.IntSort(), z3.IntSort(), z3.IntSort())
        s = 0 if sign is None else sign
        out = g(to_term(summary), to_term(value), to_term(s))
        from .sym import note_generated_id
        note_generated_id(out)
        return SId(out)

    def _intern(x):
        from .sym import intern_id
        return intern_id(x)
    return _id_generator


class AbsJson:
    """the JSON record of an abstract compound node (result of the `to_json` contract); only `from_json` understands it"""
    _pyvc_proxy = True

    def __init__(self, node):
        self.node = node

    def __repr__(self):
        return f"<json of {self.node!r}>"


def from_json_model(orig):
    """plog.from_json on the record of an abstract node: the `from_json` contract (round-trip induction hypothesis);
    the real function otherwise"""
    from .sym import have_ctx, ctx
    import functools

    @functools.wraps(orig)
    def from_json(data, *a, **k):
        from .folds import unwrap
        if have_ctx():
            data = unwrap(data)
            if type(data) is AbsJson:
                con = ctx().contracts.get("from_json")
                if con is None:
                    from .sym import Unsupported
                    raise Unsupported("from_json of an abstract record without a from_json contract")
                return con.call(data.node)
        return orig(data, *a, **k)
    return from_json
