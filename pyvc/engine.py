"""pyvc.engine -- per-function verification: enumerate paths of the real code, collect and discharge obligations.

Verdict of one obligation:
  PROVED     z3 (or cvc5 on unknown) reports unsat for  path condition /\\ derived facts /\\ not goal
  REFUTED    the *exact* bounded semantics (child count fixed to 1..k, folds unrolled, quantifier free) has a model
             falsifying the goal.  A REFUTED obligation becomes a VIOLATION only through check.py (replay on real code,
             or one of the input-free obligation kinds).
  UNDECIDED  neither.
"""
import itertools
import subprocess
import tempfile
import time
import os
import z3

from . import sym
from .sym import Ctx, Unsupported, explore, to_bterm, run_in
from .folds import SigmaTheory, Base


class FrameViolation:
    def __init__(self, site):
        self.site = site


class NotRecognised:
    """value of a source-pattern obligation whose pattern does not match the text under check: no obligation can be
    generated (out of reach), which is different from a recognised structure that is wrong (FrameViolation)"""
    def __init__(self, reason):
        self.reason = reason


class Ob:
    def __init__(self, name, status, **kw):
        self.name = name
        self.status = status  # PROVED | REFUTED | UNDECIDED | UNSUPPORTED
        self.__dict__.update(kw)

    def to_json(self):
        d = {k: v for k, v in self.__dict__.items() if k not in ("model", "ctx")}
        return d


def _solve(formulas, timeout_ms):
    s = z3.Solver()
    s.set("timeout", timeout_ms)
    s.add(*formulas)
    t0 = time.time()
    r = s.check()
    return r, s, time.time() - t0


def cvc5_check(formulas, timeout_s=20):
    """second opinion on z3's `unknown`: dump SMT-LIB and run the cvc5 binary"""
    s = z3.Solver()
    s.add(*formulas)
    text = "(set-logic ALL)\n" + s.to_smt2()
    with tempfile.NamedTemporaryFile("w", suffix=".smt2", delete=False) as f:
        f.write(text)
        path = f.name
    try:
        out = subprocess.run(["/usr/bin/cvc5", f"--tlimit={timeout_s * 1000}", path], capture_output=True, text=True,
                             timeout=timeout_s + 5)
        ans = out.stdout.strip().split("\n")[0] if out.stdout.strip() else "unknown"
    except Exception:
        ans = "unknown"
    finally:
        os.unlink(path)
    return ans


def prove(c, goal, timeout_ms=10000, use_cvc5=True):
    goal = to_bterm(goal)
    fs = c.closure([z3.Not(goal)])
    r, s, dt = _solve(fs, timeout_ms)
    if r == z3.unsat:
        return "PROVED", "z3", dt
    if r == z3.unknown and use_cvc5:
        a = cvc5_check(fs, max(5, timeout_ms // 1000))
        if a == "unsat":
            return "PROVED", "cvc5", dt
        # verdicts must not flip under load: retry with other seeds and a larger budget before giving up
        for seed in (7, 23):
            s2 = z3.Solver()
            s2.set("timeout", timeout_ms * 3)
            s2.set("random_seed", seed)
            s2.add(*fs)
            t0 = time.time()
            r2 = s2.check()
            dt += time.time() - t0
            if r2 == z3.unsat:
                return "PROVED", "z3(retry)", dt
            if r2 == z3.sat:
                r = r2
                break
        if r == z3.unknown:
            # last resort for a machine whose cores are all busy (wall-clock budgets shrink under load): both solvers once
            # more with a budget an order of magnitude above what the obligation needs on an idle machine
            a = cvc5_check(fs, max(60, 6 * timeout_ms // 1000))
            if a == "unsat":
                return "PROVED", "cvc5(retry)", dt
            s3 = z3.Solver()
            s3.set("timeout", timeout_ms * 12)
            s3.set("random_seed", 101)
            s3.add(*fs)
            t0 = time.time()
            r3 = s3.check()
            dt += time.time() - t0
            if r3 == z3.unsat:
                return "PROVED", "z3(retry)", dt
            if r3 == z3.sat:
                r = r3
    return "NOTPROVED", ("z3:" + str(r)), dt


def unrolled(c, k, extra=()):
    """exact bounded semantics: every base has exactly k elements"""
    fs = list(c.pc()) + list(extra)
    folds = getattr(c, "folds", {})
    for b in c.bases.values():
        fs.append(b.n == k)
    for key, (s_, base, term) in folds.items():
        fs.append(s_ == z3.Sum([z3.substitute(term, (base.ivar, z3.IntVal(j))) for j in range(k)]) if k else s_ == 0)
    for ivar, phi in c.pointwise:
        for j in range(k):
            fs.append(z3.substitute(phi, (ivar, z3.IntVal(j))))
        base = c.bases.get(ivar.get_id())
        if base is not None:
            for t in c.index_terms.get(base.name, []):
                fs.append(z3.Implies(base.inrange(t), z3.substitute(phi, (ivar, t))))
    return fs


def refute(c, goal, kmax=3, timeout_ms=10000, hints=()):
    """exact bounded semantics; counter-models satisfying the harness's `hints` (realistic shapes that the concretiser
    can build, e.g. equal ids rather than a string-hash collision) are preferred"""
    goal = to_bterm(goal)
    for extra in ([list(hints)] if hints else []) + [[]]:
        # non-empty child lists first: the constructors document "propositions list cannot be empty", so a counter-model
        # with no child at all is the least informative one (kept as a last resort: the proofs themselves hold for n >= 0)
        for k in list(range(1, kmax + 1)) + [0]:
            fs = unrolled(c, k, [z3.Not(goal)] + extra)
            r, s, dt = _solve(fs, timeout_ms)
            if r == z3.sat:
                return k, s.model()
    return None, None


def _shallow(v):
    """identity-level description of an attribute value (containers: identity of their elements)"""
    from .folds import Seq
    if type(v) is Seq:
        return ("seq", id(v), tuple(id(x) for x in v.segs))
    if type(v) is list:
        return ("list", id(v), tuple(id(x) for x in v))
    if type(v) is dict:
        return ("dict", id(v), tuple((k if isinstance(k, (str, int)) else id(k), id(x)) for k, x in v.items()))
    if type(v) is set:
        return ("set", id(v), len(v))
    return ("obj", id(v))


def heap_snapshot(c, roots):
    """snapshot of every pre-existing object reachable from `roots` (through __dict__, lists, Seq elements) and of
    the mutable module-level containers of the loaded repository modules"""
    from .folds import Seq, Gen
    snap = {}
    seen = set()
    stack = [(n, o) for n, o in roots]
    while stack:
        name, o = stack.pop()
        if id(o) in seen or o is None or type(o) in (int, str, bool, float, tuple):
            continue
        seen.add(id(o))
        d = getattr(o, "__dict__", None)
        if type(o).__name__ in ("AbsNode", "AbsEnv", "UnionEnv", "Family", "Base", "SInt", "SBool", "SId"):
            continue
        if type(o) is Seq:
            for k, seg in enumerate(o.segs):
                e = seg.elem if type(seg) is Gen else seg[1]
                stack.append((f"{name}[{k}]", e))
            continue
        if type(o) is list:
            for k, e in enumerate(o):
                stack.append((f"{name}[{k}]", e))
            continue
        if isinstance(d, dict) and not isinstance(o, type) and type(o).__module__.startswith("puan"):
            snap[id(o)] = (name, o, {k: _shallow(v) for k, v in d.items()})
            for k, v in d.items():
                stack.append((f"{name}.{k}", v))
    mods = {("__loaded__", ""): tuple(sorted(c.repo.mods))}
    for mname, mod in list(c.repo.mods.items()):
        for k, v in mod.__dict__.items():
            if type(v) in (dict, list, set) and not k.startswith("__"):
                mods[(mname, k)] = _shallow(v)
            elif isinstance(v, type) and v.__module__ == mname:
                for ck, cv in v.__dict__.items():
                    if type(cv) in (dict, list, set):
                        mods[(mname, f"{k}.{ck}")] = _shallow(cv)
                    else:
                        _default_containers(mods, mname, f"{k}.{ck}", cv)
            else:
                _default_containers(mods, mname, k, v)
    return snap, mods


def _default_containers(mods, mname, qual, fn):
    """mutable default arguments of the module's functions / methods: they live as long as the module does"""
    fn = getattr(fn, "__func__", fn)
    if type(fn).__name__ != "function" or getattr(fn, "__module__", None) != mname:
        return
    for i, dv in enumerate(fn.__defaults__ or ()):
        if type(dv) in (dict, list, set):
            mods[(mname, f"{qual}.__defaults__[{i}]")] = _shallow(dv)
    for dk, dv in (fn.__kwdefaults__ or {}).items():
        if type(dv) in (dict, list, set):
            mods[(mname, f"{qual}.__kwdefaults__[{dk}]")] = _shallow(dv)


def heap_diff(c, snapshot, memo_fields=()):
    snap, mods = snapshot
    sites = []
    for oid, (name, o, before) in snap.items():
        now = {k: _shallow(v) for k, v in o.__dict__.items()}
        for k in set(before) | set(now):
            if k in memo_fields:
                continue
            if before.get(k) != now.get(k):
                sites.append(f"{type(o).__name__}:{name}.{k}")
    _, mods_now = heap_snapshot(c, [])
    for key, before in mods.items():
        if key[0] == "__loaded__":
            continue
        if mods_now.get(key) != before:
            sites.append(f"module:{key[0]}.{key[1]}")
    loaded_before = mods.get(("__loaded__", ""), ())
    for key in mods_now:
        # a container that did not exist before -- unless its module was only loaded during the call (lazy import)
        if key not in mods and key[0] in loaded_before:
            sites.append(f"module:{key[0]}.{key[1]} (new)")
    for s in getattr(c, "stores", []):
        if s[0] == "seq" and any(s[1] is v for _, _o, _b in snap.values() for v in _o.__dict__.values()):
            sites.append(f"seq-mutation:{s[2]}")
    return sorted(set(sites))


class Harness:
    """Base class: one function of the repository under contract."""
    frame = False          # check `modifies nothing pre-existing` (C09)
    memo_fields = ()       # declared per-instance memo fields (DESIGN 3.4)

    def snapshot(self, c, st):
        if not self.frame:
            return None
        roots = [(k, v) for k, v in st.items()] if isinstance(st, dict) else [("st", st)]
        return heap_snapshot(c, roots)

    def frame_check(self, c, st, snap, res):
        sites = heap_diff(c, snap, self.memo_fields)
        if not sites:
            return [("frame", True)]
        return [(f"frame[{self.function}:{s.split(':', 1)[1]}]", FrameViolation(s)) for s in sites]

    name = "?"
    function = "?"       # qualified name in the repository
    module = "puan.logic.plog"
    expected_raises = ()

    def cases(self):
        return [{}]

    def contracts(self, repo):
        return {}

    def setup(self, c, case):
        raise NotImplementedError

    def run(self, c, st):
        raise NotImplementedError

    def ensures(self, c, st, result):
        """-> list of (name, truth value)"""
        return []

    def ensures_raise(self, c, st, exc):
        """obligations when the function raises: default = must not happen"""
        return [("no-raise[%s]" % type(exc).__name__, False)]

    def frame_obligations(self, c, st, result):
        return []

    def concretise(self, case, k, model, c, st):
        return None


def verify(h, repo, tier="quick", log=None):
    """returns list[Ob] plus stats"""
    timeout = 10000 if tier == "quick" else 60000
    kmax = 3 if tier == "quick" else 4
    theory = SigmaTheory()
    obs = []
    stats = {"paths": 0, "cases": 0, "solver_calls": 0, "unsupported": 0}
    for case in h.cases():
        stats["cases"] += 1
        cname = ",".join(f"{k}={v}" for k, v in case.items())

        def make_ctx():
            sym._fresh_counter = itertools.count()
            c = Ctx(theory=theory, budget_ms=timeout)
            c.repo = repo
            c.contracts = h.contracts(repo)
            c.state_case = case
            return c

        def run(c):
            st = h.setup(c, case)
            c.state = st
            snap = h.snapshot(c, st) if hasattr(h, "snapshot") else None
            try:
                res = h.run(c, st)
            except (Unsupported, sym.PathAbort):
                raise
            except Exception as e:
                if type(e).__name__ in ("TypeError", "AttributeError", "NotImplementedError", "RecursionError") \
                        and not isinstance(e, h.expected_raises):
                    raise Unsupported(f"{type(e).__name__} under symbolic execution: {e}")
                goals = list(h.ensures_raise(c, st, e))
                if snap is not None:
                    goals += list(h.frame_check(c, st, snap, None))
                return ("raise", e, goals, st)
            goals = list(h.ensures(c, st, res)) if not getattr(h, "frame_only", False) else []
            if snap is not None:
                goals += list(h.frame_check(c, st, snap, res))
            return ("ok", res, goals, st)

        try:
            case_budget = getattr(h, 'budget_s', 240) if tier == 'quick' else getattr(h, 'budget_s_thorough', 1500)
            t_case = time.time()
            for pidx, (c, out) in enumerate(explore(run, make_ctx, budget_s=case_budget)):
                stats["paths"] += 1
                stats["solver_calls"] += c.solver_calls
                pname = f"{h.name}[{cname}]/path{pidx}"
                if out[0] == "unsupported":
                    stats["unsupported"] += 1
                    obs.append(Ob(pname, "UNSUPPORTED", reason=str(out[1]), case=case))
                    continue
                if out[0] == "raise":
                    # exception escaped setup/ensures evaluation itself
                    obs.append(Ob(pname, "UNSUPPORTED", reason=f"escaped: {type(out[1]).__name__}: {out[1]}", case=case))
                    continue
                kind, res, goals, st = out[1]
                # canary: `False` must NOT be provable on this path (contradictory requires / infeasible path)
                cs, _, _ = prove(c, z3.BoolVal(False), timeout, use_cvc5=False)
                stats["canaries"] = stats.get("canaries", 0) + 1
                if cs == "PROVED":
                    # is it the contract's assumptions themselves (vacuous contract: an error), or only this path's
                    # decisions (an infeasible path that the branch-time query left undecided: it contributes nothing)?
                    saved = [f.pc for f in c.frames]
                    for f in c.frames:
                        f.pc = []
                    try:
                        only_assumptions, _, _ = prove(c, z3.BoolVal(False), timeout, use_cvc5=False)
                    finally:
                        for f, pc_ in zip(c.frames, saved):
                            f.pc = pc_
                    if only_assumptions == "PROVED":
                        obs.append(Ob(pname + "/canary", "VACUOUS", reason="the contract's assumptions are unsatisfiable", case=case))
                    else:
                        stats["infeasible_paths"] = stats.get("infeasible_paths", 0) + 1
                    continue
                if not goals:
                    obs.append(Ob(pname + "/feasible", "PROVED", backend="path", time=0.0, case=case))
                # encoding cross-check: sampled models of this path (exact bounded semantics) are concretised and the
                # contract predicates are evaluated natively on the real code -- whatever was proved must hold there
                nx = getattr(h, "xcheck", 0) if tier == "quick" else getattr(h, "xcheck", 0) * 3
                if nx and kind == "ok" and hasattr(h, "replay"):
                    for sample in range(nx):
                        kx = 1 + sample % 2
                        sx = z3.Solver()
                        sx.set("timeout", 5000)
                        sx.set("random_seed", 17 * sample + 3)
                        sx.set("phase_selection", 5)
                        sx.add(*unrolled(c, kx))
                        if sx.check() != z3.sat:
                            continue
                        try:
                            wx = h.concretise(case, kx, sx.model(), c, st)
                            if wx is None:
                                break
                            rx = h.replay(wx)
                        except Exception as e:
                            stats["xcheck_errors"] = stats.get("xcheck_errors", 0) + 1
                            continue
                        stats["xchecks"] = stats.get("xchecks", 0) + 1
                        if rx.get("violated"):
                            obs.append(Ob(pname + "/xcheck", "XCHECK", reason=f"native replay of a sampled model of this path "
                                          f"violates {rx['violated']}", witness=wx, case=case))
                for gname, goal in goals:
                    oname = f"{pname}/{gname}"
                    if time.time() - t_case > 1.5 * case_budget:
                        raise Unsupported(f"time budget of this case used up inside path {pidx} (after {len(obs)} obligations)")
                    if isinstance(goal, NotRecognised):
                        stats["unsupported"] += 1
                        obs.append(Ob(oname, "UNSUPPORTED", reason=goal.reason, case=case))
                        continue
                    if isinstance(goal, FrameViolation):
                        obs.append(Ob(oname, "REFUTED", backend="frame-snapshot" if gname.startswith("frame") else "ast",
                                      kind="frame" if gname.startswith("frame") else ("cache-key" if gname.startswith("cache-key") else "alignment"),
                                      case=case, witness=None,
                                      model={"store": goal.site, "path_decisions": str(c.frames[0].decisions[: c.frames[0].pos])},
                                      outcome=kind))
                        continue
                    if gname == "frame" and goal is True:
                        obs.append(Ob(oname, "PROVED", backend="frame-snapshot", time=0.0, case=case, outcome=kind))
                        continue
                    if gname.startswith("cache-key") and goal is True:
                        obs.append(Ob(oname, "PROVED", backend="ast-scan", time=0.0, case=case, outcome=kind))
                        continue
                    if gname.startswith("align.") and goal is True:
                        obs.append(Ob(oname, "PROVED", backend="ast-alignment", time=0.0, case=case, outcome=kind))
                        continue
                    try:
                        gt = to_bterm(goal)
                    except Unsupported as e:
                        obs.append(Ob(oname, "UNSUPPORTED", reason=str(e), case=case))
                        continue
                    status, backend, dt = prove(c, gt, timeout)
                    if status == "PROVED":
                        obs.append(Ob(oname, "PROVED", backend=backend, time=round(dt, 4), case=case,
                                      outcome=kind))
                        if gname.startswith("lemma:"):
                            # a proved lemma of this path may be used by the obligations that follow it
                            c.assume(gt)
                        continue
                    hints = [to_bterm(x) for x in h.refute_hints(c, st)] if hasattr(h, "refute_hints") else []
                    k, model = refute(c, gt, kmax, timeout, hints)
                    if model is not None:
                        witness = None
                        try:
                            witness = h.concretise(case, k, model, c, st)
                        except Exception as e:  # concretiser trouble must not hide the refutation
                            witness = {"concretise_error": f"{type(e).__name__}: {e}"}
                        obs.append(Ob(oname, "REFUTED", backend="z3-bounded", n=k, case=case, witness=witness,
                                      model=_model_summary(model), outcome=kind,
                                      decisions=list(c.frames[0].decisions[: c.frames[0].pos])))
                    else:
                        obs.append(Ob(oname, "UNDECIDED", reason=backend, case=case, outcome=kind))
        except Unsupported as e:
            stats["unsupported"] += 1
            obs.append(Ob(f"{h.name}[{cname}]", "UNSUPPORTED", reason=str(e), case=case))
    stats["theory"] = dict(theory.stats)
    return obs, stats


def _model_summary(model, limit=60):
    out = {}
    for d in model.decls()[:limit]:
        try:
            out[d.name()] = str(model[d])
        except Exception:
            pass
    return out
