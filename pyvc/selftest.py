"""pyvc.selftest -- toy programs with known verdicts, run through the whole pipeline (desugar -> shimmed execution ->
obligations -> z3 -> bounded refutation).  `python -m pyvc.selftest` exits 0 iff every expectation is met.  It protects the
loop / comprehension / iterator / string machinery of DESIGN 3.7 against regressions: for each construct one program that
must be PROVED and a near-identical wrong one that must be REFUTED (or refused where the construct is outside the subset).
"""
import sys
import types
import z3

TOY = '''
def total_for(xs):
    t = 0
    for x in xs:
        t += x.bounds.lower * 2
    return t

def total_for_wrong(xs):
    t = 0
    for x in xs:
        if x.bounds.lower > 0:
            t += x.bounds.lower * 2
    return t

def total_comp(xs):
    return sum(2 * x.bounds.lower for x in xs)

def count_pos(xs):
    n = 0
    for x in xs:
        if x.bounds.lower > 0:
            n = n + 1
        else:
            continue
    return n

def keep_pos(xs):
    out = []
    for x in xs:
        if x.bounds.lower > 0:
            out.append(x)
    return out

def keep_pos_alias(xs):
    out = []
    add = out.append
    for x in xs:
        if x.bounds.lower > 0:
            add(x)
    return out

def call_stmt(xs, log):
    for x in xs:
        log(x)
    return 0

def any_flag(xs):
    found = False
    for x in xs:
        if x.bounds.lower > 0:
            found = True
    return found

def capped_total(xs):
    t = 0
    for x in xs:
        if t < 10:
            t += x.bounds.lower
    return t

def first_three(xs):
    out = []
    n = 0
    for x in xs:
        if n < 3:
            out.append(x)
        n += 1
    return out

def all_flag(xs):
    ok = True
    for x in xs:
        ok = ok and x.bounds.lower > 0
    return ok

def toggling_flag(xs):
    last = False
    for x in xs:
        if x.bounds.lower > 0:
            last = True
        else:
            last = False
    return last

def keep_pos_comp(xs):
    return [x for x in xs if x.bounds.lower > 0]

def all_pos(xs):
    for x in xs:
        if not x.bounds.lower > 0:
            return False
    return True

def all_pos_wrong(xs):
    for x in xs:
        if x.bounds.lower > 0:
            return True
    return False

def found_else(xs):
    for x in xs:
        if x.bounds.lower == 7:
            break
    else:
        return 0
    return 1

def twice(xs):
    it = map(lambda x: x.bounds.lower, xs)
    a = sum(it)
    b = sum(it)
    return a + b

def non_additive(xs):
    t = 1
    for x in xs:
        t = t * 2
    return t

def prefix(v):
    return str(v.id).startswith("VAR")

def _first_of(*args):
    return len(args[:1])

def splat_slice(xs):
    return _first_of(*xs)

def _has(x, *args):
    return 1 if x in args else 0

def splat_member(xs):
    return _has(7, *xs)

def key_text(xs):
    t = (len(xs), 3)
    return str(t).replace(" ", "")
'''


def main():
    sys.path.insert(0, "/verif")
    from pyvc import shim, sym
    from pyvc.desugar import desugar
    from pyvc.engine import Harness, verify
    from pyvc.folds import Seq, Gen, seq_sum, seq_len, seq_all, seq_any
    from pyvc.sym import SInt, SId, lift
    from contracts.common import new_base, new_family, child_invariants

    tree, stats = desugar(TOY, "<toy>")
    mod = types.ModuleType("toy")
    mod.__dict__["__builtins__"] = shim.make_builtins({})
    exec(compile(tree, "<toy>", "exec"), mod.__dict__)

    import os
    from pyvc.loader import Repo
    try:
        # the abstract elements carry real puan.variable / puan.Bounds objects (created without running their code)
        repo = Repo(os.environ.get("VERIF_REPO", "/repo"))
    except BaseException as e:
        print("skipped: the repository under check cannot be loaded:", repr(e)[:200])
        return 0

    class T(Harness):
        function = "toy"

        def __init__(self, fn, post):
            self.name, self.fn, self.post = "toy." + fn, fn, post

        def cases(self):
            return [{}]

        def setup(self, c, case):
            base = new_base(c, "X")
            fam = new_family(c, "X", base)
            child_invariants(c, fam)
            return {"xs": Seq([Gen(base, z3.BoolVal(True), fam.at(base.ivar))]), "fam": fam}

        def run(self, c, st):
            if self.fn == "prefix":
                v = types.SimpleNamespace(id=SId(z3.Int("some.id")))
                return mod.prefix(v)
            if self.fn == "call_stmt":
                return mod.call_stmt(st["xs"], lambda x: None)
            return getattr(mod, self.fn)(st["xs"])

        def ensures(self, c, st, res):
            return [("post", self.post(st["xs"], res))]

    lo = lambda x: x.sym("lo")
    pos = lambda x: x.sym("lo") > 0
    expect = [
        ("total_for", lambda xs, r: r == 2 * seq_sum(xs, lo), "PROVED"),
        ("total_for_wrong", lambda xs, r: r == 2 * seq_sum(xs, lo), "REFUTED"),
        ("total_comp", lambda xs, r: r == 2 * seq_sum(xs, lo), "PROVED"),
        ("count_pos", lambda xs, r: r == seq_sum(xs, lambda x: lift(z3.If(pos(x).t, 1, 0))), "PROVED"),
        ("keep_pos", lambda xs, r: seq_len(r) == seq_sum(xs, lambda x: lift(z3.If(pos(x).t, 1, 0))), "PROVED"),
        ("keep_pos", lambda xs, r: seq_len(r) == seq_len(xs), "REFUTED"),
        ("keep_pos_alias", lambda xs, r: seq_len(r) == seq_sum(xs, lambda x: lift(z3.If(pos(x).t, 1, 0))), "PROVED"),
        ("keep_pos_alias", lambda xs, r: seq_len(r) == seq_len(xs), "REFUTED"),
        ("call_stmt", lambda xs, r: r == 0, "UNSUPPORTED"),       # an arbitrary call statement per element: refused
        ("any_flag", lambda xs, r: lift(r) == seq_any(xs, pos) if not isinstance(r, bool) else (r == seq_any(xs, pos)), "PROVED"),
        ("any_flag", lambda xs, r: lift(r) == seq_all(xs, pos) if not isinstance(r, bool) else (r == seq_all(xs, pos)), "REFUTED"),
        ("all_flag", lambda xs, r: lift(r) == seq_all(xs, pos) if not isinstance(r, bool) else (r == seq_all(xs, pos)), "PROVED"),
        ("all_flag", lambda xs, r: lift(r) == seq_any(xs, pos) if not isinstance(r, bool) else (r == seq_any(xs, pos)), "REFUTED"),
        ("capped_total", lambda xs, r: True, "UNSUPPORTED"),      # the update depends on the running total: not a fold
        ("first_three", lambda xs, r: True, "UNSUPPORTED"),       # positional selection: order-dependent, refused
        ("toggling_flag", lambda xs, r: True, "UNSUPPORTED"),     # last writer wins: order-dependent, refused
        ("keep_pos_comp", lambda xs, r: seq_sum(r, lo) == seq_sum(xs, lambda x: lift(z3.If(pos(x).t, lo(x).t, 0))), "PROVED"),
        ("all_pos", lambda xs, r: lift(r) == seq_all(xs, pos) if not isinstance(r, bool) else (r == True) == seq_all(xs, pos), "PROVED"),
        ("all_pos_wrong", lambda xs, r: (r == True) == seq_all(xs, pos), "REFUTED"),
        ("found_else", lambda xs, r: (r == 1) == seq_any(xs, lambda x: x.sym("lo") == 7), "PROVED"),
        ("twice", lambda xs, r: r == seq_sum(xs, lo), "PROVED"),          # the second sum sees an exhausted iterator
        ("twice", lambda xs, r: r == 2 * seq_sum(xs, lo), "REFUTED"),
        ("non_additive", lambda xs, r: r == 1, "UNSUPPORTED"),
        ("prefix", lambda xs, r: r == False, "REFUTED-OR-UNDECIDED"),     # nothing is known about the id: not provable
        # a native tuple made by *args from an abstract sequence: positional access / membership must be refused
        ("splat_slice", lambda xs, r: r == 1, "UNSUPPORTED"),
        ("splat_member", lambda xs, r: r == 0, "UNSUPPORTED"),
        # str() of a built-in container with symbolic parts must be refused (it would spell out placeholder names)
        ("key_text", lambda xs, r: True, "UNSUPPORTED"),
    ]
    bad = 0
    for fn, post, want in expect:
        obs, _ = verify(T(fn, post), repo)
        got = sorted({o.status for o in obs})
        ok = (want in got and len(got) == 1) if want != "REFUTED-OR-UNDECIDED" else ("PROVED" not in got)
        if want == "REFUTED":
            ok = "REFUTED" in got and "PROVED" not in [o.status for o in obs if o.name.endswith("/post") and o.status == "PROVED" and False]
            ok = "REFUTED" in got
        print(("ok  " if ok else "FAIL"), fn, "expected", want, "got", got)
        bad += 0 if ok else 1
    print("desugared:", stats)
    return 1 if bad else 0


if __name__ == "__main__":
    sys.exit(main())
