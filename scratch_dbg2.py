import sys, itertools, os
sys.path.insert(0,'/verif')
import z3, importlib
from pyvc.loader import Repo
from pyvc import engine, sym
from pyvc.engine import *
modname, hname, caseidx, pathidx, gname = sys.argv[1:6]
mod = importlib.import_module(modname)
h=[x for x in mod.HARNESSES if x.name==hname][0]
repo=Repo(os.environ.get('VERIF_REPO','/repo'))
case=list(h.cases())[int(caseidx)]
theory=SigmaTheory()
def make_ctx():
    sym._fresh_counter = itertools.count()
    c=Ctx(theory=theory); c.repo=repo; c.contracts=h.contracts(repo); return c
def run(c):
    st=h.setup(c,case); res=h.run(c,st); return res, h.ensures(c,st,res), st
for pidx,(c,out) in enumerate(explore(run, make_ctx)):
    if pidx!=int(pathidx): continue
    res,goals,st=out[1]
    for n,g in goals:
        if n==gname:
            g=to_bterm(g)
            print("GOAL", g)
            fs = c.closure([z3.Not(g)])
            s=z3.Solver(); s.add(*fs); print("base:", s.check())
            used = set()
            from pyvc.folds import _fold_syms
            symids = {v[0].get_id(): k for k, v in c.folds.items()}
            for f in [z3.Not(g)]+c.pc(): used |= _fold_syms(f, symids)
            syms=[c.folds[symids[i]] for i in used]
            print(len(syms),"folds in query")
            for (s1,b1,t1),(s2,b2,t2) in itertools.combinations(syms,2):
                s.push(); s.add(s1==s2); r=s.check(); s.pop()
                if r==z3.unsat:
                    # is the equality actually valid pointwise?
                    print("EQ would prove:\n   ", t1, "\n   ", t2)
    break
