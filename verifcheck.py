#!/usr/bin/env python3
"""verifcheck -- decide one property of puan-python: contract-based deductive verification of the real code
(pyvc: symbolic execution of /repo's current source against sidecar contracts, z3/cvc5), plus replay of
counter-models on the real code and, where stated, bounded stand-ins (rt).  See DESIGN.md.

exit 0  property held on everything explored (KNOWN-FINDING lines for listed findings)
exit 1  VIOLATION property=<id> replay=<path> [no-failing-input-found]
exit 2  UNDECIDED (an obligation neither proved nor refuted, unsupported construct, solver unknown)
exit 3  CHECKER-ERROR (engine inconsistency)
"""
import argparse
import concurrent.futures as cf
import importlib
import json
import os
import subprocess
import sys
import time
import traceback

HERE = os.path.dirname(os.path.abspath(__file__))
sys.path.insert(0, HERE)
REPO = os.environ.get("VERIF_REPO", "/repo")
sys.path.insert(1, REPO)   # native replays / stand-ins import the tree under check (the editable install points to /repo)

from registry import PROPERTIES  # noqa: E402


def _worker(args):
    modname, hidx, case_idx, tier = args[:4]
    canary = len(args) > 4 and args[4]
    import warnings
    warnings.simplefilter("ignore")
    from pyvc.loader import Repo
    from pyvc.engine import verify
    t0 = time.time()
    try:
        mod = importlib.import_module(modname)
        h = (mod.CANARIES if canary else mod.HARNESSES)[hidx]
        repo = Repo(REPO, numpy_mode=getattr(h, "numpy_mode", "real"), rs_model=getattr(h, "rs_model", False))
        import copy
        cases = list(type(h).cases(h))
        if case_idx is not None:
            one = cases[case_idx]
            h = copy.copy(h)          # worker processes are reused: never mutate the module-level harness
            h.cases = lambda: [one]
        obs, stats = verify(h, repo, tier)
        fn = []
        for f in getattr(h, "functions", [h.function]):
            m, q = f if isinstance(f, tuple) else (h.module, f)
            try:
                fn.append(dict(function=f"{m}:{q}", **repo.function_source(m, q)))
            except Exception as e:
                fn.append({"function": f"{m}:{q}", "error": str(e)})
        return {"harness": f"{modname}:{h.name}", "hidx": hidx, "obs": [o.to_json() for o in obs], "stats": stats,
                "functions": fn, "wall": time.time() - t0, "canary": bool(canary), "desugared": dict(repo.desugared)}
    except Exception as e:
        return {"harness": f"{modname}#{hidx}", "hidx": hidx, "error": f"{type(e).__name__}: {e}",
                "traceback": traceback.format_exc(), "obs": [], "stats": {}, "functions": [], "wall": time.time() - t0}


def run_deductive(prop, tier, jobs):
    tasks = []
    for modname in prop.get("harness_modules", []):
        mod = importlib.import_module(modname)
        for hidx, h in enumerate(mod.HARNESSES):
            if prop.get("harness_filter") and not prop["harness_filter"](h):
                continue
            ncases = len(list(h.cases()))
            for ci in range(ncases):
                tasks.append((modname, hidx, ci, tier))
        for hidx, h in enumerate(getattr(mod, "CANARIES", [])):
            if prop.get("harness_filter") and not prop.get("canaries", True):
                continue
            tasks.append((modname, hidx, None, tier, True))
    results = []
    if not tasks:
        return results
    with cf.ProcessPoolExecutor(max_workers=min(jobs, len(tasks))) as ex:
        for r in ex.map(_worker, tasks):
            results.append(r)
    return results


def load_known():
    p = os.path.join(HERE, "known_findings.json")
    if not os.path.exists(p):
        return {"findings": [], "fixed": []}
    return json.load(open(p))


def match_known(known, pid, ob):
    for f in known.get("findings", []):
        if f["property"] != pid:
            continue
        if f.get("obligation") and f["obligation"] not in ob["name"]:
            continue
        sig = f.get("signature")
        if sig:
            w = ob.get("witness") or {}
            ok = True
            for k, v in sig.items():
                if w.get(k) != v and ob.get(k) != v:
                    ok = False
            if not ok:
                continue
        return f
    return None


def do_replay(path):
    data = json.load(open(path))
    if data.get("rt"):
        # a bounded stand-in violation: re-run the stand-in with the recorded tier/seed on the current tree
        modname, fname = data["rt"].split(":")
        res = getattr(importlib.import_module(modname), fname)(data.get("tier", "quick"), data.get("seed", 0))
        hits = [v for v in res.get("violations", []) if v["name"] == data["name"]]
        print(json.dumps({"violated": [data["name"]] if hits else [], "detail": hits[:1]}, indent=1, default=str))
        return 1 if hits else 0
    modname, hname = data["harness"].split(":", 1)
    mod = importlib.import_module(modname)
    h = [x for x in mod.HARNESSES if x.name == hname][0]
    if data.get("witness") is None:
        print(f"replay: obligation {data['obligation']} has no input-level witness (kind: {data.get('kind')})")
        print(json.dumps(data.get("solver_model", {}), indent=1)[:4000])
        return 1
    try:
        res = h.replay(data["witness"])
    except BaseException as e:
        # an exception that comes out of the code under check while it runs on the witness (a validated model, an
        # in-range array) IS the failure: the obligation promised a result.  An exception raised by the replay code
        # itself stays a checker error.
        import traceback
        tb = traceback.extract_tb(e.__traceback__)
        inner = tb[-1].filename if tb else ""
        in_repo = os.path.realpath(inner).startswith(os.path.realpath(REPO) + os.sep)
        empty_children = isinstance(data["witness"], dict) and data["witness"].get("children") == []
        if not in_repo or isinstance(e, (KeyboardInterrupt, SystemExit)) or empty_children:
            # (a node without any child is outside the documented domain of the constructors: an exception there proves nothing)
            raise
        import re as _re
        mm = _re.search(r"/path\d+/(.*)$", data.get("obligation", ""))
        clause = mm.group(1) if mm else data.get("obligation", "").rsplit("/", 1)[-1]
        res = {"violated": [clause, "raises"], "detail": {"the_real_code_raised": f"{type(e).__name__}: {e}",
                                                         "at": f"{inner}:{tb[-1].lineno}", "witness": data["witness"]}}
    print(json.dumps(res, indent=1, default=str))
    return 1 if res["violated"] else 0


def _rt_child(fn, tier, seed, q):
    import importlib as _il
    import traceback as _tb
    modname, fname = fn.split(":")
    try:
        # the compiled extension prints Rust panic messages to fd 2 (they surface as Python exceptions and are handled by
        # the stand-ins): keep them out of the check's output, in a log next to the replay files
        os.makedirs(os.path.join(HERE, "replay"), exist_ok=True)
        fd = os.open(os.path.join(HERE, "replay", f"stderr-{fname}.log"), os.O_WRONLY | os.O_CREAT | os.O_TRUNC)
        os.dup2(fd, 2)
    except Exception:
        pass
    try:
        res = getattr(_il.import_module(modname), fname)(tier, seed)
    except BaseException as e:
        res = {"name": fn, "error": f"{type(e).__name__}: {e}", "traceback": _tb.format_exc()[-3000:]}
    try:
        import json as _json
        q.put(_json.loads(_json.dumps(res, default=str)))
    except BaseException as e:
        q.put({"name": fn, "error": f"result not serialisable: {e!r}"})


def _merge_desugar(results):
    """what pyvc.desugar rewrote in the module text that was verified (comprehensions -> map/filter/lambda, for-loops ->
    body function + __pyvc_for__, one-argument str(x) calls -> __pyvc_str__(x), subscript loads -> __pyvc_getitem__, in / not in -> __pyvc_in__: same operations that refuse abstract markers); everything else is compiled as it stands in the tree under check"""
    out = {}
    for r in results:
        for mod, st in (r.get("desugared") or {}).items():
            out[mod] = st
    return out


def main():
    ap = argparse.ArgumentParser()
    ap.add_argument("property")
    ap.add_argument("--tier", default=os.environ.get("VERIF_TIER", "quick"), choices=["quick", "thorough"])
    ap.add_argument("--replay")
    ap.add_argument("--jobs", type=int, default=int(os.environ.get("VERIF_JOBS", "16")))
    ap.add_argument("--verbose", "-v", action="store_true")
    a = ap.parse_args()
    pid = a.property
    if a.replay:
        sys.exit(do_replay(a.replay))
    seed = int(os.environ.get("VERIF_SEED", "0") or 0)
    os.environ["PYVC_TIER"] = a.tier
    prop = PROPERTIES[pid]
    t0 = time.time()
    known = load_known()
    os.makedirs(os.path.join(HERE, "replay"), exist_ok=True)
    os.makedirs(os.path.join(HERE, "evidence"), exist_ok=True)

    results = run_deductive(prop, a.tier, a.jobs)
    violations, undecided, errors, known_hits = [], [], [], []
    replayed_per_harness, not_replayed = {}, []
    REPLAY_CAP = 12
    out_of_reach = []
    xfails = []
    all_obs = []
    canary_info = []
    for r in [x for x in results if x.get("canary")]:
        refuted = [o["name"] for o in r["obs"] if o["status"] == "REFUTED"]
        canary_info.append({"canary": r["harness"], "refuted": len(refuted)})
        if not refuted:
            errors.append(f"must-fail canary {r['harness']} was not refuted (the engine proves too much, or the canary is stale)")
    results = [x for x in results if not x.get("canary")]
    for r in results:
        if r.get("error"):
            errors.append(f"{r['harness']}: {r['error']}")
            if a.verbose:
                print(r["traceback"])
        if not r["obs"] and not r.get("error"):
            errors.append(f"{r['harness']}: zero obligations")
        for ob in r["obs"]:
            ob["harness"] = r["harness"]
            all_obs.append(ob)

    # replay refuted obligations on the real code
    for ob in all_obs:
        if ob["status"] == "PROVED":
            continue
        if ob["status"] == "XCHECK":
            # a sampled input on which the real code violates a clause: either the engine proved something false
            # (unsound encoding) or the clause was refuted anyway -- reported with the refutation below if so
            xfails.append(ob)
            continue
        if ob["status"] == "VACUOUS":
            errors.append(f"vacuous path {ob['name']}: {ob.get('reason')}")
            continue
        if ob["status"] == "UNSUPPORTED":
            # the code under check uses a construct outside the verifier's reach: no obligation could be generated for
            # this path; the property's bounded stand-in stands in for it (labelled bounded, never counted as proved)
            out_of_reach.append(ob)
            continue
        if ob["status"] == "UNDECIDED":
            undecided.append(ob)
            continue
        # REFUTED
        safe = ob["name"].replace("/", "_").replace("[", "(").replace("]", ")").replace(" ", "")
        path = os.path.join(HERE, "replay", f"{pid}-{safe}.json")
        rec = {"property": pid, "obligation": ob["name"], "harness": ob["harness"], "case": ob.get("case"),
               "witness": ob.get("witness"), "solver_model": ob.get("model"), "n": ob.get("n"),
               "kind": ob.get("kind", "input"), "solver": "z3 (exact bounded semantics, folds unrolled)"}
        json.dump(rec, open(path, "w"), indent=1, default=str)
        kf = match_known(known, pid, ob)
        hkey = ob["harness"]
        replayed_per_harness[hkey] = replayed_per_harness.get(hkey, 0)
        if ob.get("witness") and "concretise_error" not in (ob.get("witness") or {}) and replayed_per_harness[hkey] >= REPLAY_CAP:
            # enough counter-models of this harness have been replayed: the rest are recorded, not replayed
            not_replayed.append(ob["name"])
            continue
        if ob.get("witness") and "concretise_error" not in (ob.get("witness") or {}):
            replayed_per_harness[hkey] += 1
            p = subprocess.run([sys.executable, "-W", "ignore", os.path.abspath(__file__), pid, "--replay", path], capture_output=True,
                               text=True, timeout=600)
            try:
                res = json.loads(p.stdout)
            except Exception:
                res = {"violated": [], "error": (p.stdout + p.stderr)[-2000:]}
            rec["replay_result"] = res
            json.dump(rec, open(path, "w"), indent=1, default=str)
            import re as _re
            mm = _re.search(r"/path\d+/(.*)$", ob["name"])
            gname = mm.group(1) if mm else ob["name"].rsplit("/", 1)[1]
            vio = res.get("violated", [])
            if gname in vio or gname.split("[")[0] in [v.split("[")[0] for v in vio]:
                ob["replayed"] = True
                if kf:
                    known_hits.append((kf, ob))
                else:
                    violations.append((ob, path, ""))
            else:
                errors.append(f"counter-model of {ob['name']} does not reproduce on the real code "
                              f"(replay {path}: {str(res)[:300]})")
        else:
            # input-free obligation kinds (frame, cache-key, alignment): the obligation itself is the evidence
            if ob.get("kind") in ("frame", "cache-key", "alignment"):
                if kf:
                    known_hits.append((kf, ob))
                else:
                    violations.append((ob, path, " no-failing-input-found"))
            else:
                undecided.append(ob)

    # cross-check failures on paths whose obligations were all proved point at the engine
    for ob in xfails:
        path_prefix = ob["name"].rsplit("/", 1)[0]
        all_proved = all(o["status"] == "PROVED" for o in all_obs if o["name"].startswith(path_prefix + "/") and o["status"] != "XCHECK")
        if all_proved:
            errors.append(f"encoding cross-check: {ob['name']}: {ob.get('reason')} although every obligation of the path was proved "
                          f"(witness {json.dumps(ob.get('witness'), default=str)[:300]})")

    # bounded stand-ins / runtime checks
    rt_results = []
    # every stand-in runs in its own process, all of them at once, under a wall-clock cap: a hang of the code under check
    # (or of the compiled extension) must not hang the check
    rt_cap = int(os.environ.get("VERIF_RT_TIMEOUT", "1200" if a.tier == "quick" else "5400"))
    procs = []
    import multiprocessing as _mp
    ctxmp = _mp.get_context("fork")
    for fn in prop.get("rt", []):
        q = ctxmp.Queue()
        p_ = ctxmp.Process(target=_rt_child, args=(fn, a.tier, seed, q))
        p_.start()
        procs.append((fn, p_, q, time.time()))
    for fn, p_, q, t1 in procs:
        res = None
        try:
            res = q.get(timeout=max(1, rt_cap - (time.time() - t1)))
        except Exception:
            res = None
        p_.join(timeout=5)
        if p_.is_alive():
            p_.terminate()
        if res is None:
            res = {"name": fn, "error": f"no result within {rt_cap}s (hang or crash of the stand-in process)"}
            undecided.append({"name": f"stand-in {fn}", "reason": res["error"]})
        elif res.get("error"):
            errors.append(f"rt {fn}: {res['error']}")
        res["wall"] = round(time.time() - t1, 2)
        rt_results.append(res)
        for v in res.get("violations", []):
            path = os.path.join(HERE, "replay", f"{pid}-rt-{v['name']}.json")
            json.dump(dict(v, property=pid, rt=fn, tier=a.tier, seed=seed), open(path, "w"), indent=1, default=str)
            kf = match_known(known, pid, {"name": v["name"], "witness": v.get("witness")})
            if kf:
                known_hits.append((kf, {"name": v["name"]}))
            else:
                violations.append(({"name": v["name"]}, path, ""))

    # engine self-test: toy programs with known verdicts through the whole pipeline (loops, comprehensions, iterators,
    # string predicates); a verifier that fails it is not believed
    selftest = None
    if not os.environ.get("PYVC_NO_SELFTEST"):
        try:
            p = subprocess.run([sys.executable, "-W", "ignore", "-m", "pyvc.selftest"], capture_output=True, text=True,
                               timeout=600, cwd=HERE, env=dict(os.environ, VERIF_REPO=REPO))
            oks = p.stdout.count("\nok ") + (1 if p.stdout.startswith("ok ") else 0)
            selftest = {"exit": p.returncode, "ok": oks, "failed": p.stdout.count("FAIL ")}
            if p.returncode != 0:
                errors.append("pyvc self-test failed: " + " | ".join(l for l in p.stdout.splitlines() if l.startswith("FAIL"))[:400])
        except Exception as e:
            selftest = {"error": repr(e)}
            errors.append(f"pyvc self-test could not run: {e!r}")

    # background lemmas (pure mathematics) in Lean: thorough tier only (cold start of Mathlib takes minutes)
    lean_info = None
    if prop.get("lean"):
        if a.tier == "thorough":
            t1 = time.time()
            try:
                p = subprocess.run(["lean", os.path.join(HERE, "lean", "Background.lean")], capture_output=True, text=True,
                                   timeout=1800)
                ok = p.returncode == 0 and "error" not in (p.stdout + p.stderr)
                lean_info = {"checked": True, "ok": ok, "seconds": round(time.time() - t1, 1), "output": (p.stdout + p.stderr)[-500:]}
                if not ok:
                    errors.append("lean/Background.lean does not check: " + (p.stdout + p.stderr)[-300:])
            except Exception as e:
                lean_info = {"checked": False, "error": repr(e)}
        else:
            lean_info = {"checked": False, "note": "lean/Background.lean is re-checked in the thorough tier only"}

    all_obs = [o for o in all_obs if o["status"] != "XCHECK"]
    n_ob = len(all_obs)
    n_proved = sum(1 for o in all_obs if o["status"] == "PROVED")
    wall = time.time() - t0

    # ---- evidence ------------------------------------------------------------------------------------------
    functions = []
    seen = set()
    for r in results:
        for f in r["functions"]:
            if f["function"] not in seen:
                seen.add(f["function"])
                functions.append(f)
    backends = {}
    for o in all_obs:
        if o["status"] == "PROVED":
            backends[o.get("backend", "?")] = backends.get(o.get("backend", "?"), 0) + 1
    solver_time = round(sum(o.get("time", 0) for o in all_obs), 3)
    all_proved = n_ob > 0 and n_proved == n_ob and not rt_results
    level = prop.get("level", "other")
    if level == "proof" and (n_proved != n_ob or n_ob == 0):
        level = "other"
    if out_of_reach and not rt_results:
        undecided.extend(out_of_reach)          # nothing stands in for them
        out_of_reach = []
    coverage = {
        "obligations": n_ob,
        "discharged": n_proved,
        "checker_cmd": f"./check {pid} --tier {a.tier}",
        "trusted_base": prop.get("trusted_base", []) + [
            "pyvc (symbolic executor, library shims, sigma theory, concretiser)", "z3 4.x/5.1 (python3 wheel)",
            "cvc5 1.0.3 (on z3 unknown)", "CPython 3.12 executing the real source under shimmed builtins"],
        "explanation": prop.get("explanation", ""),
        "functions_under_contract": functions,
        "source_rewrites_before_compile": _merge_desugar(results),
        "obligations_by_backend": backends,
        "solver_time_s": solver_time,
        "paths": sum(r["stats"].get("paths", 0) for r in results),
        "canaries_not_provable": sum(r["stats"].get("canaries", 0) for r in results),
        "encoding_crosschecks": sum(r["stats"].get("xchecks", 0) for r in results),
        "must_fail_canaries": canary_info,
        "sigma_theory": {k: sum(r["stats"].get("theory", {}).get(k, 0) for r in results)
                         for k in ("regions", "premise_queries", "facts", "analyses")},
        "not_proved": [{"name": o["name"], "status": o["status"], "reason": o.get("reason"), "n": o.get("n")}
                       for o in all_obs if o["status"] != "PROVED"],
        "refuted_not_replayed_beyond_cap": not_replayed[:50],
        "out_of_reach": [{"name": o["name"], "reason": o.get("reason")} for o in out_of_reach],
        "known_findings_hit": [{"finding": kf["id"], "obligation": ob["name"]} for kf, ob in known_hits],
        "samples": [o["name"] + " : " + o["status"] + " by " + str(o.get("backend")) for o in all_obs[:12]],
        "bounded_standins": rt_results,
        "lean_background": lean_info,
        "engine_selftest": selftest,
    }
    ev_eval = sum(r.get("evaluations", 0) for r in rt_results)
    if rt_results:
        coverage["evaluations"] = ev_eval
        coverage["distinct_nontrivial"] = sum(r.get("distinct_nontrivial", 0) for r in rt_results)
        coverage["rule"] = " | ".join(r.get("rule", "") for r in rt_results if r.get("rule"))
        coverage["exhaustive"] = all(r.get("exhaustive", False) for r in rt_results)
    evidence = {
        "property_id": pid, "tier": a.tier, "seed": seed, "level": level, "coverage": coverage,
        "assumptions": prop.get("assumptions", []), "wall_s": round(wall, 2),
        "violations": len(violations),
    }
    # evidence/<id>.json describes a run on the tree under /repo; runs on scratch trees (VERIF_REPO) keep theirs apart
    ev_dir = os.path.join(HERE, "evidence") if os.path.realpath(REPO) == "/repo" else os.path.join(HERE, "scratch", "evidence")
    os.makedirs(ev_dir, exist_ok=True)
    evidence["tree"] = os.path.realpath(REPO)
    json.dump(evidence, open(os.path.join(ev_dir, f"{pid}.json"), "w"), indent=1, default=str)

    # ---- verdict -------------------------------------------------------------------------------------------
    seen_kf = {}
    for kf, ob in known_hits:
        seen_kf.setdefault(kf["id"], [kf, []])[1].append(ob["name"])
    for kid, (kf, names) in seen_kf.items():
        print(f"KNOWN-FINDING: property={pid} {kid}: {kf['what']} [{len(names)} obligation(s)/case(s), e.g. {names[0]}]")
    print(f"{pid}: {n_proved}/{n_ob} obligations proved ({backends}), {len(undecided)} undecided, "
          f"{len(out_of_reach)} out of reach, {len(violations)} violations, {len(known_hits)} known; rt={[(r.get('name'), r.get('evaluations')) for r in rt_results]}; {wall:.1f}s")
    if a.verbose:
        for o in all_obs:
            print("   ", o["status"], o["name"], o.get("reason", ""))
    for ob in out_of_reach:
        print(f"OUT-OF-REACH property={pid} obligation={ob['name']} reason={ob.get('reason')} "
              f"(no obligation generated; decided by the bounded stand-in only)")
    for e in errors:
        print(f"CHECKER-ERROR property={pid} {e}")
    if violations:
        # a confirmed violation is reported even when some other counter-model did not reproduce
        for ob, path, suffix in violations:
            print(f"VIOLATION property={pid} replay={path}{suffix}")
        sys.exit(1)
    if errors:
        sys.exit(3)
    if undecided:
        for ob in undecided:
            print(f"UNDECIDED property={pid} obligation={ob['name']} reason={ob.get('reason')}")
        sys.exit(2)
    sys.exit(0)


if __name__ == "__main__":
    try:
        main()
    except SystemExit:
        raise
    except BaseException as e:      # a crash of the checker is never a verdict about the code under check
        import traceback
        traceback.print_exc()
        print(f"CHECKER-ERROR the checker itself failed: {type(e).__name__}: {e}")
        sys.exit(3)
