#!/usr/bin/env python3
"""regenerate MANIFEST.json from registry.py (single source of truth for what each check runs)"""
import json, os, sys
HERE = os.path.dirname(os.path.dirname(os.path.abspath(__file__)))
sys.path.insert(0, HERE)
from registry import PROPERTIES

TEXT = {
 "C01": "lemma enc_sound proved for every node width/sign/bounds over the assumed rows A-rs1; the Python glue of to_ge_polyhedron (real source) proved against the executable form of A-rs1 for 4 tree shapes x all sign assignments with symbolic thresholds/bounds; reduced=True: only the glue's transport of the extension's answer (open contract); the rows of the compiled extension validated row by row at run time (bounded)",
 "C02": "lemmas enc_sound (completeness) and sound_safe (converse for solver-safe nodes) proved for every node width over A-rs1; glue + A-rs1 model: converse proved for the solver-safe sign assignments of 4 tree shapes (symbolic values); rows validated at run time; all integer points of small polyhedra enumerated (bounded)",
 "C03": "assume()/variable.evaluate interval computation and the total=>constant lemma proved for every child count and value form; evaluate()/evaluate_propositions() glue proved over the contracts of assume and (assumed) flatten; repeated queries on one object by bounded stand-ins; end to end on tree shapes with symbolic values: evaluate(e) is the truth value",
 "C04": "every direct constructor proved over an abstract child list of any length; JSON route: round-trip obligations of every class composed with the constructor obligations, and plog.from_json on hand-written records of all 8 types with symbolic thresholds; rule dictionaries: the real Imply.from_cicJE on 240 enumerated dictionary shapes, every 0/1 assignment; random records and the same dictionaries natively by bounded stand-in",
 "C05": "every path x sign x generated_id of the real AtLeast.negate proved for every child count (complement, safe form over boolean leaves, explicit id kept); callee contract as induction hypothesis; an end-to-end runtime cross-check runs as well; end to end on tree shapes with symbolic values (integer leaves): complement and id",
 "C06": "assume/post.bounds + lemma.sound (all completions) + is_tautology/is_contradiction/equation_bounds sound, complete and exact: proved for every child count; end-to-end and history stand-ins run as well; end to end on tree shapes: evaluate(partial) contains every completion's truth value",
 "C07": "assume/post.c07 proved for every child count and every value form: ival(assume(d), e) == ival(self, d|e); the property as stated (assume(a).evaluate(r) == evaluate(a|r), all value forms) and histories by bounded stand-ins as well; end to end on tree shapes: assume(a).evaluate(r) == evaluate(a|r)",
 "C08": "reduce/post.meaning, post.noconst, post.bounds proved for every child count; end-to-end stand-in over near-identical models in one process runs as well; end to end on tree shapes: reduce().evaluate(e) == evaluate(e)",
 "C09": "frame obligations (no store to any pre-existing object / list / module container on any path) for every method under contract incl. add and default_prios, input-free; cache-key obligations; one known finding (D2); frames around readers/writers/solver routes incl. mutable default arguments; sequences of all public calls on models and configurators, probes on other objects against process-start answers and the configurator cache scenarios by bounded stand-ins",
 "C10": "key functions of errors() extracted from the source proved injective on definitions (all ids/bounds/signs/values/children) + Lean card_image_comp_iff; traversal and cycle check by bounded stand-in; the real errors() end to end on tree shapes with symbolic bounds/thresholds of repeated ids (accepted iff one definition), independent of the source text",
 "C11": "step functions and the small-shape fix-point loop proved for symbolic entries (bounded in shape); projection property end to end by bounded stand-in",
 "C12": "row_bounds exact, tighten_column_bounds sound and non-widening, n_row_combinations: proved for symbolic entries on shapes up to 2x2 (row bounds, never-widen and counts up to 2x3; bounded in shape; float rounding not modelled); brute force up to 3x3 incl. large coefficients by bounded stand-in",
 "C13": "first/last/min/max, ranking, prio/rank and shadow (the latter over the executable form of the assumed contract A-rs2 of the compiled bit allocation) proved through the real Python code for symbolic entries on small shapes (1-D n<=3, 2-D up to 2x2 quick / 3x2 thorough, both axes); A-rs2 validated against the compiled function at run time; larger shapes, 3-D, >2^53 values and call sequences on one array by bounded stand-in",
 "C14": "cc.Any/cc.Xor restructuring around the default (truth function, -2 tag, partition) proved for any number of children; default_prios (tag or -1 per flattened node) and _vectors_from_prios (two-level stack handed to the shadow compression) proved; Lean dominance lemma; objective ranking end to end by bounded stand-in (weights from compiled code: A-rs2); the objective vector end to end through the real shadow compression over the executable A-rs2 model: sign, level and dominance structure proved for 2-3 columns with symbolic priorities",
 "C15": "solve/select/StingyConfigurator.select alignment of objectives, solutions and ids proved for symbolic weights/solutions on 1-3 columns; objective rows of _vectors_from_prios (weight at the named column, 0 elsewhere) proved; the built-in route (no callable) against an open contract of the compiled solver: every named id's statement gets its weight, every id is reported with its statement's value; recording and exact solvers on random models by bounded stand-in",
 "C16": "to_json -> from_json proved meaning/id preserving for every class incl. the configurator classes and any child count (compound children by contract; explicit ids concrete and fully symbolic, i.e. also ids that look generated); json.dumps/loads, Not, nested configurators by bounded stand-in; end to end on nested tree shapes with symbolic values",
 "C17": "alignment obligations of the b64 packing decided on the source (ast); pickle/gzip/base64 assumed; structural and behavioural equality after the round trip by bounded stand-in",
 "C18": "add(): refusal exactly on clashing ids, result children/threshold/id/class, receiver untouched: proved for any width; end to end on concrete configurators (symbolic thresholds/bounds, warm receivers, top-level items): structure, default priorities, polyhedron, leafs equal to direct construction; equality with direct construction (priorities, polyhedron, solutions), sequences and histories by bounded stand-in",
 "C19": "ineqs_satisfied/separable/ineq_separate_points proved equal to the row-by-row definition for symbolic matrices and points of rank 1-3 on small shapes; random shapes on real numpy by bounded stand-in",
 "C20": "construct, index partition, to_list, from_list (symbolic duplicate-free ids), to_linalg proved for symbolic values/bounds on 1-3 variables; exotic ids by bounded stand-in",
}

def main():
    checks = []
    for pid in sorted(PROPERTIES):
        p = PROPERTIES[pid]
        ded = bool(p.get("harness_modules"))
        checks.append({
            "property_id": pid,
            "quick_cmd": f"./check {pid} --tier quick",
            "thorough_cmd": f"./check {pid} --tier thorough",
            "evidence_file": f"evidence/{pid}.json",
            "replay_cmd_template": f"./check {pid} --replay {{path}}",
            "engine": "pyvc" if ded else "rt",
            "level_claimed": {"category": p.get("level", "other"), "text": TEXT[pid], "design_ref": f"7 {pid}"},
            "level_note": "trusted: pyvc (symbolic executor over the real source, shims, sigma theory, symbolic ndarray layer), z3/cvc5, CPython; "
                          "assumed: " + "; ".join(a for a in p.get("assumptions", []) if a.startswith(("A-", "S2", "maz", "json", "to_ge", "children", "variable bounds", "lemma"))) +
                          ". Bounded stand-ins are labelled in the evidence (coverage.bounded_standins) and never counted in `discharged`.",
            "technique": "contract-based deductive verification: VCs generated by symbolic execution of the real source under sidecar contracts, discharged by z3 (cvc5 on unknown)"
                         + ("; Lean for background lemmas" if p.get("lean") else "") + ("; bounded stand-ins (runtime contracts) for the functions outside reach" if p.get("rt") else ""),
        })
    m = {
        "version": 1,
        "setup_cmd": "./setup.sh",
        "hooks": {
            "guard": "OURSTUDIO_SE_PUAN_PYTHON_VERIF",
            "enable": "no hooks: contracts are sidecar files in /verif/contracts keyed by qualified name; /repo is only read (the guard variable guards nothing)",
            "baseline_off_cmd": "cd /repo && /venv/bin/python -m pytest -ra -q -p no:cacheprovider --timeout=900 --continue-on-collection-errors",
            "source_commits": [],
            "add_only": True,
        },
        "engines": [
            {"name": "pyvc", "path": "pyvc/", "serves_properties": sorted(k for k, v in PROPERTIES.items() if v.get("harness_modules")),
             "kind_free_text": "contract-based deductive verifier built here: the real /repo source is executed by CPython under shimmed builtins/library modules with symbolic data; abstract child sequences of any length (sigma theory: region/basis analysis), callee contracts as induction hypotheses, frame snapshots, a symbolic ndarray layer for fixed small shapes; z3 discharges (cvc5 on unknown); bounded refutation + replay on the real code"},
            {"name": "rt", "path": "rt/", "serves_properties": sorted(PROPERTIES),
             "kind_free_text": "native runtime engine: replay of counter-models, bounded stand-ins (labelled bounded), end-to-end and history cross-checks"},
            {"name": "lean", "path": "lean/Background.lean", "serves_properties": sorted(k for k, v in PROPERTIES.items() if v.get("lean")),
             "kind_free_text": "Lean 4 + Mathlib: pure-mathematics background lemmas (thorough tier)"},
        ],
        "checks": checks,
        "notes": "Fix commits made in /repo for genuine defects are listed in known_findings.json (fixed: ...). One recorded finding: D2 (C09). Seeded faults and what catches them: seeded/*/meta.json.",
        "not_applicable": [],
    }
    json.dump(m, open(os.path.join(HERE, "MANIFEST.json"), "w"), indent=1)

if __name__ == "__main__":
    main()
