#!/bin/bash
# every kept semantics-preserving refactoring against the checks of the properties it touches: all must exit 0
cd "$(dirname "$0")/.."
[ -x .venv/bin/python ] || ./setup.sh >/dev/null 2>&1
run() { d=$1; shift; tools/neutral_test.sh neutral/$d "$@" 2>&1 | sed "s/^/$d /"; }
run N1 C03 C05 C06 C07 C08 C09
run N2 C04 C16 C03 C09
run N3 C10 C15 C01 C02 C03
run N4 C11 C12
run N5 C13 C17 C19 C20
run N6 C14 C15 C16 C17 C18 C09
run M1 C03 C06 C07 C09 C16 C20
run M2 C04 C05 C09 C10 C16 C17
run M3 C04 C16 C05
run M4 C11 C12 C13 C19 C20
run M5 C13 C15 C17 C20 C14
run M6 C14 C16 C17 C18 C09
