#!/usr/bin/env python3
"""tools/import_seed.py <srcroot> <prop> <letter> <caught_by...>: store a confirmed seeded change under seeded/<prop>-<next letter>/"""
import json, os, shutil, sys, string
root, prop, letter = sys.argv[1:4]
caught = " ".join(sys.argv[4:])
src = os.path.join(root, prop)
have = {d.split("-")[1] for d in os.listdir("/verif/seeded") if d.startswith(prop + "-")}
have |= {k.split("-")[1] for k in json.load(open("/verif/seeded/REJECTED.json")) if k.startswith(prop + "-") and len(k.split("-")) == 2}
new = next(l for l in string.ascii_uppercase if l not in have)
dst = f"/verif/seeded/{prop}-{new}"
os.makedirs(dst)
shutil.copy(os.path.join(src, f"patch_{letter}.diff"), os.path.join(dst, "patch.diff"))
shutil.copy(os.path.join(src, f"demo_{letter}.py"), os.path.join(dst, "demo.py"))
meta = json.load(open(os.path.join(src, "meta.json")))
m = meta.get(letter, {})
out = {"property": prop, "summary": m.get("summary", ""), "needs_to_manifest": m.get("needs_to_manifest", ""),
       "files": m.get("files", []), "round": int(os.environ.get("ROUND", "2")),
       "made_by": os.environ.get("MADE_BY", "independent sub-agent given only the property text and its own worktree of /repo (second round: caches, dtype narrowing, falsy-zero and dropped-sign mechanisms excluded)"),
       "confirmed_by_me": "scratch worktree at /repo HEAD 3160c20: demo exits 0 without the patch and non-zero with it; baseline suite unchanged (same 9 known failures, 126 passed)",
       "caught_by": caught}
json.dump(out, open(os.path.join(dst, "meta.json"), "w"), indent=1)
print(dst)
