#!/bin/bash
# tools/neutral_test.sh <dir with R*.diff> <checks...> : apply each semantics-preserving refactoring to a scratch worktree, run the checks (must exit 0)
SRC=$(cd "$1" && pwd); shift
cd "$(dirname "$0")/.."
for p in $SRC/R*.diff; do
  D=$(mktemp -d /tmp/ntXXXX); rmdir $D
  git -C /repo worktree add -q $D HEAD
  (cd $D && git apply $p) || { echo "$p does not apply"; git -C /repo worktree remove --force $D; continue; }
  for c in "$@"; do
    out=$(VERIF_REPO=$D ./check $c 2>&1); code=$?
    echo "$(basename $p) $c exit=$code $(echo "$out" | grep -E "^C[0-9]+:" | cut -c1-110)"
    [ $code != 0 ] && echo "$out" | grep -E "^(VIOLATION|UNDECIDED|CHECKER)" | cut -c1-260 | head -4
  done
  git -C /repo worktree remove --force $D
done
