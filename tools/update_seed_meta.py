#!/usr/bin/env python3
"""tools/update_seed_meta.py <campaign.json>: record the last campaign's verdict per seed in seeded/<key>/meta.json and
write seeded/CAMPAIGN.md (table)"""
import json, os, sys
d = json.load(open(sys.argv[1]))
rows = []
for key in sorted(d):
    v = d[key]
    mp = f"/verif/seeded/{key}/meta.json"
    if not os.path.exists(mp):
        continue
    m = json.load(open(mp))
    r = v["result"]
    m["last_campaign"] = {"exit": v["exit"], "deductive_violations": r["deductive"], "standin_violations": r["standin"],
                          "undecided": r["undecided"], "out_of_reach": r["out_of_reach"], "checker_errors": r["checker_errors"],
                          "examples": r["examples"]}
    json.dump(m, open(mp, "w"), indent=1)
    how = "deductive+stand-in" if r["deductive"] and r["standin"] else "deductive" if r["deductive"] else "stand-in" if r["standin"] else "MISSED"
    rows.append((key, v["exit"], how, (r["examples"] or [""])[0].replace("VIOLATION property=", "")[:110]))
with open("/verif/seeded/CAMPAIGN.md", "w") as f:
    f.write("# Seeded changes: result of the last full campaign (`tools/seed_campaign.sh`)\n\n")
    n = len(rows)
    f.write(f"{n} kept changes; caught (exit 1 with a VIOLATION line): {sum(1 for r in rows if r[1] == 1 and r[2] != 'MISSED')}; "
            f"by a deductive obligation (replayed input or input-free frame/alignment obligation): {sum(1 for r in rows if 'deductive' in r[2])}; "
            f"by a bounded stand-in only: {sum(1 for r in rows if r[2] == 'stand-in')}.\n\n")
    f.write("| seed | exit | reported by | first violation |\n|---|---|---|---|\n")
    for r in rows:
        f.write(f"| {r[0]} | {r[1]} | {r[2]} | `{r[3]}` |\n")
print(open("/verif/seeded/CAMPAIGN.md").read()[:600])
