#!/bin/bash
# run every quick check on the unchanged tree under several VERIF_SEED values: all must exit 0 (no seed-dependent false alarm)
cd "$(dirname "$0")/.."
for s in "$@"; do
  for p in C01 C02 C03 C04 C05 C06 C07 C08 C09 C10 C11 C12 C13 C14 C15 C16 C17 C18 C19 C20; do
    VERIF_SEED=$s PYVC_NO_SELFTEST=1 ./check $p > /tmp/sweep_$p.log 2>&1; code=$?
    [ $code = 0 ] || { echo "seed=$s $p exit=$code"; grep -E "^(VIOLATION|UNDECIDED|CHECKER)" /tmp/sweep_$p.log | cut -c1-220 | head -3; cp /tmp/sweep_$p.log /tmp/sweep_fail_${s}_$p.log; }
  done
  echo "seed=$s done"
done
