#!/usr/bin/env python3
"""tools/fill_counts.py: put the obligation counts of the committed evidence (quick tier) into the table of DESIGN.md section 7"""
import json, re
s = open("/verif/DESIGN.md").read()
out = []
for line in s.split("\n"):
    m = re.match(r"\| (C\d\d) \|", line)
    if m:
        ev = json.load(open(f"/verif/evidence/{m.group(1)}.json"))
        n = sum(ev["coverage"]["obligations_by_backend"].values())
        line, k = re.subn(r"\*\*(?:\d+|@C\d\d@) obl\.\*\*", f"**{n} obl.**", line)
        if k != 1:
            print("row without exactly one count:", m.group(1), k)
    out.append(line)
open("/verif/DESIGN.md", "w").write("\n".join(out))
