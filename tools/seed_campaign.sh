#!/bin/bash
# run every kept seeded fault against its property's check; writes <out>.json with the verdict lines per seed
# usage: tools/seed_campaign.sh [out.json]
cd "$(dirname "$0")/.."
OUT=${1:-/tmp/seed_campaign.json}
[ -x .venv/bin/python ] || ./setup.sh >/dev/null 2>&1
echo "{" > $OUT.tmp
first=1
for d in seeded/C*-*/; do
  key=$(basename $d); P=${key%-*}
  D=$(mktemp -d /tmp/scXXXX); rmdir $D
  git -C /repo worktree add -q $D HEAD
  (cd $D && git apply /verif/seeded/$key/patch.diff 2>/dev/null || git apply --3way /verif/seeded/$key/patch.diff >/dev/null 2>&1)
  res=$(VERIF_REPO=$D ./check $P 2>&1 | grep -E "^(VIOLATION|UNDECIDED|CHECKER-ERROR)" | sed 's/replay=[^ ]*replay\///' | cut -c1-160 | head -8 | python3 -c "import sys,json; print(json.dumps(sys.stdin.read().splitlines()))")
  code=$(VERIF_REPO=$D ./check $P >/dev/null 2>&1; echo $?)
  git -C /repo worktree remove --force $D
  [ $first = 1 ] || echo "," >> $OUT.tmp
  first=0
  echo "\"$key\": {\"exit\": $code, \"lines\": $res}" >> $OUT.tmp
  echo "$key exit=$code"
done
echo "}" >> $OUT.tmp
mv $OUT.tmp $OUT
