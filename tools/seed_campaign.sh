#!/bin/bash
# run every kept seeded fault against its property's check; writes <out>.json with the verdict lines per seed
# usage: tools/seed_campaign.sh [out.json] [seed-dir-glob]
cd "$(dirname "$0")/.."
OUT=${1:-/tmp/seed_campaign.json}
GLOB=${2:-seeded/C*-*/}
[ -x .venv/bin/python ] || ./setup.sh >/dev/null 2>&1
echo "{" > $OUT.tmp
first=1
for d in $GLOB; do
  key=$(basename $d); P=${key%-*}
  D=$(mktemp -d /tmp/scXXXX); rmdir $D
  git -C /repo worktree add -q $D HEAD
  (cd $D && git apply /verif/seeded/$key/patch.diff 2>/dev/null || git apply --3way /verif/seeded/$key/patch.diff >/dev/null 2>&1)
  VERIF_REPO=$D ./check $P > $OUT.run 2>&1; code=$?
  git -C /repo worktree remove --force $D
  res=$(grep -E "^(VIOLATION|UNDECIDED|CHECKER-ERROR|OUT-OF-REACH)" $OUT.run | sed 's/replay=[^ ]*replay\///' | cut -c1-200 | python3 -c "
import sys,json
lines=sys.stdin.read().splitlines()
v=[l for l in lines if l.startswith('VIOLATION')]
ded=[l for l in v if '-rt-' not in l]; rt=[l for l in v if '-rt-' in l]
print(json.dumps({'deductive': len(ded), 'standin': len(rt), 'undecided': sum(l.startswith('UNDECIDED') for l in lines), 'out_of_reach': sum(l.startswith('OUT-OF-REACH') for l in lines), 'checker_errors': sum(l.startswith('CHECKER') for l in lines), 'examples': (ded[:2]+rt[:2])}))")
  [ $first = 1 ] || echo "," >> $OUT.tmp
  first=0
  echo "\"$key\": {\"exit\": $code, \"result\": $res}" >> $OUT.tmp
  echo "$key exit=$code $(echo $res | cut -c1-90)"
done
echo "}" >> $OUT.tmp
mv $OUT.tmp $OUT; rm -f $OUT.run
