#!/bin/bash
# run every thorough command once on the unchanged tree; prints exit code and wall time per property
cd "$(dirname "$0")/.."
[ -x .venv/bin/python ] || ./setup.sh >/dev/null 2>&1
for p in C01 C02 C03 C04 C05 C06 C07 C08 C09 C10 C11 C12 C13 C14 C15 C16 C17 C18 C19 C20; do
  s=$(date +%s); ./check $p --tier thorough > /tmp/thorough_$p.log 2>&1; code=$?
  echo "$p exit=$code $(( $(date +%s) - s ))s $(grep -E '^C[0-9]+:' /tmp/thorough_$p.log | cut -c1-140)"
  grep -E "^(VIOLATION|UNDECIDED|CHECKER|OUT-OF)" /tmp/thorough_$p.log | cut -c1-200 | head -3
done
