#!/bin/bash
# a reduced neutral run: the refactoring directories and checks touched by the latest additions
cd "$(dirname "$0")/.."
[ -x .venv/bin/python ] || ./setup.sh >/dev/null 2>&1
run() { d=$1; shift; tools/neutral_test.sh neutral/$d "$@" 2>&1 | sed "s/^/$d /"; }
run N1 C02 C05
run N2 C16 C04
run N3 C02 C15 C01
run N4 C11 C12
run N6 C14 C15 C16 C18
run M3 C16 C04
run M4 C11 C12 C13 C19
run M5 C13 C15 C14
run M6 C14 C16 C18
