#!/bin/bash
# ./seedtest.sh <prop> <letter> [check props...]  -- confirm a seeded change (demo fails with it, passes without, suite unchanged) and run checks on it
P=$1; L=$2; shift 2; CHECKS=${@:-$P}
SRC=${SEEDSRC:-/tmp/seed_out}/$P
[ -z "$SEEDSRC" ] && [ -d /verif/seeded/$P-$L ] && SRC=/verif/seeded/$P-$L
PATCH=$SRC/patch_$L.diff; DEMO=$SRC/demo_$L.py
[ -f $PATCH ] || PATCH=$SRC/patch.diff; [ -f $DEMO ] || DEMO=$SRC/demo.py
D=$(mktemp -d /tmp/sdXXXX); rmdir $D
git -C /repo worktree add -q $D HEAD
cd $D
/venv/bin/python -W ignore $DEMO >/dev/null 2>&1; echo "demo-without-patch exit=$? (want 0)"
if git apply --check $PATCH 2>/dev/null; then git apply $PATCH; else echo "PATCH DOES NOT APPLY to current HEAD"; git apply --3way $PATCH 2>&1 | tail -2; fi
/venv/bin/python -W ignore $DEMO >/dev/null 2>&1; echo "demo-with-patch exit=$? (want !=0)"
if [ -z "$SKIPTESTS" ]; then
/venv/bin/python -m pytest -q -p no:cacheprovider --timeout=900 -q 2>&1 | grep -E "^(FAILED|ERROR)" | sed 's/ - .*//' | sort > $D.fail.txt
diff <(sed 's/ - .*//' /tmp/scr_fail.txt | grep -E "^(FAILED|ERROR)") $D.fail.txt > /dev/null && echo "suite: SAME_FAILSET" || { echo "suite: DIFFERENT"; diff <(sed 's/ - .*//' /tmp/scr_fail.txt | grep -E "^(FAILED|ERROR)") $D.fail.txt | head -5; }
fi
cd /verif
for c in $CHECKS; do VERIF_REPO=$D ./check $c 2>&1 | grep -E "^(VIOLATION|UNDECIDED|CHECKER|C[0-9]+:)" | cut -c1-220 | head -6; echo "  -> $c exit=${PIPESTATUS[0]}"; done
git -C /repo worktree remove --force $D; rm -f $D.fail.txt
