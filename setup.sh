#!/bin/bash
# Builds the offline overlay venv used by every check: Python 3.12 (same interpreter as /venv) + z3-solver and
# jsonschema from the local wheelhouse, with /venv's site-packages (numpy, maz, puan_rspy, editable puan -> /repo) on the path.
set -e
cd "$(dirname "$0")"
if [ ! -x .venv/bin/python ] || ! .venv/bin/python -c "import z3, numpy, maz, puan_rspy" 2>/dev/null; then
  rm -rf .venv
  PY=$(/venv/bin/python -c "import sys; print(sys.base_prefix)")/bin/python3
  "$PY" -m venv .venv
  PIP_NO_INDEX=1 .venv/bin/pip install -q --no-index --find-links /opt/veriftools/wheels z3-solver jsonschema
  echo "import site; site.addsitedir('/venv/lib/python3.12/site-packages')" > .venv/lib/python3.12/site-packages/_repo_overlay.pth
fi
.venv/bin/python -c "import z3, numpy, maz, puan_rspy, puan; print('setup ok: z3', z3.get_version_string())"
for t in /usr/bin/cvc5 /usr/bin/z3; do [ -x $t ] || echo "warning: $t missing"; done
