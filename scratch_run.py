import sys, time, traceback
sys.path.insert(0, '/verif')
from pyvc.loader import Repo
from pyvc.engine import verify
import importlib
mod = importlib.import_module(sys.argv[1])
import os
for h in mod.HARNESSES:
    if len(sys.argv) > 2 and sys.argv[2] not in h.name: continue
    repo = Repo(os.environ.get('VERIF_REPO', '/repo'), numpy_mode=getattr(h, 'numpy_mode', 'real'), rs_model=getattr(h, 'rs_model', False))
    t0=time.time()
    obs, stats = verify(h, repo)
    print(h.name, stats, round(time.time()-t0,2))
    for o in obs:
        extra = {k:v for k,v in o.__dict__.items() if k in ('reason','n','witness','backend')}
        print("  ", o.status, o.name, extra)
        if o.status=='REFUTED': 
            print("      model:", {k:v for k,v in list(o.model.items())[:40]})
