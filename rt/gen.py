"""rt.gen -- generators of real puan models for the bounded stand-ins, replays and the encoding cross-check.

Everything here runs natively against the repository code (imported from the tree under check).
"""
import itertools
import random

LEAF_BOUNDS = [(0, 1), (0, 1), (0, 1), (-2, 2), (0, 3), (1, 2), (-3, -1), (-32768, 32767), (-2, 0)]


def leaf_pool(n=9, int_leaves=True):
    import puan
    pool = []
    for k in range(n):
        b = LEAF_BOUNDS[k % len(LEAF_BOUNDS)] if int_leaves else (0, 1)
        pool.append(puan.variable("abcdefghijkl"[k], b))
    return pool


def rand_model(rng, pool, depth=2, width=3, classes=None, ids=True, top=True):
    """random proposition tree over the leaf pool; sub-proposition ids are explicit (unique) when ids=True"""
    import puan.logic.plog as pg
    classes = classes or ["All", "Any", "AtLeast", "AtMost", "Xor", "XNor", "Imply", "Not", "AtLeastNeg"]
    counter = rand_model.__dict__.setdefault("counter", itertools.count())

    def fresh():
        if not ids:
            return None
        k = next(counter)
        # explicit ids include shapes that resemble generated ids, contain separators / spaces / commas, or are numeric
        style = rng.random()
        if style < 0.12:
            return f"VARIANT-{k}"
        if style < 0.2:
            return f"n {k},x"
        if style < 0.26:
            return f"{k}"
        return f"N{k}"

    def sub(d):
        if d == 0 or rng.random() < 0.35:
            return rng.choice(pool)
        return build(d - 1)

    def children(d, lo=1):
        k = rng.randint(lo, width)
        out, seen = [], set()
        for _ in range(k):
            x = sub(d)
            if x.id in seen:
                continue
            seen.add(x.id)
            out.append(x)
        return out

    def build(d):
        cls = rng.choice(classes)
        if cls == "All":
            return pg.All(*children(d), variable=fresh())
        if cls == "Any":
            return pg.Any(*children(d), variable=fresh())
        if cls == "AtLeast":
            ch = children(d)
            return pg.AtLeast(rng.randint(-1, len(ch) + 1), ch, variable=fresh())
        if cls == "AtLeastNeg":
            ch = children(d)
            return pg.AtLeast(rng.randint(-len(ch) - 1, 1), ch, variable=fresh(), sign=-1)
        if cls == "AtMost":
            ch = children(d)
            return pg.AtMost(rng.randint(0, len(ch)), ch, variable=fresh())
        if cls == "Xor":
            return pg.Xor(*children(d), variable=fresh())
        if cls == "XNor":
            return pg.XNor(*children(d), variable=fresh())
        if cls == "Imply":
            return pg.Imply(sub(d), sub(d), variable=fresh())
        if cls == "Not":
            x = sub(d)
            return pg.Not(x)
        raise ValueError(cls)
    m = build(depth)
    return m


def leaves_of(model):
    import puan
    return sorted({x.id: x for x in model.flatten() if type(x) is puan.variable}.values(), key=lambda v: str(v.id))


def assignments(leaves, rng=None, limit=64):
    """in-bounds integer assignments: exhaustive when small (end points + interior sample for wide ranges), else sampled"""
    doms = []
    for v in leaves:
        lo, hi = v.bounds.lower, v.bounds.upper
        if hi - lo <= 4:
            doms.append(list(range(lo, hi + 1)))
        else:
            doms.append(sorted(x for x in {lo, lo + 1, -1, 0, 1, hi - 1, hi} if lo <= x <= hi))
    total = 1
    for d in doms:
        total *= len(d)
    if total <= limit:
        for combo in itertools.product(*doms):
            yield {v.id: x for v, x in zip(leaves, combo)}
    else:
        rng = rng or random.Random(0)
        for _ in range(limit):
            yield {v.id: rng.choice(d) for v, d in zip(leaves, doms)}


def is_var(x):
    import puan
    return issubclass(x.__class__, puan.variable)


def ref_truth(node, env):
    """independent arithmetic truth function (reference)"""
    if is_var(node):
        return env[node.id]
    return 1 if node.sign * sum(ref_truth(c, env) for c in node.propositions) >= node.value else 0


def solver_safe(node):
    if is_var(node):
        return True
    return all(solver_safe(c) and (node.sign > 0 or is_var(c)) for c in node.propositions)


def well_defined(model):
    """reference wf: one definition per id, no duplicate child, acyclic (trees built here are acyclic)"""
    defs = {}

    def sig(n):
        if is_var(n):
            return ("v", n.bounds.as_tuple())
        return ("c", int(n.sign), n.value, tuple(sorted(str(c.id) for c in n.propositions)), n.bounds.as_tuple())

    ok = True

    def walk(n):
        nonlocal ok
        s = sig(n)
        if n.id in defs and defs[n.id] != s:
            ok = False
        defs[n.id] = s
        if not is_var(n):
            ids = [c.id for c in n.propositions]
            if len(ids) != len(set(ids)):
                ok = False
            for c in n.propositions:
                walk(c)
    walk(model)
    return ok


def rebuild(node, bmap=None, idmap=None, dvalue=None):
    """structure preserving copy of a model as plain AtLeast nodes (same ids, signs, values, bounds), with leaf bounds
    mapped through bmap and ids through idmap -- used to build near-identical variants of one model"""
    import puan
    import puan.logic.plog as pg
    bmap = bmap or {}
    idmap = idmap or (lambda s: s)

    def go(n, top):
        if is_var(n):
            b = tuple(n.bounds.as_tuple())
            return puan.variable(idmap(n.id), bmap.get(b, b))
        kids = [go(c, False) for c in n.propositions]
        val = n.value + (dvalue if (dvalue and top) else 0)
        return pg.AtLeast(val, kids, variable=puan.variable(idmap(n.id), tuple(n.bounds.as_tuple())), sign=int(n.sign))
    return go(node, True)


def special_models():
    """deterministic shapes that random generation rarely hits: one definition appearing under several classes (Any next
    to the at-least-one half of an Xor over the same items), a named sub-proposition shared between two parents, unnamed
    look-alikes whose generated ids could collide.  Each is used only if the tree under check validates it."""
    import puan
    import puan.logic.plog as pg
    x = puan.variable("x", (0, 3))
    t = puan.variable("t", (-2, 2))
    mk = [
        lambda: pg.All(pg.Any("a", "b"), pg.Xor("a", "b"), "c", variable="T"),
        lambda: pg.All(pg.Any("a", "b", variable="B"), pg.Imply("c", pg.Any("a", "b", variable="B")), variable="T"),
        lambda: pg.Imply(pg.Any(x, "b"), pg.All(pg.Xor(x, "b"), pg.Any("c", t)), variable="T"),
        lambda: pg.Any(pg.All("a", "b"), pg.AtLeast(2, ["a", "b"]), "c", variable="T"),
        lambda: pg.All(pg.AtMost(1, ["a", "b", "c"]), pg.Any("d", pg.Not(pg.AtLeast(2, ["a", "b", "c"]))), variable="T"),
        lambda: pg.All(pg.All(pg.Any("ab", "c"), "p", variable="P"), pg.All(pg.Any("a", "bc"), "q", variable="Q"), variable="T"),
        lambda: pg.All(pg.Any(pg.AtLeast(1, ["x1"]), "p", variable="P"), pg.Any(pg.AtLeast(11, [puan.variable("x", (0, 20))]), "q", variable="Q"), variable="T"),
        lambda: pg.Xor(pg.Any("a", "b"), pg.AtLeast(1, ["a", "b"], variable="N"), variable="T"),
        lambda: pg.All(pg.XNor("a", "b"), pg.Xor("a", "b", variable="X"), pg.Any("a", "b"), variable="T"),
        # a single child, thresholds <= 0 with the default sign, explicit positive sign with a non-positive threshold
        lambda: pg.All(pg.Any(x, variable="S"), pg.AtLeast(0, ["a", "b"], variable="Z"), variable="T"),
        lambda: pg.Any(pg.AtLeast(-1, [t, x], variable="P", sign=puan.Sign.POSITIVE), "a", variable="T"),
        lambda: pg.All(pg.AtLeast(0, [t], variable="P", sign=1), pg.AtMost(-1, [t, "a"], variable="Q"), variable="T"),
    ]
    out = []
    for f in mk:
        try:
            out.append(f())
        except Exception:
            pass
    return out


VARIANTS = [
    ("plain", {}, None),
    ("colliding-bounds-1", {(1, 2): (0, 3), (-1, 0): (-2, 0), (0, 1): (0, 1), (-2, 0): (-1, 0)}, None),
    ("colliding-bounds-2", {(0, 3): (1, 2), (-2, 2): (-1, 1), (-3, -1): (-2, -2)}, None),
    ("ids-without-spaces", {}, lambda s: s.replace(" ", "") if isinstance(s, str) else s),
]


def variants(model):
    """near-identical validated variants of a model, to be queried one after the other in one process"""
    out = []
    for name, bmap, idmap in VARIANTS:
        try:
            v = rebuild(model, bmap, idmap)
        except Exception:
            continue
        if v.errors() == [] and well_defined(v):
            out.append((name, v))
    return out
