"""rt.logic -- bounded stand-ins and end-to-end runtime checks for the plog properties (real code, native).

Each function(tier, seed) returns {name, evaluations, distinct_nontrivial, rule, exhaustive, violations:[...]}.
They are *bounded* checks: labelled as such in the evidence and never counted as proved.
"""
import itertools
import json
import random



def ints(b):
    try:
        return [int(x) for x in b.as_tuple()]
    except Exception:
        return repr(b)


from .gen import (leaf_pool, rand_model, leaves_of, assignments, is_var, ref_truth, solver_safe, well_defined)


def _result(name, rule):
    return {"name": name, "evaluations": 0, "distinct_nontrivial": 0, "rule": rule, "exhaustive": False, "violations": [],
            "_seen": set()}


def _finish(r):
    r["distinct_nontrivial"] = len(r.pop("_seen"))
    # one witness per distinct violation name (a known finding must not crowd out a different violation)
    by_name = {}
    for v in r["violations"]:
        by_name.setdefault(v["name"], v)
    r["violation_count"] = len(r["violations"])
    r["violations"] = list(by_name.values())[:40]
    return r


def _models(tier, seed, n_quick=120, n_thorough=1200, depth=2, width=3, **kw):
    import puan
    rng = random.Random(seed * 7919 + 13)
    pool = leaf_pool(9)
    n = n_quick if tier == "quick" else n_thorough
    out = 0
    tries = 0
    from .gen import special_models
    for m in special_models():
        try:
            if m.errors() == []:
                yield m, rng
        except Exception:
            pass
    while out < n and tries < 20 * n:
        tries += 1
        try:
            m = rand_model(rng, pool, depth=rng.randint(1, depth), width=width, **kw)
        except Exception:
            continue
        if is_var(m):
            continue
        if m.errors() != [] or not well_defined(m):
            continue
        out += 1
        yield m, rng


def _no_prefixed(m):
    return all(is_var(x) or x.bounds.as_tuple() == (0, 1) for x in m.flatten())


def _viol(r, name, witness, **detail):
    r["violations"].append(dict(name=name, witness=witness, **detail))


# ------------------------------------------------------------------------------------------------------------------
def c01_encoding(tier, seed):
    """C01: A x >= b on (leaf assignment + evaluated sub-proposition values) <=> model true; inactive: always feasible"""
    import numpy as np
    r = _result("rt.c01_encoding", "random validated models (all connective classes, depth<=3, width<=3, 8 leaf bound "
                "kinds incl. negative and 16-bit) x in-bounds leaf assignments (exhaustive when <=64 else sampled); "
                "non-trivial = distinct (model text, assignment) with both truth values seen per model counted once")
    import puan
    from .gen import variants, rebuild
    wide = [puan.variable("w1", (-32768, 32767)), puan.variable("w2", (0, 20000)), puan.variable("w3", (0, 2000000000)),
            puan.variable("w4", (-32768, 32767)), puan.variable("w5", (0, 2000000000))]
    import puan.logic.plog as pg
    stream = []
    for m, rng in _models(tier, seed, depth=3):
        stream.append((m, rng))          # the model as built (its own classes), then near-identical rebuilt variants
        stream.extend((v, rng) for n_, v in variants(m) if n_ != "plain")
    rngw = random.Random(seed + 17)
    for _ in range(30 if tier == "quick" else 200):
        a, b = rngw.sample(wide, 2)
        k = rngw.choice([1, 3, 20000, 40000, 3000000000, -5])
        inner = rngw.choice([lambda: pg.AtLeast(k, [a, b], variable="W"), lambda: pg.AtMost(abs(k), [a, b], variable="W"),
                             lambda: pg.AtLeast(k, [a, b, "c"], variable="W")])()
        stream.append((rngw.choice([lambda: pg.All(inner, "q", variable="T"), lambda: pg.Any(inner, "q", variable="T"),
                                    lambda: pg.Imply("q", inner, variable="T")])(), rngw))
    for m, rng in stream:
        if not _no_prefixed(m) or m.errors() != []:
            continue
        leaves = leaves_of(m)
        text = m.to_text()
        try:
            pa = m.to_ge_polyhedron(active=True)
            pi = m.to_ge_polyhedron(active=False)
        except BaseException as e:  # pyo3 panics are BaseException
            _viol(r, "c01.to_ge_polyhedron-raises", {"model": text}, error=repr(e)[:200])
            continue
        for env in assignments(leaves, rng, 24 if tier == "quick" else 96):
            props = m.evaluate_propositions(dict(env))
            val = ref_truth(m, env)
            r["evaluations"] += 1
            r["_seen"].add((text, val))
            for name, poly, active in (("active", pa, True), ("inactive", pi, False)):
                try:
                    x = np.array([int(props[v.id].constant) for v in poly.A.variables], dtype=object)
                except Exception as e:
                    _viol(r, "c01.column-without-value", {"model": text, "env": env}, error=repr(e))
                    continue
                # exact integer arithmetic (Python ints): the check itself must not overflow
                Ai = [[int(t) for t in row] for row in np.asarray(poly.A).tolist()]
                bi = [int(t) for t in np.asarray(poly.b).tolist()]
                sat = all(sum(a_ * int(x_) for a_, x_ in zip(row, x)) >= b_ for row, b_ in zip(Ai, bi))
                if active and sat != (val == 1):
                    _viol(r, "c01.active-disagrees", {"model": text, "env": env}, satisfied=sat, truth=val)
                if not active and not sat:
                    _viol(r, "c01.inactive-infeasible", {"model": text, "env": env})
            if props[m.id].constant != val:
                _viol(r, "c03.evaluate-vs-reference", {"model": text, "env": env}, got=str(props[m.id]), ref=val)
    return _finish(r)


def c02_solutions(tier, seed):
    """C02: every in-bounds integer point of the polyhedron of a solver-safe model has satisfying leaves; every satisfying
    leaf assignment extends to a point"""
    import numpy as np
    r = _result("rt.c02_solutions", "random validated solver-safe models over small-range leaves, ALL in-bounds integer points "
                "of the asserted polyhedron enumerated (<= 20000 per model, auxiliaries free); unsafe models are counted "
                "separately as reachability canaries (the converse may fail there)")
    import puan
    rng0 = random.Random(seed + 5)
    pool = [puan.variable(n, b) for n, b in zip("abcdef", [(0, 1), (0, 1), (0, 1), (-1, 0), (1, 2), (0, 3)])]
    n = 60 if tier == "quick" else 400
    done = 0
    canary = 0
    tries = 0
    from .gen import variants
    queue = []
    while done < n and tries < n * 30:
        tries += 1
        if not queue:
            m0 = rand_model(rng0, pool, depth=rng0.randint(1, 2), width=3)
            if is_var(m0) or m0.errors() != [] or not well_defined(m0) or not _no_prefixed(m0):
                continue
            queue = [v for _, v in variants(m0)]
            if not queue:
                continue
        m = queue.pop(0)
        poly = m.to_ge_polyhedron(active=True)
        cols = list(poly.A.variables)
        doms = [range(v.bounds.lower, v.bounds.upper + 1) for v in cols]
        size = 1
        for d in doms:
            size *= len(d)
        if size > 20000 or size == 0:
            continue
        safe = solver_safe(m)
        done += 1
        text = m.to_text()
        A, b = np.asarray(poly.A), np.asarray(poly.b)
        leaf_idx = [k for k, v in enumerate(cols) if is_var(v)]
        bad_unsafe = 0
        for pt in itertools.product(*doms):
            x = np.array(pt, dtype=np.int64)
            if not (A.dot(x) >= b).all():
                continue
            r["evaluations"] += 1
            env = {cols[k].id: int(x[k]) for k in leaf_idx}
            for v in leaves_of(m):
                env.setdefault(v.id, v.bounds.lower)
            t = ref_truth(m, env)
            r["_seen"].add((text, t))
            if t != 1:
                if safe:
                    _viol(r, "c02.safe-model-point-violates", {"model": text, "point": {str(c.id): int(v) for c, v in zip(cols, x)}})
                else:
                    bad_unsafe += 1
        canary += 1 if bad_unsafe else 0
        # completeness: every satisfying leaf assignment (enumerated from the MODEL's own leaf bounds) extends to a point
        import pickle as _pk
        for env in assignments(leaves_of(m), rng0, 32):
            if ref_truth(m, env) != 1:
                continue
            props = _pk.loads(_pk.dumps(m)).evaluate_propositions(dict(env))
            try:
                x = [int(props[c.id].constant) for c in cols]
            except Exception:
                _viol(r, "c02.valid-configuration-lost", {"model": text, "env": {str(k): v for k, v in env.items()}}, reason="column without value")
                continue
            r["evaluations"] += 1
            inb = all(c.bounds.lower <= xi <= c.bounds.upper for c, xi in zip(cols, x))
            sat = all(sum(int(a_) * xi for a_, xi in zip(row, x)) >= int(b_) for row, b_ in zip(A.tolist(), b.tolist()))
            if not (inb and sat):
                _viol(r, "c02.valid-configuration-lost", {"model": text, "env": {str(k): v for k, v in env.items()}},
                      in_bounds=inb, satisfied=sat)
    # wide integer leaves: sampled in-bounds points of the polyhedron of safe models (exact integer arithmetic)
    import puan.logic.plog as pg
    wide = [puan.variable("w1", (0, 2000000000)), puan.variable("w2", (0, 2000000000)), puan.variable("w3", (-32768, 32767)),
            puan.variable("w4", (0, 20000))]
    for _ in range(20 if tier == "quick" else 150):
        a, b2 = rng0.sample(wide, 2)
        k = rng0.choice([3000000000, 2500000000, 40000, 30000, 1])
        m = rng0.choice([lambda: pg.All(pg.AtLeast(k, [a, b2], variable="W"), "q", variable="T"),
                         lambda: pg.Any(pg.AtLeast(k, [a, b2], variable="W"), "q", variable="T")])()
        if m.errors() != [] or not solver_safe(m):
            continue
        poly = m.to_ge_polyhedron(active=True)
        cols = list(poly.A.variables)
        Al = [[int(t) for t in row] for row in np.asarray(poly.A).tolist()]
        bl = [int(t) for t in np.asarray(poly.b).tolist()]
        for _k in range(60):
            x = []
            for c in cols:
                lo, hi = c.bounds.lower, c.bounds.upper
                x.append(rng0.choice([lo, hi, (lo + hi) // 2, min(hi, max(lo, k // 2)), min(hi, max(lo, k - 1)), min(hi, max(lo, k // 2 + 1)),
                                      rng0.randint(lo, hi)]))
            if not all(sum(a_ * xi for a_, xi in zip(row, x)) >= b_ for row, b_ in zip(Al, bl)):
                continue
            env = {c.id: xi for c, xi in zip(cols, x) if is_var(c)}
            r["evaluations"] += 1
            r["_seen"].add((m.to_text(), "wide"))
            if ref_truth(m, env) != 1:
                _viol(r, "c02.safe-model-point-violates", {"model": m.to_text(), "point": {str(c.id): xi for c, xi in zip(cols, x)}})
    r["unsafe_models_with_spurious_points"] = canary
    return _finish(r)


def c03_evaluate_glue(tier, seed):
    """C03 glue: evaluate == top entry of evaluate_propositions; every entry is the reference truth value; overrides of
    sub-proposition ids are honoured (fresh model per call: the known assume() leak must not contaminate)"""
    r = _result("rt.c03_evaluate_glue", "random validated models x total interpretations given as int / tuple / Bounds "
                "(mixed) x override of one sub-proposition id or of the model's own id as int / numpy int / (c,c) / Bounds(c,c); non-trivial = distinct (model, value)")
    import puan
    import pickle
    for m0, rng in _models(tier, seed + 1, depth=3):
        blob = pickle.dumps(m0)
        leaves = leaves_of(m0)
        text = m0.to_text()
        subs = [x for x in m0.flatten() if not is_var(x)]
        for env in assignments(leaves, rng, 12 if tier == "quick" else 40):
            forms = {}
            for k, v in env.items():
                f = rng.randrange(3)
                forms[k] = v if f == 0 else (v, v) if f == 1 else puan.Bounds(v, v)
            m = pickle.loads(blob)
            props = m.evaluate_propositions(dict(forms))
            m = pickle.loads(blob)
            top = m.evaluate(dict(forms))
            r["evaluations"] += 1
            if top != props[m.id]:
                _viol(r, "c03.evaluate-not-top-entry", {"model": text, "env": env})
            for s in subs:
                want = ref_truth(s, env) if s.bounds.constant is None else s.bounds.constant
                # a pre-fixed node takes its constant; its parents see that constant
            def ref3(n):
                if is_var(n):
                    return env[n.id]
                if n.bounds.constant is not None:
                    return n.bounds.constant
                return 1 if n.sign * sum(ref3(c) for c in n.propositions) >= n.value else 0
            for s in subs:
                if props[s.id].constant != ref3(s):
                    _viol(r, "c03.entry-vs-reference", {"model": text, "env": env, "node": str(s.id)},
                          got=str(props[s.id]), ref=ref3(s))
            r["_seen"].add((text, ref3(m0)))
            # override one sub-proposition id
            if subs:
                s = rng.choice(subs)                      # an inner sub-proposition or the model's own id
                c = rng.randrange(2)
                m = pickle.loads(blob)
                f2 = dict(forms)
                import numpy as _np
                f2[s.id] = rng.choice([c, (c, c), puan.Bounds(c, c), _np.int64(c)])

                def ref4(n):
                    if is_var(n):
                        return env[n.id]
                    if n.id == s.id:
                        return c
                    if n.bounds.constant is not None:
                        return n.bounds.constant
                    return 1 if n.sign * sum(ref4(x) for x in n.propositions) >= n.value else 0
                got = m.evaluate(f2)
                if got.constant != ref4(m0) or tuple(got.as_tuple()) != (ref4(m0), ref4(m0)):
                    _viol(r, "c03.override-not-honoured", {"model": text, "env": env, "override": {str(s.id): repr(f2[s.id])}},
                          got=str(got), ref=ref4(m0))
                m = pickle.loads(blob)
                top2 = m.evaluate_propositions(dict(f2)).get(m0.id)
                if top2 != got:
                    _viol(r, "c03.evaluate-not-top-entry", {"model": text, "env": env, "override": {str(s.id): repr(f2[s.id])}},
                          evaluate=str(got), top_entry=str(top2))
    return _finish(r)


def c05_negation_e2e(tier, seed):
    """C05 end to end: negate()/Not evaluate to the complement; safe + boolean leaves stays safe; explicit id kept"""
    r = _result("rt.c05_negation_e2e", "random validated models (all classes, integer leaves) x in-bounds assignments; "
                "non-trivial = distinct (model, truth value)")
    import puan.logic.plog as pg
    import pickle
    for m0, rng in _models(tier, seed + 2, depth=3):
        if not _no_prefixed(m0):
            continue
        blob = pickle.dumps(m0)
        text = m0.to_text()
        neg = pickle.loads(blob).negate()
        if not m0.generated_id and neg.id != m0.id:
            _viol(r, "c05.id-not-kept", {"model": text})
        boolean = all(v.bounds.as_tuple() == (0, 1) for v in leaves_of(m0))
        if solver_safe(m0) and boolean and not solver_safe(neg):
            _viol(r, "c05.safe-form-lost", {"model": text, "negated": neg.to_text()})
        for env in assignments(leaves_of(m0), rng, 24 if tier == "quick" else 64):
            a = ref_truth(m0, env)
            b = pickle.loads(blob).negate().evaluate(dict(env))
            r["evaluations"] += 1
            r["_seen"].add((text, a))
            if b.constant != 1 - a:
                _viol(r, "c05.not-complement", {"model": text, "env": env}, original=a, negated=str(b))
    # an explicitly given id is kept: every way of giving it (str / puan.variable), ids that look like generated ones,
    # through negate(), Not() and a double negation
    import puan
    for ident in ("N", "VAR", "VARIANT-7", "VAR_colour", "var1", "VAR" + "0" * 64, "x y", "1"):
        for how in ("str", "variable"):
            for shape in (lambda v: pg.Any("a", "b", variable=v), lambda v: pg.All(pg.Any("a", "b", variable="Q"), "c", variable=v),
                          lambda v: pg.AtLeast(2, ["a", "b", "c"], variable=v), lambda v: pg.AtMost(1, ["a", "b"], variable=v),
                          lambda v: pg.Imply("a", "b", variable=v), lambda v: pg.Xor("a", "b", variable=v)):
                mk = lambda: shape(ident if how == "str" else puan.variable(ident))
                try:
                    m = mk()
                except Exception:
                    continue
                if m.errors() != []:
                    continue
                for route, f in (("negate", lambda x: x.negate()), ("Not", lambda x: pg.Not(x)),
                                 ("negate.negate", lambda x: x.negate().negate()), ("Not.Not", lambda x: pg.Not(pg.Not(x)))):
                    got = f(mk())
                    r["evaluations"] += 1
                    r["_seen"].add(("id", how, route))
                    if got.id != ident:
                        _viol(r, "c05.id-not-kept", {"model": m.to_text(), "id": ident, "given_as": how, "route": route}, got=str(got.id))
    return _finish(r)


def c07_assume_compose(tier, seed):
    """C07 as stated: assume(a).evaluate(r) == evaluate(a | r) for assumptions in every value form"""
    import puan
    import pickle
    r = _result("rt.c07_assume_compose", "random validated models (integer leaves, nested, shared) x assumption dictionaries over a "
                "random subset of leaf ids and sub-proposition ids (int / (lo,hi) range / puan.Bounds / constant tuple; "
                "sub-proposition ids with 0, 1 or (0,1)) x total and partial interpretations of the remaining leaves; "
                "compared on fresh copies; non-trivial = distinct (model, value forms used, result)")
    for m0, rng in _models(tier, seed + 77, depth=3, n_quick=90, n_thorough=900):
        blob = pickle.dumps(m0)
        leaves = leaves_of(m0)
        text = m0.to_text()
        comps = [x for x in m0.flatten() if not is_var(x)]          # sub-propositions and the model's own id
        for _ in range(6 if tier == "quick" else 16):
            a, forms = {}, []
            for v in rng.sample(leaves, rng.randint(0, len(leaves))):
                lo, hi = v.bounds.as_tuple()
                form = rng.choice(["int", "range", "bounds", "const-tuple"])
                if form == "int":
                    a[v.id] = rng.randint(lo, hi)
                elif form == "const-tuple":
                    k = rng.randint(lo, hi)
                    a[v.id] = (k, k)
                else:
                    x, y = sorted((rng.randint(lo, hi), rng.randint(lo, hi)))
                    a[v.id] = (x, y) if form == "range" else puan.Bounds(x, y)
                forms.append(form)
            if comps and rng.random() < 0.4:
                cnode = rng.choice(comps)
                a[cnode.id] = rng.choice([0, 1, (0, 1), puan.Bounds(0, 1), (1, 1)])
                forms.append("sub-proposition")
            rest = [v for v in leaves if v.id not in a]
            for total in (True, False):
                rr = {}
                for v in rest:
                    if total or rng.random() < 0.5:
                        rr[v.id] = rng.randint(*v.bounds.as_tuple())
                try:
                    two = pickle.loads(blob).assume(dict(a)).evaluate(dict(rr))
                    one = pickle.loads(blob).evaluate({**a, **rr})
                except Exception as e:
                    _viol(r, "c07.raises", {"model": text, "assumption": _plain(a), "rest": rr}, error=repr(e)[:200])
                    continue
                r["evaluations"] += 1
                r["_seen"].add((text, tuple(sorted(set(forms))), tuple(one.as_tuple())))
                if tuple(two.as_tuple()) != tuple(one.as_tuple()):
                    _viol(r, "c07.assume-then-evaluate-differs", {"model": text, "assumption": _plain(a), "rest": rr},
                          assume_then_evaluate=ints(two), evaluate_union=ints(one))
    return _finish(r)


def _plain(d):
    out = {}
    for k, v in d.items():
        out[str(k)] = ints(v) if hasattr(v, "as_tuple") else (list(v) if isinstance(v, tuple) else v)
    return out


def c04_json_and_rules(tier, seed):
    """C04 via the JSON constructor and the rule-dictionary constructor (from_cicJE): truth tables against the documented
    connectives"""
    import puan
    import puan.logic.plog as pg
    r = _result("rt.c04_json_and_rules", "all JSON records {type in All/Any/AtLeast/AtMost/Xor/XNor/Imply/Not} over <=3 boolean "
                "leaves nested to depth 2 (sampled; at-most-k incl. k = -1), and all cicJE rules (5 rule types x ALL/ANY relation x 0..2 sub-conditions "
                "x ALL/ANY inner x groups of 1, 2 and 3 components x with/without explicit group ids) x all 0/1 assignments; non-trivial = distinct (record, truth value)")
    rng = random.Random(seed + 3)
    names = ["a", "b", "c", "d"]

    def rec(d):
        if d == 0 or rng.random() < 0.3:
            return {"id": rng.choice(names)}, None
        t = rng.choice(["All", "Any", "AtLeast", "AtMost", "Xor", "XNor", "Imply", "Not"])
        if t == "Imply":
            c1, c2 = rec(d - 1), rec(d - 1)
            return {"type": "Imply", "condition": c1[0], "consequence": c2[0]}, ("Imply", [c1, c2])
        if t == "Not":
            c1 = rec(d - 1)
            return {"type": "Not", "proposition": c1[0]}, ("Not", [c1])
        k = rng.randint(1, 3)
        subs, seen = [], set()
        for _ in range(k):
            s = rec(d - 1)
            key = json.dumps(s[0], sort_keys=True)
            if key in seen:
                continue
            seen.add(key)
            subs.append(s)
        out = {"type": t, "propositions": [s[0] for s in subs]}
        if t in ("AtLeast", "AtMost"):
            # at-least-k is documented for k >= 1 (value <= 0 selects the negative default sign); at-most-k for k >= 0
            out["value"] = rng.randint(1 if t == "AtLeast" else -1, len(subs))
            return out, (t, subs, out["value"])
        return out, (t, subs)

    def ev(spec, data, env):
        if spec is None:
            return env[data["id"]]
        t = spec[0]
        vals = [ev(s[1], s[0], env) for s in spec[1]]
        if t == "All": return int(all(vals))
        if t == "Any": return int(any(vals))
        if t == "AtLeast": return int(sum(vals) >= spec[2])
        if t == "AtMost": return int(sum(vals) <= spec[2])
        if t == "Xor": return int(sum(vals) == 1)
        if t == "XNor": return int(sum(vals) != 1)
        if t == "Imply": return int((not vals[0]) or vals[1])
        if t == "Not": return int(not vals[0])

    n = 150 if tier == "quick" else 1500
    for _ in range(n):
        data, spec = rec(2)
        if spec is None:
            continue
        try:
            m = pg.from_json(json.loads(json.dumps(data)))
        except Exception as e:
            _viol(r, "c04.from_json-raises", {"record": data}, error=repr(e))
            continue
        if is_var(m) or m.errors() != []:
            continue
        for bits in itertools.product((0, 1), repeat=len(names)):
            env = dict(zip(names, bits))
            want = ev(spec, data, env)
            got = pg.from_json(json.loads(json.dumps(data))).evaluate(dict(env))
            r["evaluations"] += 1
            r["_seen"].add((json.dumps(data, sort_keys=True), want))
            if got.constant != want:
                _viol(r, "c04.json-truth-table", {"record": data, "env": env}, got=str(got), want=want)
    # rule dictionaries
    comps = lambda xs: [{"id": x} for x in xs]
    rule_types = {"REQUIRES_ALL": lambda v: int(all(v)), "REQUIRES_ANY": lambda v: int(any(v)),
                  "ONE_OR_NONE": lambda v: int(sum(v) <= 1), "FORBIDS_ALL": lambda v: int(not any(v)),
                  "REQUIRES_EXCLUSIVELY": lambda v: int(sum(v) == 1)}
    rel = {"ALL": all, "ANY": any}
    sub_sets = ([], [("ALL", ["a", "b"])], [("ANY", ["a", "b"])], [("ALL", ["a"]), ("ANY", ["b", "c"])],
                [("ANY", ["a", "c"]), ("ALL", ["b", "c"])], [("ALL", ["a"])], [("ANY", ["b"])], [("ANY", ["a"]), ("ALL", ["b"])])
    for rt_, fn in rule_types.items():
        for outer in ("ALL", "ANY"):
            for subs in sub_sets:
                # groups of one, two and three components; with and without explicit ids on the groups
                for cons_ids in (["x", "y", "z"], ["x", "y"], ["x"]):
                    for with_ids in (False, True):
                        if outer == "ANY" and not subs:
                            continue
                        data = {"consequence": {"ruleType": rt_, "components": comps(cons_ids)}}
                        if with_ids:
                            data["consequence"]["id"] = "CONS"
                            data["id"] = "RULE"
                        if subs:
                            data["condition"] = {"relation": outer, "subConditions": [
                                dict({"relation": r_, "components": comps(cs)}, **({"id": "SUB%d" % i} if with_ids else {}))
                                for i, (r_, cs) in enumerate(subs)]}
                            if with_ids:
                                data["condition"]["id"] = "COND"
                        try:
                            m = pg.Imply.from_cicJE(json.loads(json.dumps(data)))
                        except Exception as e:
                            _viol(r, "c04.from_cicJE-raises", {"rule": data}, error=repr(e))
                            continue
                        used = sorted(set(cons_ids) | {k for _, cs in subs for k in cs})
                        for bits in itertools.product((0, 1), repeat=len(used)):
                            env = dict(zip(used, bits))
                            cons = fn([env[k] for k in cons_ids])
                            if subs:
                                cond = rel[outer]([rel[r_]([env[k] for k in cs]) for r_, cs in subs])
                                want = int((not cond) or cons)
                            else:
                                want = cons
                            got = pg.Imply.from_cicJE(json.loads(json.dumps(data))).evaluate(dict(env))
                            r["evaluations"] += 1
                            r["_seen"].add((rt_, outer, len(subs), len(cons_ids), with_ids, want))
                            if got.constant != want:
                                _viol(r, "c04.cicJE-truth-table", {"rule": data, "env": env}, got=str(got), want=want)
    # the constructors take any iterable of propositions: lists, tuples, generators, map objects, mixed ids / objects
    for kind in ("list", "tuple", "generator", "map", "iter"):
        for items in (["a", "b", "c"], ["a", puan.variable("b"), "c"], [pg.Any("a", "b", variable="Q"), "c", "d"]):
            for cls, k in (("AtLeast", 2), ("AtMost", 1), ("AtLeast", 1)):
                def arg():
                    if kind == "list": return list(items)
                    if kind == "tuple": return tuple(items)
                    if kind == "generator": return (x for x in items)
                    if kind == "map": return map(lambda x: x, items)
                    return iter(items)
                try:
                    mk = (lambda: pg.AtLeast(k, arg(), variable="T")) if cls == "AtLeast" else (lambda: pg.AtMost(k, arg(), variable="T"))
                    m = mk()
                except Exception as e:
                    _viol(r, "c04.constructor-raises-on-iterable", {"class": cls, "argument": kind, "items": [str(x) for x in items]}, error=repr(e))
                    continue
                if m.errors() != []:
                    continue
                for bits in itertools.product((0, 1), repeat=4):
                    env = dict(zip("abcd", bits))
                    vals = [env[x] if isinstance(x, str) else (env[x.id] if is_var(x) else int(env["a"] or env["b"])) for x in items]
                    want = int(sum(vals) >= k) if cls == "AtLeast" else int(sum(vals) <= k)
                    got = mk().evaluate(dict(env))
                    r["evaluations"] += 1
                    r["_seen"].add((cls, kind, want))
                    if got.constant != want:
                        _viol(r, "c04.constructor-truth-table", {"class": cls, "argument": kind, "items": [str(getattr(x, "id", x)) for x in items], "k": k, "env": env},
                              got=str(got), want=want)
    return _finish(r)


def c16_json_roundtrip(tier, seed):
    """C16: from_json(json.loads(json.dumps(to_json(m)))) has the same leaves/bounds, evaluates identically, keeps explicit
    ids and emits none for generated ones"""
    import puan.logic.plog as pg
    r = _result("rt.c16_json_roundtrip", "random validated models of every JSON class (explicit and generated ids, integer leaf "
                "bounds, explicit signs on AtLeast) x in-bounds assignments; non-trivial = distinct (model, truth value)")
    import pickle
    for m0, rng in _models(tier, seed + 4, depth=3, ids=None):
        pass
    for use_ids in (True, False):
        for m0, rng in _models(tier, seed + 4 + use_ids, n_quick=80, n_thorough=600, depth=3, ids=use_ids):
            text = m0.to_text()
            try:
                js = json.loads(json.dumps(pickle.loads(pickle.dumps(m0)).to_json()))
                m1 = pg.from_json(js)
            except Exception as e:
                _viol(r, "c16.roundtrip-raises", {"model": text}, error=repr(e)[:300])
                continue
            l0 = {v.id: v.bounds.as_tuple() for v in leaves_of(m0)}
            l1 = {v.id: v.bounds.as_tuple() for v in leaves_of(m1)} if not is_var(m1) else {m1.id: m1.bounds.as_tuple()}
            if l0 != l1:
                _viol(r, "c16.leaves-differ", {"model": text, "json": js}, before=str(l0), after=str(l1))
                continue
            if use_ids and not m0.generated_id and m1.id != m0.id:
                _viol(r, "c16.explicit-id-lost", {"model": text, "json": js})
            if m0.generated_id and "id" in js:
                _viol(r, "c16.generated-id-emitted", {"model": text, "json": js})
            for env in assignments(leaves_of(m0), rng, 16 if tier == "quick" else 48):
                a = ref_truth(m0, env)
                b = pg.from_json(json.loads(json.dumps(js))).evaluate(dict(env))
                r["evaluations"] += 1
                r["_seen"].add((text, a))
                if b.constant != a:
                    _viol(r, "c16.meaning-changed", {"model": text, "json": js, "env": env}, before=a, after=str(b))
    # explicit ids in every position and form: given as str or as puan.variable, ids that look like generated ones, on
    # nodes that are negated inside Imply / Not / XNor, nested
    import puan

    def ids_in(js_):
        out = []
        if isinstance(js_, dict):
            if "id" in js_:
                out.append(js_["id"])
            for v in js_.values():
                out += ids_in(v)
        elif isinstance(js_, list):
            for v in js_:
                out += ids_in(v)
        return out
    for ident in ("K", "VARIANT_1", "VAR", "VAR_x", "var2", "VAR" + "a" * 64):
        for how in ("str", "variable"):
            vv = (lambda i: i) if how == "str" else (lambda i: puan.variable(i))
            shapes = [
                lambda: pg.Imply(pg.All("a", puan.variable("n", (-1, 2)), variable=vv(ident)), "b", variable="TOP"),
                lambda: pg.All(pg.Not(pg.Any("a", "b", variable=vv(ident))), "c", variable="TOP"),
                lambda: pg.XNor(pg.All("a", "b", variable=vv(ident)), "c", variable="TOP"),
                lambda: pg.Imply("a", pg.Xor("b", "c", variable=vv(ident)), variable="TOP"),
                lambda: pg.All(pg.Imply(pg.AtMost(1, ["a", "b"], variable=vv(ident)), "c", variable="I"), "d", variable="TOP"),
                lambda: pg.Any("a", "b", variable=vv(ident)),
            ]
            for mk in shapes:
                try:
                    m = mk()
                except Exception:
                    continue
                if m.errors() != []:
                    continue
                js = json.loads(json.dumps(m.to_json()))
                back = pg.from_json(js)
                r["evaluations"] += 1
                r["_seen"].add(("explicit-id", how, ident[:4]))
                if ident not in ids_in(js) or ident not in [x.id for x in ([back] if is_var(back) else back.flatten())]:
                    _viol(r, "c16.explicit-id-lost", {"model": m.to_text(), "json": js, "id": ident, "given_as": how})
                for env in assignments(leaves_of(m), None, 32):
                    if pg.from_json(json.loads(json.dumps(js))).evaluate(dict(env)).constant != ref_truth(m, env):
                        _viol(r, "c16.meaning-changed", {"model": m.to_text(), "json": js, "env": env})
                        break
    # Imply / Not around an ANONYMOUS node over one leaf, every small threshold and both signs (a writer that "unwraps" such a
    # condition back to the bare variable must not lose threshold or sign)
    import puan
    for sgn in (1, -1):
        for v in (-2, -1, 0, 1, 2):
            for b in ((0, 1), (-1, 1), (0, 3), (-2, 0)):
                for kind in ("imply-condition", "imply-consequence", "not"):
                    def mk():
                        inner = pg.AtLeast(v, [puan.variable("x", b)], sign=sgn)
                        if kind == "imply-condition":
                            return pg.Imply(inner, "y", variable="T")
                        if kind == "imply-consequence":
                            return pg.Imply("y", inner, variable="T")
                        return pg.All(pg.Not(inner), "y", variable="T")
                    m = mk()
                    if m.errors() != []:
                        continue
                    js = json.loads(json.dumps(m.to_json()))
                    r["evaluations"] += 1
                    r["_seen"].add(("anonymous-single-leaf", kind, sgn, v))
                    for x in range(b[0], b[1] + 1):
                        for y in (0, 1):
                            env = {"x": x, "y": y}
                            if pg.from_json(json.loads(json.dumps(js))).evaluate(dict(env)).constant != mk().evaluate(dict(env)).constant:
                                _viol(r, "c16.meaning-changed", {"model": m.to_text(), "json": js, "env": env})
    return _finish(r)


def c10_validation(tier, seed):
    """C10 both directions on adversarial palettes"""
    import puan
    import puan.logic.plog as pg
    r = _result("rt.c10_validation", "(a) soundness: random models with deliberately reused ids (equal ids with different bounds "
                "incl. equal-sum and -1/-2 hash-colliding bounds, reused compound ids with different definitions, duplicate "
                "children): errors()==[] must imply the reference well-definedness; (b) completeness: trees with pairwise "
                "distinct ids (incl. ids containing '-', integer-like ids) and models sharing identical sub-propositions must "
                "be accepted; non-trivial = distinct (direction, verdict, reference)")
    rng = random.Random(seed + 9)
    n = 400 if tier == "quick" else 4000
    bounds_palette = [(0, 1), (0, 3), (1, 2), (-1, 0), (-2, 0), (0, 0), (1, 1), (-3, 3), (-2, 2)]
    idpal = ["a", "b", "c", "a-b", "b-c", "c", "x", "a-b-c", "1", "-"]
    for _ in range(n):
        # adversarial: few ids, many bounds
        def leaf():
            return puan.variable(rng.choice(idpal[:5]), rng.choice(bounds_palette))

        def node(d):
            k = rng.randint(1, 3)
            ch = [leaf() if d == 0 or rng.random() < 0.5 else node(d - 1) for _ in range(k)]
            vid = rng.choice(["A", "B", "C", None, None])
            try:
                if rng.random() < 0.5:
                    return pg.AtLeast(rng.randint(0, 2), ch, variable=vid, sign=rng.choice([1, -1, None]))
                return rng.choice([pg.All, pg.Any])(*ch, variable=vid)
            except Exception:
                return leaf()
        m = node(2)
        if is_var(m):
            continue
        try:
            errs = m.errors()
        except Exception as e:
            _viol(r, "c10.errors-raises", {"model": repr(m)}, error=repr(e))
            continue
        wd = _wd_strict(m)
        r["evaluations"] += 1
        r["_seen"].add(("sound", errs == [], wd))
        if errs == [] and not wd:
            _viol(r, "c10.accepts-ill-defined", {"model": _dump(m)})
    # completeness: distinct ids
    for _ in range(n // 2):
        ids = rng.sample(sorted(set(idpal + ["p", "q", "r", "s", "p-q", "q-r", "a", "b-c"])), 8)
        it = iter(ids)

        def tnode(d):
            k = rng.randint(1, 2)
            ch = []
            for _ in range(k):
                try:
                    ch.append(puan.variable(next(it), rng.choice(bounds_palette)) if d == 0 or rng.random() < 0.5 else tnode(d - 1))
                except StopIteration:
                    break
            if not ch:
                raise StopIteration
            return pg.AtLeast(rng.randint(0, 2), ch, variable=next(it), sign=rng.choice([1, -1]))
        try:
            m = tnode(2)
        except (StopIteration, RuntimeError):
            continue
        errs = m.errors()
        r["evaluations"] += 1
        r["_seen"].add(("complete", errs == [], True))
        if errs != []:
            _viol(r, "c10.rejects-distinct-id-tree", {"model": _dump(m)}, errors=[str(e) for e in errs])
    # deterministic adversarial trees with pairwise distinct ids whose "parent-child" strings coincide
    for spec in ([("a-b", "c"), ("a", "b-c")], [("p", "q-r"), ("p-q", "r")], [("1", "-2"), ("1-", "2")]):
        kids = [pg.AtLeast(1, [puan.variable(ch)], variable=par) for par, ch in spec]
        m = pg.All(*kids, variable="TOP")
        errs = m.errors()
        r["evaluations"] += 1
        r["_seen"].add(("complete-dash", errs == [], True))
        if errs != []:
            _viol(r, "c10.rejects-distinct-id-tree", {"model": _dump(m)}, errors=[str(e) for e in errs])
    # ids that differ only in blanks / quotes / commas (texts of the definitions coincide once such characters are dropped):
    # (a) one id defined twice with children that differ only in that way -> two definitions, must be rejected;
    # (b) pairwise distinct ids that are equal up to such characters -> a plain tree, must be accepted
    for strip in (" ", "'", ",", "_"):
        x1, x2, y1, y2 = "x" + strip + "1", "x1", "y" + strip + "1", "y1"
        m = pg.All(pg.Any(pg.AtLeast(1, [x1, y1], variable="B"), "u", variable="U"),
                   pg.Any(pg.AtLeast(1, [x2, y2], variable="B"), "w", variable="W"), variable="TOP")
        errs = m.errors()
        r["evaluations"] += 1
        r["_seen"].add(("sound-blank", strip, errs == []))
        if errs == []:
            _viol(r, "c10.accepts-ill-defined", {"model": _dump(m)}, note="id B has two definitions whose child ids differ only in %r" % strip)
        m = pg.All(pg.Any(pg.AtLeast(1, [x1, y1], variable="opt" + strip + "1"), "u", variable="U"),
                   pg.Any(pg.AtLeast(1, [x2, y2], variable="opt1"), "w", variable="W"), variable="TOP")
        errs = m.errors()
        r["evaluations"] += 1
        r["_seen"].add(("complete-blank", strip, errs == []))
        if errs != []:
            _viol(r, "c10.rejects-distinct-id-tree", {"model": _dump(m)}, errors=[str(e) for e in errs])
    # deterministic hash-colliding definitions of one id
    for b1, b2 in (((0, 3), (1, 2)), ((-1, 0), (-2, 0)), ((0, 0), (-2, 2)), ((-1, 5), (-2, 5))):
        m = pg.All(pg.Any(puan.variable("v", b1), "u", variable="U"), pg.Any(puan.variable("v", b2), "w", variable="W"),
                   variable="TOP")
        errs = m.errors()
        r["evaluations"] += 1
        r["_seen"].add(("sound-collide", errs == [], False))
        if errs == []:
            _viol(r, "c10.accepts-ill-defined", {"model": _dump(m)})
    # two non-sibling sub-propositions with one id, same sign/value/children ids, whose leaves have swapped hash-colliding
    # bounds (equal equation bounds); and ids containing ',' so that "a","b" and "a,b" print alike
    def two(b1, b2, b3, b4):
        return pg.All(pg.Any(pg.AtLeast(2, [puan.variable("x", b1), puan.variable("y", b2)], variable="B"), "u", variable="U"),
                      pg.Any(pg.AtLeast(2, [puan.variable("x", b3), puan.variable("y", b4)], variable="B"), "w", variable="W"),
                      variable="TOP")
    shapes = [two((0, 3), (1, 2), (1, 2), (0, 3)), two((-1, 0), (-2, 0), (-2, 0), (-1, 0)),
              pg.All(pg.Any(pg.AtLeast(1, ["a", "b"], variable="B"), "u", variable="U"),
                     pg.Any(pg.AtLeast(1, ["a,b"], variable="B"), "w", variable="W"), variable="TOP"),
              pg.All(pg.Any(pg.AtLeast(1, ["a", "b"], variable="B"), "u", variable="U"),
                     pg.Any(pg.AtLeast(1, ["a", "b", "c"], variable="B"), "w", variable="W"), variable="TOP"),
              pg.All(pg.Any(pg.AtLeast(1, ["a", "b"], variable="B"), "u", variable="U"),
                     pg.Any(pg.AtLeast(1, ["a", "b"], variable="B", sign=-1), "w", variable="W"), variable="TOP")]
    # generated-id coincidences: unnamed sub-propositions whose library-made ids coincide although their definitions
    # differ (the generator concatenates child ids, value and sign)
    def gen_pair(p, q):
        if p.id != q.id:
            return None
        return pg.All(pg.All(p, "p", variable="P"), pg.All(q, "q", variable="Q"), variable="TOP")
    for mk in (lambda: gen_pair(pg.Any("ab", "c"), pg.Any("a", "bc")),
               lambda: gen_pair(pg.AtLeast(1, ["x1"]), pg.AtLeast(11, [puan.variable("x", (0, 20))])),
               lambda: gen_pair(pg.Any("k", "lm"), pg.Any("kl", "m")),
               lambda: gen_pair(pg.All("ab", "c"), pg.All("a", "bc")),
               lambda: gen_pair(pg.AtMost(1, ["ab", "c"]), pg.AtMost(1, ["a", "bc"]))):
        try:
            m = mk()
        except Exception:
            m = None
        if m is not None:
            shapes.append(m)
    # an ill-defined sub-proposition whose id is ALSO used by a plain variable with the same bounds elsewhere (the leaf must
    # not hide the sub-proposition from any check), and cycles closed through references with fixed bounds
    def V(i, b):
        return puan.variable(i, b)
    for mk in (lambda: pg.All(pg.Any("N", "y", variable="C"), pg.Any("x", "x", variable="N"), variable="A"),
               lambda: pg.All(pg.Any("x", "x", variable="N"), pg.Any("N", "y", variable="C"), variable="Z"),
               lambda: pg.All(pg.Any("N", "y", variable="C"), pg.Any(pg.Any("p", "q", variable="D"), pg.Any("q", "r", variable="D"), variable="N"), variable="A"),
               lambda: pg.All(V("A", (1, 1)), "x", variable=V("A", (1, 1))),
               lambda: pg.All(V("A", (0, 0)), "x", variable=V("A", (0, 0))),
               lambda: pg.All(pg.Any(V("A", (1, 1)), "y", variable="B"), "x", variable=V("A", (1, 1))),
               lambda: pg.All(pg.Not(pg.Any(V("A", (1, 1)), "y", variable="B")), "x", variable=V("A", (1, 1))),
               lambda: pg.All(pg.Any(V("Q", (0, 0)), "y", variable=V("P", (0, 0))), pg.Any(V("P", (0, 0)), "z", variable=V("Q", (0, 0))), variable="T")):
        try:
            shapes.append(mk())
        except Exception:
            pass
    for m in shapes:
        errs = m.errors()
        r["evaluations"] += 1
        r["_seen"].add(("sound-shapes", errs == [], _wd_strict(m)))
        if errs == [] and not _wd_strict(m):
            _viol(r, "c10.accepts-ill-defined", {"model": _dump(m)})
    # identical sharing
    for _ in range(n // 4):
        shared = pg.Any(puan.variable("s1", rng.choice(bounds_palette)), "s2", variable=rng.choice(["S", None]))
        m = pg.All(pg.Any(shared, "u", variable="U"), pg.AtLeast(1, [shared, "w"], variable="W"), variable="T")
        errs = m.errors()
        r["evaluations"] += 1
        r["_seen"].add(("share", errs == [], True))
        if errs != []:
            _viol(r, "c10.rejects-identical-sharing", {"model": _dump(m)}, errors=[str(e) for e in errs])
    return _finish(r)


def _dump(m):
    def d(n):
        if is_var(n):
            return [str(n.id), list(n.bounds.as_tuple())]
        return [str(n.id), int(n.sign), n.value, list(n.bounds.as_tuple()), [d(c) for c in n.propositions]]
    return d(m)


def _wd_strict(model):
    """reference well-definedness over *every occurrence* (no set-based deduplication)"""
    defs = {}
    ok = True
    onpath = []

    def sig(n):
        if is_var(n):
            return ("v", tuple(n.bounds.as_tuple()))
        return ("c", int(n.sign), n.value, tuple(sorted((str(c.id), sig(c)) for c in n.propositions)),
                tuple(n.bounds.as_tuple()))

    def walk(n):
        nonlocal ok
        if n.id in onpath:
            ok = False
            return
        s = sig(n)
        if n.id in defs and defs[n.id] != s:
            ok = False
        defs[n.id] = s
        if not is_var(n):
            ids = [c.id for c in n.propositions]
            if len(ids) != len(set(ids)):
                ok = False
            onpath.append(n.id)
            for c in n.propositions:
                walk(c)
            onpath.pop()
    walk(model)
    return ok


def history_sequences(tier, seed):
    """Value correctness on a model object that has been queried before (C03/C06/C08 hold for every validated model,
    also one that was evaluated a moment ago): the same object is evaluated / assumed / reduced / negated over
    adversarial sequences of interpretations -- the same dict object mutated in place, leaf values -1 then -2
    (hash(-1) == hash(-2)), tuples (-1,k)/(-2,k), Bounds(1,2)/Bounds(0,3) (equal hash) -- and every answer is compared
    with the answer of a freshly unpickled copy.  Interpretations never name sub-proposition ids (known finding D2)."""
    import puan
    import pickle
    r = _result("rt.history_sequences", "random validated models over leaves incl. (-2,2), (0,3), (-3,-1), 16-bit x adversarial "
                "interpretation sequences of length 3..4 on ONE object (in-place mutated dict, -1/-2, hash-colliding tuples and "
                "Bounds) x {evaluate, evaluate_propositions, assume+evaluate, reduce after assume, negate+evaluate, "
                "is_tautology/is_contradiction}; non-trivial = distinct (model, sequence kind)")
    for m0, rng in _models(tier, seed + 77, n_quick=80, n_thorough=600, depth=2):
        blob = pickle.dumps(m0)
        leaves = leaves_of(m0)
        ints = [v for v in leaves if v.bounds.lower <= -2 and v.bounds.upper >= -1]
        wide = [v for v in leaves if v.bounds.upper - v.bounds.lower >= 3]
        base = {v.id: rng.randint(v.bounds.lower, min(v.bounds.upper, v.bounds.lower + 3)) for v in leaves}
        seqs = []
        # same dict object mutated in place
        d = dict(base)
        flip = rng.choice(leaves)
        seqs.append(("inplace", [d, (d, {flip.id: flip.bounds.upper}), (d, {flip.id: flip.bounds.lower})]))
        if ints:
            t = rng.choice(ints)
            seqs.append(("-1/-2", [dict(base, **{t.id: -1}), dict(base, **{t.id: -2}), dict(base, **{t.id: -1})]))
            hi = t.bounds.upper
            seqs.append(("tuple-collide", [dict(base, **{t.id: (-1, hi)}), dict(base, **{t.id: (-2, hi)})]))
        if wide:
            t = rng.choice(wide)
            lo = t.bounds.lower
            seqs.append(("bounds-collide", [dict(base, **{t.id: puan.Bounds(lo + 1, lo + 2)}),
                                            dict(base, **{t.id: puan.Bounds(lo, lo + 3)}),
                                            dict(base, **{t.id: (lo + 1, lo + 2)})]))
        partial = {k: v for k, v in base.items() if rng.random() < 0.5}
        seqs.append(("partial", [dict(partial), dict(base), dict(partial)]))
        for kind, seq in seqs:
            obj = pickle.loads(blob)
            for step, item in enumerate(seq):
                if isinstance(item, tuple):
                    item[0].update(item[1])
                    interp = item[0]
                else:
                    interp = item
                ref = pickle.loads(blob)
                ref_interp = dict(interp)
                r["evaluations"] += 1
                r["_seen"].add((m0.to_text(), kind))
                w = {"model": m0.to_text(), "sequence": kind, "step": step,
                     "interpretation": {str(k): str(v) for k, v in interp.items()}}
                try:
                    checks = [
                        ("evaluate", lambda m, i: str(m.evaluate(i))),
                        ("evaluate_propositions", lambda m, i: str(sorted((str(k), str(v)) for k, v in m.evaluate_propositions(i).items()))),
                        ("assume.evaluate", lambda m, i: str(m.assume(i).evaluate({}))),
                        ("assume.reduce", lambda m, i: (lambda x: x.to_text() if hasattr(x, "to_text") else repr(x))(m.assume(i).reduce())),
                        ("negate.evaluate", lambda m, i: str(m.negate().evaluate(i))),
                        ("flags", lambda m, i: str((m.is_tautology, m.is_contradiction, m.equation_bounds))),
                        ("reduce", lambda m, i: (lambda x: x.to_text() if hasattr(x, "to_text") else repr(x))(m.reduce())),
                    ]
                    for name, fn in checks:
                        got = fn(obj, interp)
                        want = fn(pickle.loads(blob), dict(ref_interp))
                        if got != want:
                            _viol(r, f"history.{name}-differs-from-fresh-object", w, got=got[:300], want=want[:300])
                except BaseException as e:
                    _viol(r, "history.raises", w, error=repr(e)[:300])
    return _finish(r)


def c06_partial_soundness(tier, seed):
    """C06 end to end: bounds reported for a partial / interval interpretation contain the value under every completion;
    tautology / contradiction flags and equation bounds against enumeration"""
    import puan
    import pickle
    r = _result("rt.c06_partial_soundness", "random validated models (all classes, leaves incl. negative, (0,3) and 16-bit default "
                "range, negative signs) x partial interpretations (ints, sub-range tuples, Bounds) x completions (exhaustive "
                "when <= 64 else sampled incl. range end points); flags on one-level nodes incl. 16-bit leaves; non-trivial = "
                "distinct (model, constant reported?)")
    for m0, rng in _models(tier, seed + 88, n_quick=100, n_thorough=800, depth=2):
        if not _no_prefixed(m0):
            continue
        blob = pickle.dumps(m0)
        leaves = leaves_of(m0)
        for _ in range(3):
            interp, restricted = {}, {}
            for v in leaves:
                lo, hi = v.bounds.lower, v.bounds.upper
                c = rng.random()
                if c < 0.35:
                    x = rng.choice([lo, hi, rng.randint(lo, min(hi, lo + 3))])
                    interp[v.id] = x
                    restricted[v.id] = (x, x)
                elif c < 0.55 and hi > lo:
                    a = rng.choice([lo, lo + 1]) if hi - lo > 1 else lo
                    b = rng.choice([hi, max(a, hi - 1)])
                    interp[v.id] = (a, b) if rng.random() < 0.5 else puan.Bounds(a, b)
                    restricted[v.id] = (a, b)
                else:
                    restricted[v.id] = (lo, hi)
            props = pickle.loads(blob).evaluate_propositions(dict(interp))
            subs = [x for x in m0.flatten() if not is_var(x)]
            doms = []
            for v in leaves:
                a, b = restricted[v.id]
                doms.append(list(range(a, b + 1)) if b - a <= 3 else sorted({a, a + 1, b - 1, b, min(max(0, a), b), min(max(-1, a), b)}))
            total = 1
            for d_ in doms:
                total *= len(d_)
            combos = itertools.product(*doms) if total <= 64 else [tuple(rng.choice(d_) for d_ in doms) for _ in range(64)]
            for combo in combos:
                env = {v.id: x for v, x in zip(leaves, combo)}
                r["evaluations"] += 1
                for s in subs:
                    t = ref_truth(s, env)
                    b = props[s.id]
                    if not (b.lower <= t <= b.upper):
                        _viol(r, "c06.bounds-exclude-a-completion", {"model": m0.to_text(), "interpretation": {str(k): str(x) for k, x in interp.items()},
                                                                     "completion": {str(k): x for k, x in env.items()}, "node": str(s.id)},
                              reported=str(b), value=t)
            r["_seen"].add((m0.to_text(), props[m0.id].constant is not None))
        # flags on every compound of the model: children valuations inside bounds
        for s in [x for x in m0.flatten() if not is_var(x)]:
            los = [c.bounds.lower for c in s.propositions]
            his = [c.bounds.upper for c in s.propositions]
            lo_sum = s.sign * sum(los if s.sign > 0 else his)
            hi_sum = s.sign * sum(his if s.sign > 0 else los)
            eb = s.equation_bounds
            r["evaluations"] += 1
            if (int(eb[0]), int(eb[1])) != (lo_sum - s.value, hi_sum - s.value):
                _viol(r, "c06.equation-bounds-not-exact", {"model": s.to_text()}, got=[int(eb[0]), int(eb[1])],
                      want=[lo_sum - s.value, hi_sum - s.value])
            if bool(s.is_tautology) != (lo_sum >= s.value) or bool(s.is_contradiction) != (hi_sum < s.value):
                _viol(r, "c06.flags", {"model": s.to_text()}, taut=bool(s.is_tautology), contra=bool(s.is_contradiction))
    return _finish(r)


def c08_reduce_e2e(tier, seed):
    """C08 end to end on *families of near-identical models queried one after the other in one process*: reduce() keeps
    the meaning (reference truth function, constants substituted) and leaves no constant behind.  Variants differ only in
    ids with/without spaces, in hash-colliding leaf bounds, or in one threshold -- the cases a wrongly keyed cache mixes up."""
    import puan
    import puan.logic.plog as pg
    import pickle
    r = _result("rt.c08_reduce_e2e", "random validated models with some leaves fixed by bounds or by assume() x 3 near-identical "
                "variants each (ids with spaces vs without, leaf bounds (0,3)/(1,2) and (-1,0)/(-2,0), threshold +1), reduced in "
                "sequence in one process x assignments of the free leaves; non-trivial = distinct (variant kind, collapsed to a "
                "constant?)")
    rng = random.Random(seed + 99)
    n = 60 if tier == "quick" else 500

    def build(spec, rename, bmap, dv):
        kind, vid, val, kids = spec
        ch = []
        for k in kids:
            if isinstance(k, tuple) and len(k) == 4:
                ch.append(build(k, rename, bmap, dv))
            else:
                ch.append(puan.variable(rename(k[0]), bmap.get(k[1], k[1])))
        own = spec_own.get(id(spec))
        var = rename(vid) if own is None else puan.variable(rename(vid), own)
        return pg.AtLeast(val + (dv if kind == "top" else 0), ch, variable=var, sign=spec_sign[id(spec)])

    def ref_fixed(node, env):
        """reference with the override clause: a sub-proposition whose own variable is fixed takes that constant"""
        if is_var(node):
            return env[node.id]
        if node.bounds.constant is not None:
            return int(node.bounds.constant)
        return 1 if node.sign * sum(ref_fixed(c, env) for c in node.propositions) >= node.value else 0

    for _ in range(n):
        spec_sign = {}
        spec_own = {}
        names = iter(["red apple", "green pear", "b c", "d", "e f", "g", "h i", "j", "k l", "m"])
        bpal = [(0, 1), (0, 1), (0, 3), (-1, 0), (1, 1), (0, 0), (2, 2), (-2, 2)]

        def mk(d, top=False):
            kids = []
            for _ in range(rng.randint(2, 3)):
                try:
                    if d > 0 and rng.random() < 0.4:
                        kids.append(mk(d - 1))
                    else:
                        kids.append((next(names), rng.choice(bpal)))
                except StopIteration:
                    break
            sp = ("top" if top else "sub", next(names), rng.randint(0, 2), kids)
            spec_sign[id(sp)] = rng.choice([1, 1, -1])
            if not top and rng.random() < 0.3:
                spec_own[id(sp)] = rng.choice([(0, 0), (1, 1)])      # a sub-proposition fixed by its own variable's bounds
            return sp
        try:
            spec = mk(1, True)
        except StopIteration:
            continue
        variants = [("plain", lambda s: s, {}, 0), ("no-space ids", lambda s: s.replace(" ", ""), {}, 0),
                    ("colliding bounds", lambda s: s, {(0, 3): (1, 2), (-1, 0): (-2, 0)}, 0), ("threshold+1", lambda s: s, {}, 1)]
        for vname, rename, bmap, dv in variants:
            try:
                m = build(spec, rename, bmap, dv)
            except Exception:
                continue
            if m.errors() != [] or not well_defined(m):
                continue
            leaves = leaves_of(m)
            free = [v for v in leaves if v.bounds.constant is None]
            fixed = {v.id: v.bounds.constant for v in leaves if v.bounds.constant is not None}
            red = pickle.loads(pickle.dumps(m)).reduce()
            r["evaluations"] += 1
            r["_seen"].add((vname, is_var(red)))
            w = {"model": m.to_text(), "variant": vname}
            # no constants left
            if not is_var(red):
                for x in red.flatten():
                    if x.bounds.constant is not None:
                        _viol(r, "c08.constant-left-in-reduced-model", w, node=str(x.id))
                        break
            for env in assignments(free, rng, 24):
                full = dict(env)
                full.update(fixed)
                want = ref_fixed(m, full)
                if is_var(red):
                    got = red.bounds.constant if red.bounds.constant is not None else env.get(red.id)
                else:
                    e2 = {k: v for k, v in env.items()}
                    got = pickle.loads(pickle.dumps(red)).evaluate(e2).constant
                if got != want:
                    _viol(r, "c08.meaning-changed", dict(w, env={str(k): v for k, v in env.items()}), got=str(got), want=want,
                          reduced=red.to_text() if hasattr(red, "to_text") else repr(red))
                    break
    return _finish(r)


def c01_reduced_transport(tier, seed):
    """to_ge_polyhedron(active, reduced=True): the Python glue transports the compiled extension's reduced answer faithfully
    (b | A, column variables by statement index, support variable first).  The reduction itself is NOT checked."""
    import pickle
    from contracts.c01glue import reduced_transport_violations
    r = _result("rt.c01_reduced_transport", "random validated models (all classes, depth<=3, integer leaves) and special none-of models "
                "x active in {True, False}: matrix / right-hand side / column variables of to_ge_polyhedron(active, reduced=True) == "
                "what TheoryPy.to_ge_polyhedron(active, True) answers for the same theory; non-trivial = distinct (model, active)")
    import puan.logic.plog as pg
    extra = [pg.Not(pg.Any("d", "e")), pg.AtMost(0, ["a", "b"]), pg.All(pg.AtMost(0, ["a", "b"]), pg.Not(pg.Any("c", "d"))),
             pg.AtMost(0, [pg.All("a", "b"), pg.All("c", "d")])]
    models = [(m, None) for m in extra] + list(_models(tier, seed + 58, n_quick=80, n_thorough=600, depth=3))
    for m0, _ in models:
        blob = pickle.dumps(m0)
        for active in (True, False):
            try:
                res = reduced_transport_violations(pickle.loads(blob), None, active)
            except BaseException as e:           # the compiled reduction may panic on some theories: not the glue's business
                r["_seen"].add(("extension-raises", type(e).__name__))
                continue
            r["evaluations"] += 1
            r["_seen"].add((m0.to_text(), active))
            for v in res["violated"]:
                _viol(r, "c01." + v, {"model": m0.to_text(), "active": active}, **{k: v_ for k, v_ in res["detail"].items() if k not in ("model", "active")})
    return _finish(r)


def a_rs1_rows(tier, seed):
    """Run-time validation of the assumed contract A-rs1 together with the Python glue of to_ge_polyhedron: the matrix
    returned for a model is, row for row, the set of rows the contract predicts from the model (ids attached to columns,
    column bounds, one row per compound, asserted top row without own column)."""
    import numpy as np
    import puan
    import pickle
    r = _result("rt.a_rs1_rows", "random validated models (all classes, depth<=3, integer leaves incl. 16-bit) and their near-identical "
                "variants x active in {True, False}: predicted rows {column id -> coefficient, rhs} == actual rows; column "
                "variables carry the model's ids and bounds; non-trivial = distinct (model, active)")
    from .gen import variants
    for m0, rng in _models(tier, seed + 55, n_quick=120, n_thorough=1000, depth=3):
        for _, m in variants(m0):
            if not _no_prefixed(m):
                continue
            nodes = {}
            for x in m.flatten():
                nodes[x.id] = x
            for active in (True, False):
                try:
                    p = pickle.loads(pickle.dumps(m)).to_ge_polyhedron(active=active)
                except BaseException as e:
                    _viol(r, "a_rs1.raises", {"model": m.to_text(), "active": active}, error=repr(e)[:200])
                    continue
                cols = list(p.variables)
                r["evaluations"] += 1
                r["_seen"].add((m.to_text(), active))
                w = {"model": m.to_text(), "active": active}
                if cols[0].id != 0 or cols[0].bounds.as_tuple() != (1, 1):
                    _viol(r, "a_rs1.support-column", w)
                bad_cols = [str(c.id) for c in cols[1:] if c.id not in nodes or tuple(nodes[c.id].bounds.as_tuple()) != tuple(c.bounds.as_tuple())]
                if bad_cols:
                    _viol(r, "a_rs1.column-variables", w, columns=bad_cols)
                    continue
                want = []
                for x in nodes.values():
                    if is_var(x):
                        continue
                    s = int(x.sign)
                    if active and x.id == m.id:
                        row = {c.id: s for c in x.propositions}
                        want.append((x.value, row))
                        continue
                    e = sum(min(s * c.bounds.lower, s * c.bounds.upper) for c in x.propositions)
                    row = {c.id: s for c in x.propositions}
                    row[x.id] = row.get(x.id, 0) + (e - x.value)
                    want.append((e, row))
                got = []
                M = np.asarray(p).tolist()
                for rowv in M:
                    got.append((int(rowv[0]), {cols[j].id: int(v) for j, v in enumerate(rowv) if j > 0 and int(v) != 0}))
                # rows are compared as a set: a sub-proposition shared by two parents may get its row emitted twice
                norm = lambda rows: sorted({(b, tuple(sorted((str(k), v) for k, v in row.items() if v != 0))) for b, row in rows})
                if norm(got) != norm(want):
                    _viol(r, "a_rs1.rows-differ", w, got=str(norm(got))[:400], want=str(norm(want))[:400])
    return _finish(r)
