"""rt.arrays -- bounded stand-ins for the ndarray properties C11, C12, C13, C19, C20 (real code, native)."""
import itertools
import random
import json

from .logic import _result, _finish, _viol

PALETTE = [-4, -3, -2, -1, 0, 1, 2, 3, 4, 7]
BOXES = [(0, 1), (0, 1), (-3, 0), (-1, 2), (0, 3), (1, 1), (-2, -1), (2, 2)]


def _rand_poly(rng, rows, cols):
    import numpy as np
    import puan
    import puan.ndarray as pnd
    big = rng.random() < 0.35   # coefficients of larger magnitude (division rounding, float representation)
    huge = big and rng.random() < 0.2   # row values far outside the 16-bit default range of variable bounds
    coef = (lambda: rng.choice([-1, 1]) * rng.randint(5, 120) * (250 if huge else 1)) if big else (lambda: rng.choice(PALETTE))
    A = [[coef() if rng.random() < 0.75 else 0 for _ in range(cols)] for _ in range(rows)]
    b = [rng.randint(-5, 5) * (rng.choice([1, 7, 25, 49, 75]) if big else 1) * (250 if huge else 1) for _ in range(rows)]
    if big and rng.random() < 0.6:
        # right-hand sides that are exact multiples of a coefficient: quotients are integers, rounding must not move them
        for i in range(rows):
            nz = [j for j in range(cols) if A[i][j] != 0]
            if nz:
                j = rng.choice(nz)
                if rng.random() < 0.5:
                    A[i] = [A[i][j] if t == j else (A[i][t] if rng.random() < 0.3 else 0) for t in range(cols)]
                b[i] = A[i][j] * rng.randint(-3, 3)
    M = np.array([[bi] + ai for bi, ai in zip(b, A)], dtype=np.int64).reshape(rows, cols + 1)
    vs = [puan.variable(0, (1, 1))] + [puan.variable("v%d" % j, rng.choice(BOXES)) for j in range(cols)]
    idx = [puan.variable("r%d" % i) for i in range(rows)]
    return pnd.ge_polyhedron(M, variables=vs, index=idx)


def _box_points(p):
    cols = list(p.A.variables)
    return itertools.product(*[range(v.bounds.lower, v.bounds.upper + 1) for v in cols])


def _solutions(p):
    import numpy as np
    A, b = np.asarray(p.A), np.asarray(p.b)
    out = []
    for pt in _box_points(p):
        x = np.array(pt, dtype=np.int64)
        if A.shape[0] == 0 or (A.dot(x) >= b).all():
            out.append(tuple(int(t) for t in x))
    return out


def _dump(p):
    return {"matrix": p.tolist(), "bounds": [list(v.bounds.as_tuple()) for v in p.A.variables]}


def c12_tighten(tier, seed):
    """C12: tightened bounds contain every in-bounds integer solution, never widen; row bounds exact; n_row_combinations"""
    import numpy as np
    r = _result("rt.c12_tighten", "random integer matrices up to 3x3 (coefficients from a 10-value palette incl. |a|>1, zeros) x "
                "bound boxes from 8 kinds (boolean, negative, degenerate) x ALL box points; non-trivial = distinct (has |a|>1, "
                "some bound tightened, empty)")
    rng = random.Random(seed + 101)
    n = 250 if tier == "quick" else 2500
    import puan
    import puan.ndarray as pnd

    def sweep():
        # one-variable rows a*x >= a*k for every coefficient magnitude up to 130: the quotient is an exact integer
        for a in range(2, 131):
            for sgn in (1, -1):
                for k in (1, 2):
                    box = (0, 1) if k == 1 else (-3, 3)
                    yield pnd.ge_polyhedron(np.array([[sgn * a * k, sgn * a]], dtype=np.int64),
                                            variables=[puan.variable(0, (1, 1)), puan.variable("v0", box)],
                                            index=[puan.variable("r0")])
    stream = itertools.chain(sweep(), (_rand_poly(rng, rng.randint(1, 3), rng.randint(1, 3)) for _ in range(n)))
    for p in stream:
        cols = list(p.A.variables)
        try:
            lb, ub = p.tighten_column_bounds()
        except Exception as e:
            _viol(r, "c12.tighten-raises", _dump(p), error=repr(e))
            continue
        sols = _solutions(p)
        r["evaluations"] += 1
        A = np.asarray(p.A)
        tight = any(int(lb[j]) > cols[j].bounds.lower or int(ub[j]) < cols[j].bounds.upper for j in range(len(cols)))
        r["_seen"].add((bool((abs(A) > 1).any()), tight, len(sols) == 0))
        w = _dump(p)
        for j, v in enumerate(cols):
            if int(lb[j]) < v.bounds.lower or int(ub[j]) > v.bounds.upper:
                _viol(r, "c12.tighten-widens", w, column=j, lb=int(lb[j]), ub=int(ub[j]))
            for s in sols:
                if not (int(lb[j]) <= s[j] <= int(ub[j])):
                    _viol(r, "c12.tighten-cuts-solution", w, column=j, lb=int(lb[j]), ub=int(ub[j]), solution=list(s))
                    break
        if any(int(lb[j]) > int(ub[j]) for j in range(len(cols))) and sols:
            _viol(r, "c12.empty-reported-but-solutions-exist", w)
        rb = np.asarray(p.row_bounds())
        nrc = np.asarray(p.n_row_combinations)
        b = np.asarray(p.b)
        for i in range(A.shape[0]):
            vals = [int(A[i].dot(np.array(pt))) - int(b[i]) for pt in _box_points(p)]
            if int(rb[i][0]) != min(vals) or int(rb[i][1]) != max(vals):
                _viol(r, "c12.row-bounds-not-exact", w, row=i, got=[int(rb[i][0]), int(rb[i][1])], want=[min(vals), max(vals)])
            cnt = 1
            for j, v in enumerate(cols):
                if A[i][j] != 0:
                    cnt *= (v.bounds.upper - v.bounds.lower + 1)
            if int(nrc[i]) != cnt:
                _viol(r, "c12.n_row_combinations", w, row=i, got=int(nrc[i]), want=cnt)
    return _finish(r)


def _chain_poly(rng):
    """4-5 columns, propagation that needs several passes of the fix-point loop: a unit row forces one column, implication
    rows (x_b >= x_a, x_c <= 1 - x_a, x_a + x_b >= 2, ...) force further ones only after substitution, other columns stay free;
    columns are permuted so that later-fixed columns sit before and after earlier-fixed ones"""
    import numpy as np
    import puan
    import puan.ndarray as pnd
    cols = rng.randint(4, 5)
    perm = list(range(cols))
    rng.shuffle(perm)
    rows = []

    def row(b, terms):
        r_ = [0] * cols
        for j, v in terms:
            r_[perm[j]] += v
        rows.append([b] + r_)
    kind = rng.randrange(6)
    row(1, [(0, 1)])                                   # x0 >= 1
    if kind in (0, 1, 2):
        row(0, [(0, -1), (1, 1)])                      # x1 >= x0
    if kind in (1, 3):
        row(-1, [(0, -1), (2, -1)])                    # x2 <= 1 - x0
    if kind in (2, 4):
        row(0, [(1, -1), (3, 1)])                      # x3 >= x1
    if kind in (3, 5):
        row(2, [(0, 1), (1, 1)])                       # x0 + x1 >= 2
    if kind in (4, 5):
        row(rng.choice([1, 2]), [(1, 1), (2, 1), (3, 1)])
    if rng.random() < 0.5:
        row(-1, [(cols - 1, -1)])                      # tautology on the last column
    if rng.random() < 0.3:
        row(rng.choice([1, 0, -1]), [(2, 1), (3, -1)])
    rng.shuffle(rows)
    M = np.array(rows, dtype=np.int64)
    boxes = [(0, 1)] * cols
    if rng.random() < 0.3:
        boxes[perm[rng.randrange(cols)]] = (0, 2)
    vs = [puan.variable(0, (1, 1))] + [puan.variable("v%d" % j, boxes[j]) for j in range(cols)]
    return pnd.ge_polyhedron(M, variables=vs, index=[puan.variable("r%d" % i) for i in range(len(rows))])


def c11_reduce(tier, seed):
    """C11: reducible rows hold on the box; forced columns forced in every solution; reduced polyhedron = projection"""
    import numpy as np
    import puan.ndarray as pnd
    r = _result("rt.c11_reduce", "random integer matrices up to 3x3 x bound boxes: reducable_rows, reducable_columns_approx, "
                "reduce_columns/reduce_rows/reduce and the fixpoint reducable_rows_and_columns against brute-force solution sets; "
                "non-trivial = distinct (some row reducible, some column forced, empty)")
    rng = random.Random(seed + 111)
    n = 250 if tier == "quick" else 2500
    for k_ in range(n + n // 2):
        # two thirds random small matrices, one third multi-pass propagation chains over 4-5 columns
        p = _rand_poly(rng, rng.randint(1, 3), rng.randint(1, 3)) if k_ < n else _chain_poly(rng)
        cols = list(p.A.variables)
        w = _dump(p)
        A, b = np.asarray(p.A), np.asarray(p.b)
        sols = _solutions(p)
        try:
            rr = np.asarray(p.reducable_rows())
            rc = np.asarray(p.reducable_columns_approx(), dtype=float)
            fr, fc = p.reducable_rows_and_columns()
            fr, fc = np.asarray(fr), np.asarray(fc, dtype=float)
        except Exception as e:
            _viol(r, "c11.raises", w, error=repr(e))
            continue
        r["evaluations"] += 1
        r["_seen"].add((bool(rr.any()), bool((~np.isnan(rc)).any()), len(sols) == 0))
        for i in range(A.shape[0]):
            if rr[i]:
                for pt in _box_points(p):
                    if int(A[i].dot(np.array(pt))) < int(b[i]):
                        _viol(r, "c11.reducible-row-violated-in-box", w, row=i, point=list(pt))
                        break
        for j in range(len(cols)):
            if not np.isnan(rc[j]):
                for s in sols:
                    if s[j] != int(rc[j]):
                        _viol(r, "c11.forced-column-not-forced", w, column=j, value=int(rc[j]), solution=list(s))
                        break
        # step functions: reduce with (rr, rc) must be the projection
        for name, rows, colv in (("step", rr, rc), ("fixpoint", fr, fc)):
            if len(sols) == 0 and name == "fixpoint":
                # empty stays empty is checked below through the projection as well
                pass
            try:
                red = p.reduce(rows_vector=pnd.boolean_ndarray(rows.astype(int)), columns_vector=colv.copy())
            except Exception as e:
                _viol(r, f"c11.reduce-{name}-raises", w, error=repr(e))
                continue
            keep = [j for j in range(len(cols)) if np.isnan(colv[j])]
            # forced values must be consistent with all solutions
            ok_forced = all(all(s[j] == int(colv[j]) for s in sols) for j in range(len(cols)) if not np.isnan(colv[j]))
            if not ok_forced:
                _viol(r, f"c11.{name}-forced-column-not-forced", w, columns=[None if np.isnan(x) else int(x) for x in colv])
                continue
            proj = sorted({tuple(s[j] for j in keep) for s in sols})
            rv = list(red.A.variables) if red.shape[1] > 1 else []
            if [v.id for v in rv] != [cols[j].id for j in keep]:
                _viol(r, f"c11.{name}-variables-misaligned", w, got=[str(v.id) for v in rv], want=[str(cols[j].id) for j in keep])
                continue
            if len(red.index) != red.shape[0]:
                _viol(r, f"c11.{name}-index-misaligned", w)
            kept_rows = [i for i in range(A.shape[0]) if not rows[i]]
            if [getattr(x, "id", x) for x in red.index] != [getattr(p.index[i], "id", p.index[i]) for i in kept_rows]:
                _viol(r, f"c11.{name}-index-misaligned", w)
            rs = sorted(_solutions(red)) if red.shape[1] > 1 else ([()] if (np.asarray(red.b) <= 0).all() else [])
            if rs != proj:
                _viol(r, f"c11.{name}-solution-set-changed", w, rows=[int(x) for x in rows],
                      columns=[None if np.isnan(x) else int(x) for x in colv], reduced=red.tolist(),
                      got=rs[:6], want=proj[:6])
    return _finish(r)


def c19_points(tier, seed):
    """C19: ineqs_satisfied / separable / ineq_separate_points for points of rank 1, 2, 3"""
    import numpy as np
    r = _result("rt.c19_points", "random integer matrices up to 3x3 x point arrays of rank 1, 2 and 3 (values -3..3): results and "
                "shapes against a direct row-by-row evaluation; non-trivial = distinct (rank, some row violated, all satisfied)")
    rng = random.Random(seed + 121)
    n = 200 if tier == "quick" else 2000
    _lay_n = 0
    for _ in range(n):
        p = _rand_poly(rng, rng.randint(1, 3), rng.randint(1, 3))
        m = p.shape[1] - 1
        A, b = np.asarray(p.A), np.asarray(p.b)
        w = _dump(p)
        _lay_n += 1
        for rank in (1, 2, 3):
            shape = {1: (m,), 2: (rng.randint(1, 3), m), 3: (rng.randint(1, 2), rng.randint(1, 3), m)}[rank]
            pts = np.array([rng.randint(-3, 3) for _ in range(int(np.prod(shape)))], dtype=np.int64).reshape(shape)
            # same values under other memory layouts (no draw from rng: the stream of inputs stays what it was):
            # Fortran order, and a strided view into a larger buffer
            _lay = (_lay_n + rank) % 3          # every rank meets every layout as the outer loop advances
            if _lay == 1:
                pts = np.asfortranarray(pts)
            elif _lay == 2:
                big = np.zeros(tuple(2 * d for d in shape), dtype=np.int64)
                big[tuple(slice(None, None, 2) for _ in shape)] = pts
                pts = big[tuple(slice(None, None, 2) for _ in shape)]
            sat = lambda x: [bool(int(A[i].dot(x)) >= int(b[i])) for i in range(A.shape[0])]
            try:
                got_s = np.asarray(p.ineqs_satisfied(pts))
                got_sep = np.asarray(p.separable(pts))
                got_isp = np.asarray(p.ineq_separate_points(pts))
            except Exception as e:
                _viol(r, "c19.raises", dict(w, points=pts.tolist()), error=repr(e))
                continue
            r["evaluations"] += 1
            if rank == 1:
                want_s = all(sat(pts)); want_sep = not want_s
                want_isp = [not t for t in sat(pts)]
            elif rank == 2:
                want_s = [all(sat(x)) for x in pts]; want_sep = [not t for t in want_s]
                want_isp = [any(not sat(x)[i] for x in pts) for i in range(A.shape[0])]
            else:
                want_s = [[all(sat(x)) for x in grp] for grp in pts]; want_sep = [[not t for t in g] for g in want_s]
                want_isp = [[any(not sat(x)[i] for x in grp) for i in range(A.shape[0])] for grp in pts]
            r["_seen"].add((rank, bool(np.asarray(want_sep).any()), bool(np.asarray(want_s).all())))
            ww = dict(w, points=pts.tolist())
            if np.asarray(got_s).astype(bool).tolist() != np.asarray(want_s).tolist():
                _viol(r, "c19.ineqs_satisfied", ww, got=np.asarray(got_s).tolist(), want=np.asarray(want_s).tolist())
            if np.asarray(got_sep).astype(bool).tolist() != np.asarray(want_sep).tolist():
                _viol(r, "c19.separable", ww, got=np.asarray(got_sep).tolist(), want=np.asarray(want_sep).tolist())
            if np.asarray(got_isp).astype(bool).tolist() != np.asarray(want_isp).tolist():
                _viol(r, "c19.ineq_separate_points", ww, got=np.asarray(got_isp).tolist(), want=np.asarray(want_isp).tolist())
    return _finish(r)


def c20_bridges(tier, seed):
    """C20: construct / variable index sets / from_list / to_list / A, b"""
    import numpy as np
    import puan
    import puan.ndarray as pnd
    r = _result("rt.c20_bridges", "random variable lists (string, int and unicode ids, bounds from 8 kinds) x dictionaries over known "
                "and unknown ids x default kinds (none/callable) x dtypes (int64, float); list/context conversions; index "
                "partition; A/b; non-trivial = distinct (dtype, default kind, has unknown id)")
    rng = random.Random(seed + 131)
    idpool = ["a", "b", "c", "x-1", "ü", 7, 8, "9", "", "A B"]
    n = 200 if tier == "quick" else 2000
    for _ in range(n):
        k = rng.randint(1, 5)
        ids = rng.sample(idpool, k)
        vs = [puan.variable(i, rng.choice(BOXES + [(-32768, 32767)])) for i in ids]
        arr = pnd.variable_ndarray(np.zeros((1, k), dtype=np.int64), variables=vs, index=[puan.variable("r")])
        d = {i: rng.randint(-9, 9) for i in ids if rng.random() < 0.5}
        unknown = rng.random() < 0.4
        if unknown:
            d["zz-unknown"] = 5
        for dtype, dk in ((np.int64, None), (np.int64, "callable"), (float, None), (float, "callable")):
            default = (lambda v: 42) if dk else None
            try:
                got = arr.construct(dict(d), default, dtype) if dk else arr.construct(dict(d), dtype=dtype)
            except Exception as e:
                _viol(r, "c20.construct-raises", {"ids": [str(i) for i in ids], "dict": {str(a): b for a, b in d.items()}}, error=repr(e))
                continue
            r["evaluations"] += 1
            r["_seen"].add((dtype.__name__, dk, unknown))
            for j, v in enumerate(vs):
                if v.id in d:
                    want = d[v.id]
                elif dk:
                    want = 42
                elif dtype is np.int64:
                    want = v.bounds.lower
                else:
                    want = float("nan")
                g = got[j]
                if not ((g != g and want != want) or g == want):
                    _viol(r, "c20.construct-entry", {"ids": [str(i) for i in ids], "dict": {str(a): b for a, b in d.items()},
                                                     "dtype": dtype.__name__, "default": dk}, column=j, got=str(g), want=str(want))
            if len(got) != k:
                _viol(r, "c20.construct-length", {"ids": [str(i) for i in ids]})
        bi = set(map(int, arr.boolean_variable_indices)) if len(arr.boolean_variable_indices) else set()
        ii = set(map(int, arr.integer_variable_indices)) if len(arr.integer_variable_indices) else set()
        wantb = {j for j, v in enumerate(vs) if v.bounds.as_tuple() == (0, 1)}
        if bi != wantb or ii != set(range(k)) - wantb:
            _viol(r, "c20.index-partition", {"bounds": [list(v.bounds.as_tuple()) for v in vs]}, boolean=sorted(bi), integer=sorted(ii))
        for spell_b, spell_i in ((puan.Dtype.BOOL, puan.Dtype.INT), ("bool", "int")):
            sb, si = set(map(int, arr.variable_indices(spell_b))), set(map(int, arr.variable_indices(spell_i)))
            if sb != wantb or si != set(range(k)) - wantb:
                _viol(r, "c20.index-partition", {"bounds": [list(v.bounds.as_tuple()) for v in vs], "argument": [repr(spell_b), repr(spell_i)]},
                      boolean=sorted(sb), integer=sorted(si))
        # list / context conversions
        ctx = [str(i) for i in ids]
        lst = rng.sample(ctx, rng.randint(0, k))
        il = pnd.integer_ndarray.from_list(lst, ctx)
        bl = pnd.boolean_ndarray.from_list(lst, ctx)
        for j, cid in enumerate(ctx):
            wi = (1 + lst.index(cid)) if cid in lst else 0
            if lst and (int(il[j]) != wi or int(bl[j]) != int(cid in lst)):
                _viol(r, "c20.from_list", {"list": lst, "context": ctx}, column=j)
        if lst:
            ba = pnd.boolean_ndarray(np.array([int(c in lst) for c in ctx]), variables=[puan.variable(c) for c in ctx])
            tl = ba.to_list()
            if [v.id for v in tl] != [c for c in ctx if c in lst]:
                _viol(r, "c20.to_list", {"list": lst, "context": ctx}, got=[str(v.id) for v in tl])
            # entries other than 0/1 (e.g. a sum or difference of two list vectors): exactly the 1-entries are returned
            vals = [rng.choice([0, 1, 1, 2, -1]) for _ in ctx]
            ba2 = pnd.boolean_ndarray(np.array(vals), variables=[puan.variable(c) for c in ctx])
            if [v.id for v in ba2.to_list()] != [c for c, x in zip(ctx, vals) if x == 1]:
                _viol(r, "c20.to_list", {"entries": vals, "context": ctx}, got=[str(v.id) for v in ba2.to_list()])
            ba3 = pnd.boolean_ndarray(np.array([vals, vals[::-1]]), variables=[puan.variable(c) for c in ctx])
            want3 = [[c for c, x in zip(ctx, row) if x == 1] for row in (vals, vals[::-1])]
            if [[v.id for v in row] for row in ba3.to_list()] != want3:
                _viol(r, "c20.to_list", {"entries": [vals, vals[::-1]], "context": ctx})
        # A / b
        rows = rng.randint(1, 3)
        M = np.array([[rng.randint(-4, 4) for _ in range(k + 1)] for _ in range(rows)], dtype=np.int64)
        p = pnd.ge_polyhedron(M, variables=[puan.variable(0, (1, 1))] + vs, index=[puan.variable("r%d" % i) for i in range(rows)])
        A, b = p.to_linalg()
        if np.asarray(A).tolist() != M[:, 1:].tolist() or np.asarray(b).tolist() != M[:, 0].tolist() \
                or [v.id for v in A.variables] != [v.id for v in vs] or np.asarray(p.A).tolist() != M[:, 1:].tolist():
            _viol(r, "c20.A-b", {"matrix": M.tolist()})
    return _finish(r)


class _CallTimeout(BaseException):
    pass


class _time_limit:
    """wall-clock cap on ONE call of the code under check (stand-ins run in their own process, main thread)"""

    def __init__(self, seconds):
        self.seconds = seconds

    def __enter__(self):
        import signal

        def _raise(signum, frame):
            raise _CallTimeout()
        self._old = signal.signal(signal.SIGALRM, _raise)
        signal.setitimer(signal.ITIMER_REAL, self.seconds)

    def __exit__(self, *a):
        import signal
        signal.setitimer(signal.ITIMER_REAL, 0)
        signal.signal(signal.SIGALRM, self._old)
        return False


def poly_same_object(tier, seed):
    """C11/C12/C19 on ONE polyhedron object queried repeatedly: every method leaves the polyhedron (matrix, variables,
    bounds, index) unchanged and answers as a freshly built identical polyhedron does"""
    import numpy as np
    import puan
    import puan.ndarray as pnd
    r = _result("rt.poly_same_object", "random integer polyhedra (<=3x3, coefficients -3..3, boolean/integer/negative/degenerate bounds) x "
                "sequences of 5 calls out of (reducable_rows, reducable_columns_approx, reducable_rows_and_columns, reduce, "
                "reduce_columns, reduce_rows, row_bounds, tighten_column_bounds, ineqs_satisfied, separable, ineq_separate_points, "
                "to_linalg, A_max, A_min, row_distribution, row_stretch_int, row_stretch, n_row_combinations, column_bounds, A, b) on the same object; snapshot of the object before/after each call and comparison of "
                "each answer with the answer of a fresh copy; non-trivial = distinct (method, position)")
    rng = random.Random(seed + 991)
    n = 120 if tier == "quick" else 1200

    def build(M, bnds):
        vs = [puan.variable(0, (1, 1))] + [puan.variable("v%d" % j, b) for j, b in enumerate(bnds)]
        return pnd.ge_polyhedron(np.array(M, dtype=np.int64), variables=vs, index=[puan.variable("r%d" % i) for i in range(len(M))])

    def snap(p):
        return (np.asarray(p).tolist(), [(str(v.id), tuple(v.bounds.as_tuple())) for v in p.variables],
                [str(getattr(i, "id", i)) for i in p.index])

    def norm(x):
        if isinstance(x, tuple):
            return [norm(e) for e in x]
        if hasattr(x, "tolist"):
            out = [np.asarray(x).tolist()]
            if hasattr(x, "variables"):
                out.append([str(v.id) for v in x.variables])
            return json.dumps(out, default=str)
        return json.dumps(x, default=str)

    timeouts = 0
    for k in range(n):
        if timeouts >= 3:
            r["stopped_early"] = "three calls of the code under check did not come back within 15 s each"
            break
        rows, cols = rng.randint(1, 3), rng.randint(1, 3)
        M = [[rng.randint(-3, 3) for _ in range(cols + 1)] for _ in range(rows)]
        bnds = [rng.choice([(0, 1), (0, 3), (-2, 2), (1, 1), (0, 0), (-3, -1), (2, 5)]) for _ in range(cols)]
        pts = [[rng.randint(-2, 3) for _ in range(cols)] for _ in range(2)]
        p = build(M, bnds)
        calls = {
            "reducable_rows": lambda q: q.reducable_rows(), "reducable_columns_approx": lambda q: q.reducable_columns_approx(),
            "reducable_rows_and_columns": lambda q: q.reducable_rows_and_columns(),
            "reduce": lambda q: q.reduce(*q.reducable_rows_and_columns()),
            "reduce_columns": lambda q: q.reduce_columns(q.reducable_columns_approx()),
            "reduce_rows": lambda q: q.reduce_rows(q.reducable_rows()),
            "row_bounds": lambda q: q.row_bounds(), "tighten_column_bounds": lambda q: q.tighten_column_bounds(),
            "ineqs_satisfied": lambda q: q.ineqs_satisfied(np.array(pts)), "separable": lambda q: q.separable(np.array(pts)),
            "ineq_separate_points": lambda q: q.ineq_separate_points(np.array(pts)), "to_linalg": lambda q: q.to_linalg(),
            "A_max": lambda q: q.A_max, "A_min": lambda q: q.A_min,
            "row_distribution": lambda q: q.row_distribution(rng_row[0]), "row_stretch_int": lambda q: q.row_stretch_int(rng_row[0]),
            "row_stretch": lambda q: q.row_stretch(), "n_row_combinations": lambda q: q.n_row_combinations(),
            "column_bounds": lambda q: q.column_bounds(), "A": lambda q: q.A, "b": lambda q: q.b,
        }
        rng_row = [0]
        for step in range(5):
            rng_row[0] = rng.randrange(rows)
            name = rng.choice(sorted(calls))
            before = snap(p)
            try:
                with _time_limit(15):
                    got = norm(calls[name](p))
            except _CallTimeout:
                # a call of the code under check that does not come back (a fix-point loop that stopped converging on a
                # corrupted object): compared like any other outcome -- the fresh copy answers, this object does not
                got = "no answer within 15 s"
                timeouts += 1
            except Exception as e:
                got = "raised " + type(e).__name__
            try:
                with _time_limit(15):
                    exp = norm(calls[name](build(M, bnds)))
            except _CallTimeout:
                exp = "no answer within 15 s"
                timeouts += 1
            except Exception as e:
                exp = "raised " + type(e).__name__
            after = snap(p)
            r["evaluations"] += 1
            r["_seen"].add((name, step))
            w = {"matrix": M, "bounds": bnds, "points": pts, "call": name, "step": step}
            if before != after:
                _viol(r, f"array.polyhedron-changed-by[{name}]", w, before=str(before)[:300], after=str(after)[:300])
                break
            if got != exp:
                _viol(r, f"array.answer-depends-on-earlier-call[{name}]", w, got=got[:300], expected=exp[:300])
                break
    return _finish(r)


def a_rs2_bit_allocation(tier, seed):
    """Run-time validation of the assumed contract A-rs2: the executable model pyvc.rsmodel.py_optimized_bit_allocation_64
    against the compiled function on random inputs"""
    import puan_rspy as pr
    import sys
    sys.path.insert(0, __file__.rsplit("/rt/", 1)[0])
    from pyvc.rsmodel import py_optimized_bit_allocation_64 as model
    r = _result("rt.a_rs2_bit_allocation", "random non-zero integer sequences (length 1..9, values -4..4 incl. runs of equal values and "
                "sign changes; some with values up to 2**20): model output == compiled output; non-trivial = distinct "
                "(length, number of sign changes, number of equal neighbours)")
    rng = random.Random(seed + 1777)
    n = 600 if tier == "quick" else 6000
    for _ in range(n):
        k = rng.randint(1, 9)
        pal = [-4, -3, -2, -1, 1, 2, 3, 4] if rng.random() < 0.8 else [-(2 ** 20), -7, 7, 2 ** 20, 12345]
        xs = []
        for _ in range(k):
            xs.append(xs[-1] if xs and rng.random() < 0.35 else rng.choice(pal))
        try:
            got = list(pr.py_optimized_bit_allocation_64(list(xs)))
        except BaseException as e:
            got = "raised " + type(e).__name__
        want = [int(x) for x in model(list(xs))]
        r["evaluations"] += 1
        r["_seen"].add((k, sum(1 for a, b in zip(xs, xs[1:]) if (a < 0) != (b < 0)), sum(1 for a, b in zip(xs, xs[1:]) if a == b)))
        if got != want and max(want) < 2 ** 62:
            _viol(r, "a_rs2.model-differs-from-extension", {"input": xs}, got=str(got)[:200], model=want)
    return _finish(r)


def c13_compress(tier, seed):
    """C13: ndint_compress methods"""
    import numpy as np
    import puan.ndarray as pnd
    r = _result("rt.c13_compress", "all-ish small integer arrays: 1-D (<=5 entries), 2-D (<=3x4) on both axes, batched 3-D, entries in "
                "-3..3 with zeros/ties/all-zero lines: shadow (zeros, signs, ties, order incl. later rows above earlier, strict "
                "dominance), prio/rank (dense order-preserving ranks of the same ordering), first/last/min/max; non-trivial = "
                "distinct (method, ndim, axis, has negative, has tie)")
    rng = random.Random(seed + 141)
    n = 150 if tier == "quick" else 1500

    def last_nonzero(col):
        nz = [x for x in col if x != 0]
        return nz[-1] if nz else 0

    def check_same_array(M, axis, w):
        """one array object queried by several methods in sequence: the array is an input, it must come out unchanged,
        and every answer must equal the answer on a fresh copy (numpy views make in-place slips easy)"""
        shared = pnd.integer_ndarray(np.array(M, dtype=np.int64))
        ref = np.array(M, dtype=np.int64)
        for method in ("shadow", "first", "prio", "min", "rank", "last", "max", "shadow"):
            try:
                got = np.asarray(shared.ndint_compress(method=method, axis=axis)).tolist()
                want = np.asarray(pnd.integer_ndarray(ref.copy()).ndint_compress(method=method, axis=axis)).tolist()
            except Exception:
                continue
            r["evaluations"] += 1
            r["_seen"].add(("same-array", method, axis))
            if not np.array_equal(np.asarray(shared), ref):
                _viol(r, f"c13.input-array-changed[{method}]", dict(w, axis=axis), now=np.asarray(shared).tolist())
                return
            if got != want:
                _viol(r, f"c13.answer-depends-on-earlier-call[{method}]", dict(w, axis=axis), got=got, want=want)
                return

    def check_2d(M, axis, w):
        """M: 2-D list; reduce along `axis`"""
        check_same_array(M, axis, w)
        arr = np.array(M, dtype=np.int64)
        lines = arr.T.tolist() if axis == 0 else arr.tolist()       # each line -> one output entry
        width = len(lines)
        for method in ("first", "last", "min", "max"):
            got = np.asarray(pnd.integer_ndarray(arr).ndint_compress(method=method, axis=axis)).tolist()
            want = []
            for ln in lines:
                nz = [x for x in ln if x != 0]
                want.append({"first": nz[0] if nz else 0, "last": nz[-1] if nz else 0, "min": min(nz) if nz else 0,
                             "max": max(ln)}[method])
            r["evaluations"] += 1
            if got != want:
                _viol(r, f"c13.{method}", dict(w, axis=axis), got=got, want=want)
        # effective priority of an output entry: (row index of the last non-zero along the axis, |value|), sign of that value
        eff = []
        for ln in lines:
            idx = [k for k, x in enumerate(ln) if x != 0]
            eff.append((idx[-1], abs(ln[idx[-1]]), 1 if ln[idx[-1]] > 0 else -1) if idx else None)
        try:
            pr = np.asarray(pnd.integer_ndarray(arr).ndint_compress(method="prio", axis=axis)).tolist()
            rk = np.asarray(pnd.integer_ndarray(arr).ndint_compress(method="rank", axis=axis)).tolist()
            r["evaluations"] += 1
            # 'rank' is the dense ranking of the signed 'prio' vector: order-isomorphic to it, consecutive integers
            iso = all((pr[j] < pr[k]) == (rk[j] < rk[k]) and (pr[j] == pr[k]) == (rk[j] == rk[k])
                      for j in range(width) for k in range(width))
            vals = sorted(set(rk))
            dense = vals == list(range(vals[0], vals[0] + len(vals))) and vals[0] in (0, 1)
            if not (iso and dense):
                _viol(r, "c13.rank", dict(w, axis=axis), prio=pr, rank=rk)
        except Exception as e:
            _viol(r, "c13.rank-raises", dict(w, axis=axis), error=repr(e))
        for method in ("shadow", "prio"):
            try:
                got = np.asarray(pnd.integer_ndarray(arr).ndint_compress(method=method, axis=axis)).tolist()
            except Exception as e:
                _viol(r, f"c13.{method}-raises", dict(w, axis=axis), error=repr(e))
                continue
            r["evaluations"] += 1
            r["_seen"].add((method, 2, axis, bool((arr < 0).any()), len({e[:2] for e in eff if e}) < len([e for e in eff if e])))
            ok = True
            for j in range(width):
                if eff[j] is None:
                    ok &= (got[j] == 0)
                else:
                    ok &= (got[j] != 0 and (got[j] > 0) == (eff[j][2] > 0))
            for j in range(width):
                for k in range(width):
                    if eff[j] and eff[k]:
                        kj, kk = eff[j][:2], eff[k][:2]
                        if kj == kk:
                            ok &= abs(got[j]) == abs(got[k])
                        elif kj < kk:
                            ok &= abs(got[j]) < abs(got[k])
            if method == "shadow" and ok:
                for j in range(width):
                    if eff[j]:
                        lower = sum(abs(got[k]) for k in range(width) if eff[k] and eff[k][:2] < eff[j][:2])
                        ok &= abs(got[j]) > lower
            if method == "prio" and ok:
                mags = sorted({abs(x) for x in got if x != 0})
                ok &= mags == list(range(1, len(mags) + 1))
            if not ok:
                _viol(r, f"c13.{method}", dict(w, axis=axis), got=got)

    for _ in range(n):
        rows, cols = rng.randint(1, 3), rng.randint(1, 4)
        M = [[rng.choice([-3, -2, -1, 0, 0, 1, 2, 3]) for _ in range(cols)] for _ in range(rows)]
        w = {"array": M}
        check_2d(M, 0, w)
        check_2d(M, 1, w)
        # 1-D
        v = [rng.choice([-3, -2, -1, 0, 0, 1, 2, 3]) for _ in range(rng.randint(1, 5))]
        try:
            got = np.asarray(pnd.integer_ndarray(np.array(v)).ndint_compress(method="shadow", axis=0)).tolist()
            r["evaluations"] += 1
            r["_seen"].add(("shadow", 1, 0, any(x < 0 for x in v), len(set(map(abs, v))) < len(v)))
            ok = all((g == 0) == (x == 0) and (g > 0) == (x > 0) for g, x in zip(got, v))
            for a, ga in zip(v, got):
                for b_, gb in zip(v, got):
                    if a and b_:
                        ok &= (abs(a) == abs(b_)) == (abs(ga) == abs(gb)) and (abs(a) < abs(b_)) == (abs(ga) < abs(gb))
                if a:
                    ok &= abs(ga) > sum(abs(g2) for a2, g2 in zip(v, got) if a2 and abs(a2) < abs(a))
            if not ok:
                _viol(r, "c13.shadow-1d", {"array": v}, got=got)
        except Exception as e:
            _viol(r, "c13.shadow-1d-raises", {"array": v}, error=repr(e))
        # priorities beyond 2**53 that differ in their low bits (exact integer arithmetic is required)
        big = [2 ** 53 + rng.randint(0, 3) for _ in range(rng.randint(2, 3))] + [rng.randint(1, 5)]
        rng.shuffle(big)
        try:
            got = [int(x) for x in np.asarray(pnd.integer_ndarray(np.array(big, dtype=np.int64)).ndint_compress(method="shadow", axis=0)).tolist()]
            r["evaluations"] += 1
            r["_seen"].add(("shadow", 1, 0, "huge", len(set(big)) < len(big)))
            ok = all((abs(a) == abs(b_)) == (ga == gb) and (a < b_) == (ga < gb) for a, ga in zip(big, got) for b_, gb in zip(big, got))
            if not ok:
                _viol(r, "c13.shadow-1d", {"array": big}, got=got)
            gr = [int(x) for x in np.asarray(pnd.integer_ndarray(np.array(big, dtype=np.int64)).ndint_compress(method="rank", axis=0)).tolist()]
            if not all((a == b_) == (ga == gb) and (a < b_) == (ga < gb) for a, ga in zip(big, gr) for b_, gb in zip(big, gr)):
                _viol(r, "c13.rank", {"array": big}, rank=gr)
        except Exception as e:
            _viol(r, "c13.shadow-1d-raises", {"array": big}, error=repr(e))
        # batched 3-D: equals per-batch 2-D
        B = [[[rng.choice([-2, -1, 0, 1, 2]) for _ in range(cols)] for _ in range(rows)] for _ in range(2)]
        try:
            got3 = np.asarray(pnd.integer_ndarray(np.array(B)).ndint_compress(method="shadow", axis=0)).tolist()
            each = [np.asarray(pnd.integer_ndarray(np.array(b_)).ndint_compress(method="shadow", axis=0)).tolist() for b_ in B]
            r["evaluations"] += 1
            r["_seen"].add(("shadow", 3, 0, True, True))
            if got3 != each:
                _viol(r, "c13.shadow-3d", {"array": B}, got=got3, want=each)
        except Exception as e:
            _viol(r, "c13.shadow-3d-raises", {"array": B}, error=repr(e))
    return _finish(r)
