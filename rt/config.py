"""rt.config -- bounded stand-ins for the configurator / history / serialisation properties (real code, native)."""
import itertools
import json
import pickle
import random

from .gen import leaf_pool, rand_model, leaves_of, assignments, is_var, ref_truth, solver_safe, well_defined
from .logic import _result, _finish, _viol, _models


# per-instance memo fields declared in the contracts (DESIGN 3.4): a query may fill them; they are excluded from the
# abstract value of the object (their coherence is checked by c09_configurator_cache)
MEMO_FIELDS = ("_ge_polyhedron", "_leafs")


def _snapshot(obj):
    """deep structural snapshot of a model/configurator: everything reachable through __dict__ and lists"""
    seen = {}

    def snap(o, depth=0):
        if isinstance(o, (int, str, float, type(None), bool)):
            return o
        try:
            import numpy
            if isinstance(o, numpy.ndarray):
                return ("nd", o.shape, o.tolist() if o.dtype != object else [snap(x) for x in o.tolist()],
                        snap(getattr(o, "__dict__", {})))
            if isinstance(o, numpy.generic):
                return o.item()
        except ImportError:
            pass
        if id(o) in seen:
            return ("ref", seen[id(o)])
        seen[id(o)] = len(seen)
        if isinstance(o, (list, tuple)):
            return [snap(x, depth + 1) for x in o]
        if isinstance(o, dict):
            return {str(k): snap(v, depth + 1) for k, v in sorted(o.items(), key=lambda kv: str(kv[0]))}
        d = getattr(o, "__dict__", None)
        if d is not None:
            return (type(o).__module__ + "." + type(o).__qualname__, {k: snap(v, depth + 1) for k, v in sorted(d.items()) if k not in MEMO_FIELDS})
        return repr(o)
    return json.dumps(snap(obj), sort_keys=True, default=str)


def dummy_solver(poly, objectives):
    """deterministic exact solver by enumeration over small boolean polyhedra"""
    import numpy as np
    A, b = np.asarray(poly.A), np.asarray(poly.b)
    cols = list(poly.A.variables)
    doms = [range(v.bounds.lower, v.bounds.upper + 1) for v in cols]
    size = 1
    for d in doms:
        size *= len(d)
    out = []
    feas = None
    for obj in objectives:
        if feas is None:
            feas = []
            if size <= 200000:
                for pt in itertools.product(*doms):
                    x = np.array(pt, dtype=np.int64)
                    if (A.dot(x) >= b).all():
                        feas.append(x)
        if not feas:
            out.append((None, 0, 4))
            continue
        vals = [int(np.dot(np.asarray(obj, dtype=np.int64), x)) for x in feas]
        k = max(range(len(feas)), key=lambda i: (vals[i], tuple(-int(t) for t in feas[i])))
        out.append((feas[k], vals[k], 5))
    return out


# ------------------------------------------------------------------------------------------------------------------
def c09_purity(tier, seed):
    """C09: queries never change the object they are called on; results equal those on a fresh identical object"""
    import puan
    import puan.logic.plog as pg
    import puan.modules.configurator as cc
    r = _result("rt.c09_purity", "random validated models/configurators x sequences of 3 public calls (evaluate / "
                "evaluate_propositions / assume with interpretations that may name sub-proposition ids, reduce, negate, errors, "
                "flatten, to_json, to_short, to_text, to_b64, to_ge_polyhedron, solve(custom solver)); deep snapshot before/after each "
                "call and comparison of every result with the same call on a freshly unpickled copy; non-trivial = distinct "
                "(method, whether the interpretation names a compound id)")
    calls = ["evaluate", "evaluate_propositions", "assume", "reduce", "negate", "errors", "flatten", "to_json", "to_short",
             "to_text", "to_b64", "to_ge_polyhedron", "solve"]

    def do(m, name, arg):
        if name in ("evaluate", "evaluate_propositions", "assume"):
            res = getattr(m, name)(dict(arg))
        elif name == "to_ge_polyhedron":
            res = m.to_ge_polyhedron(True)
        elif name == "solve":
            res = list(m.solve([{}], dummy_solver)) if len(leaves_of(m)) <= 6 else None
        else:
            res = getattr(m, name)()
        return _snapshot(res) if not isinstance(res, (str, int, list)) or name in ("flatten", "errors") else json.dumps(res, default=str)

    for m0, rng in _models(tier, seed + 21, n_quick=60, n_thorough=500, depth=2):
        blob = pickle.dumps(m0)
        m = pickle.loads(blob)
        leaves = leaves_of(m0)
        subs = [x.id for x in m0.flatten() if not is_var(x)]
        tainted = False   # an earlier assume-family call named a sub-proposition id (known finding D2 leaks state)
        for step in range(3):
            name = rng.choice(calls)
            arg = {}
            if name in ("evaluate", "evaluate_propositions", "assume"):
                arg = {v.id: rng.randint(v.bounds.lower, min(v.bounds.upper, v.bounds.lower + 3)) for v in leaves
                       if rng.random() < 0.6}
                if rng.random() < 0.5 and subs:
                    arg[rng.choice(subs)] = rng.randrange(2)
            names_compound = any(k in subs for k in arg)
            before = _snapshot(m)
            try:
                got = do(m, name, arg)
                exp = do(pickle.loads(blob), name, arg)
            except BaseException as e:
                r.setdefault("raised", {}).setdefault(f"{name}:{type(e).__name__}", 0)
                r["raised"][f"{name}:{type(e).__name__}"] += 1
                continue
            after = _snapshot(m)
            r["evaluations"] += 1
            r["_seen"].add((name, names_compound))
            w = {"model": m0.to_text(), "call": name, "arg": {str(k): v for k, v in arg.items()}, "step": step}
            family = name in ("evaluate", "evaluate_propositions", "assume")
            if before != after:
                diff = _first_diff(before, after)
                # known finding D2: the ONLY thing that changed is the `variable` attribute of sub-propositions (decided on
                # the structure of the snapshots, not on their text)
                paths = _diff_paths(json.loads(before), json.loads(after))
                only_variable = bool(paths) and all("variable" in p for p in paths)
                site = "AtLeast.assume:self.variable" if (family and names_compound and only_variable) else name
                _viol(r, f"c09.receiver-changed[{site}]", w, store=diff)
            if got != exp:
                _viol(r, "c09.result-depends-on-history[%s]" % ("after AtLeast.assume:self.variable" if tainted else name), w)
            if family and names_compound:
                tainted = True
    return _finish(r)


def _diff_paths(a, b, path=()):
    """key paths at which two snapshot structures differ"""
    if type(a) is not type(b):
        return [path]
    if isinstance(a, dict):
        out = []
        for k in sorted(set(a) | set(b)):
            if k not in a or k not in b:
                out.append(path + (k,))
            else:
                out += _diff_paths(a[k], b[k], path + (k,))
        return out
    if isinstance(a, list):
        if len(a) != len(b):
            return [path]
        out = []
        for i, (x, y) in enumerate(zip(a, b)):
            out += _diff_paths(x, y, path + (i,))
        return out
    return [] if a == b else [path]


def _first_diff(a, b):
    for k in range(min(len(a), len(b))):
        if a[k] != b[k]:
            return a[max(0, k - 60):k + 60] + "  =>  " + b[max(0, k - 60):k + 60]
    return "length differs"


def c09_configurator_cache(tier, seed):
    """C09: a configurator's polyhedron / leafs / solutions depend only on its own definition"""
    import puan
    import puan.logic.plog as pg
    import puan.modules.configurator as cc
    r = _result("rt.c09_configurator_cache", "pairs of configurators with the same id and the same rule structure that differ only "
                "in leaf bounds (incl. equal-sum bounds (0,3)/(1,2), (-1,0)/(-2,0)) or only in one threshold, queried one after the "
                "other in both orders, compared with the same queries in fresh processes-worth of state (freshly built objects, "
                "caches cleared is NOT done: the property is about one process); non-trivial = distinct (variation kind, query)")
    variants = [((0, 3), (1, 2)), ((-1, 0), (-2, 0)), ((0, 1), (0, 1)), ((0, 2), (1, 1)), ((-1, 5), (-2, 5))]
    for b1, b2 in variants:
        for cid in ("cfg", None):
            def build(b):
                return cc.StingyConfigurator(
                    cc.Xor(puan.variable("x", b), "y", "z", default=["y"], variable="X"),
                    pg.Imply("y", pg.Any("p", "q", variable="PQ"), variable="I"),
                    id=cid)
            for order in (0, 1):
                c1, c2 = build(b1), build(b2)
                first, second = (c1, c2) if order == 0 else (c2, c1)
                for q in ("ge_polyhedron", "leafs", "select"):
                    def ask(cfg):
                        if q == "ge_polyhedron":
                            p = cfg.ge_polyhedron
                            return json.dumps([p.tolist(), [(str(v.id), list(v.bounds.as_tuple())) for v in p.variables],
                                               [float(x) for x in p.default_prio_vector]])
                        if q == "leafs":
                            return json.dumps([(str(v.id), list(v.bounds.as_tuple())) for v in cfg.leafs()])
                        return json.dumps(list(cfg.select({"p": 1}, solver=dummy_solver)), default=str)
                    a1, a2 = ask(first), ask(second)
                    # reference: what each definition answers when asked alone as the very first query on a new id
                    r["evaluations"] += 1
                    r["_seen"].add((str((b1, b2)), q))
                    ref = _reference_answer(build, b1 if second is c1 else b2, q, ask)
                    if a2 != ref:
                        _viol(r, "c09.configurator-answer-depends-on-other-configurator",
                              {"bounds_first": list(b1 if first is c1 else b2), "bounds_second": list(b2 if second is c2 else b1),
                               "query": q, "id": cid}, got=a2[:200], expected=ref[:200])
    # ids that differ only by blanks (to_text() strips blanks): every compound id explicit
    for q in ("ge_polyhedron", "select"):
        def build2(sp):
            item = "summer%s18" % sp
            return cc.StingyConfigurator(pg.Any(item, "y", "z", variable="X%s1" % sp),
                                         pg.AtMost(1, ["y", pg.Any("p", "q", variable="P%sQ" % sp)], variable="I%sm" % sp),
                                         id="cfg%sid" % sp)
        outs = []
        for sp in (" ", ""):
            cfg = build2(sp)
            p = cfg.ge_polyhedron
            if q == "ge_polyhedron":
                outs.append(sorted(str(v.id) for v in p.variables))
            else:
                outs.append(sorted(str(k) for k in list(cfg.select({"p": 1}, solver=dummy_solver))[0][0].keys()))
            want = sorted([str(x.id) for x in cfg.flatten()] + (["0"] if q == "ge_polyhedron" else []))
            r["evaluations"] += 1
            r["_seen"].add(("blank-ids", q))
            got = outs[-1]
            if not (set(got) - {"0"} <= set(want)):
                _viol(r, "c09.configurator-answer-depends-on-other-configurator", {"ids": "blank-variant %r" % sp, "query": q},
                      got=got, expected=want)
    return _finish(r)


def c09_configurator_purity(tier, seed):
    """C09 for configurators: select / add / ge_polyhedron / default_prios / leafs / to_json / to_b64 never change the
    configurator they are called on; every answer equals the answer of a freshly built identical configurator"""
    import puan
    import puan.logic.plog as pg
    import puan.modules.configurator as cc
    r = _result("rt.c09_configurator_purity", "configurators over <=6 items x sequences of 4 calls out of (select with a priority, "
                "select only_leafs, add(new rule), ge_polyhedron, default_prios, leafs, to_json, to_b64, flatten, errors, "
                "StingyConfigurator.from_json / plog.from_json of its own record); after every call five probes on OTHER objects (plog.from_json "
                "of an Any-with-default and a Xor record, StingyConfigurator.from_json, plog.Any, cc.Any) must answer as at process start; "
                "structural snapshot of the receiver (memo fields excluded) before/after each call and comparison of each answer "
                "with the same call on a freshly built copy; non-trivial = distinct (call, position in the sequence)")
    rng = random.Random(seed + 301)
    calls = ["select", "select_leafs", "add", "ge_polyhedron", "default_prios", "leafs", "to_json", "to_b64", "flatten", "errors"]

    def build(k):
        rules = [cc.Xor("a", "b", "c", default=["b"], variable="X"), cc.Any("d", "e", default=["d"], variable="Y"),
                 pg.Imply("a", pg.Any("d", "f", variable="DF"), variable="I"), pg.AtMost(1, ["c", "e"], variable="M")]
        return cc.StingyConfigurator(*rules[: 2 + k % 3], id="purity")

    def do(cfg, name):
        if name == "select":
            return json.dumps([_jsonable(x) for x in cfg.select({"a": 1}, solver=dummy_solver)], default=str)
        if name == "select_leafs":
            return json.dumps([_jsonable(x) for x in cfg.select({"c": 1}, solver=dummy_solver, only_leafs=True)], default=str)
        if name == "add":
            return cfg.add(pg.Any("g", "h", variable="NEW")).to_text()
        if name == "ge_polyhedron":
            p = cfg.ge_polyhedron
            return json.dumps([p.tolist(), [str(v.id) for v in p.variables]])
        if name == "default_prios":
            return json.dumps(sorted((str(k_), int(v)) for k_, v in cfg.default_prios.items()))
        if name == "leafs":
            return json.dumps([str(v.id) for v in cfg.leafs()])
        if name == "to_json":
            return json.dumps(cfg.to_json(), sort_keys=True, default=str)
        if name == "to_b64":
            return cc.StingyConfigurator.from_b64(cfg.to_b64()).to_text() if hasattr(cc.StingyConfigurator, "from_b64") else ""
        if name == "flatten":
            return json.dumps([str(x.id) for x in cfg.flatten()])
        return json.dumps([str(e) for e in cfg.errors()])

    def shape(cfg):
        return json.dumps([cfg.to_text(), len(cfg.propositions), int(cfg.value), int(cfg.sign), str(cfg.id)])

    # probes on OTHER objects: what these return at process start is what they must return after any history of calls
    any_doc = {"type": "Any", "id": "P", "propositions": [{"id": "p"}, {"id": "q"}, {"id": "r"}], "default": ["q"]}
    xor_doc = {"type": "Xor", "id": "Q", "propositions": [{"id": "p"}, {"id": "q"}]}
    cfg_doc = {"id": "cfgdoc", "propositions": [any_doc, xor_doc]}

    def _probe(f):
        try:
            return f()
        except Exception as e:
            return "raised " + type(e).__name__
    probes = {
        "plog.from_json(Any with default)": lambda: (lambda m: [type(m).__module__, type(m).__name__, m.to_text()])(pg.from_json(json.loads(json.dumps(any_doc)))),
        "plog.from_json(Xor)": lambda: (lambda m: [type(m).__module__, type(m).__name__, m.to_text()])(pg.from_json(json.loads(json.dumps(xor_doc)))),
        "StingyConfigurator.from_json": lambda: (lambda m: [type(m).__name__, m.to_text(), sorted((str(a), int(b)) for a, b in m.default_prios.items())])(
            cc.StingyConfigurator.from_json(json.loads(json.dumps(cfg_doc)))),
        "cc.Any around a caller-owned sub-proposition": lambda: (lambda r_: [r_.to_text(), getattr(_shared_sub, "prio", None),
                                                                             sorted((str(a), int(b)) for a, b in cc.StingyConfigurator(r_, id="sh").default_prios.items())])(
            cc.Any("e2", _shared_sub, default=["e2"], variable="w")),
        "plog.Any(...)": lambda: pg.Any("p", "q", variable="Z").to_text(),
        "cc.Any(..., default)": lambda: cc.Any("p", "q", "r", default=["r"], variable="Z").to_text(),
    }
    _shared_sub = pg.All("p", "q", variable="S")           # one object, used by the probe every time
    at_start = {k_: _probe(f) for k_, f in probes.items()}
    calls = calls + ["from_json", "plog_from_json"]
    _do = do

    def do(cfg, name):
        if name == "from_json":
            return cc.StingyConfigurator.from_json(json.loads(json.dumps(cfg.to_json()))).to_text()
        if name == "plog_from_json":
            return pg.from_json(json.loads(json.dumps(cfg.to_json()))).to_text()
        return _do(cfg, name)

    n = 40 if tier == "quick" else 300
    for k in range(n):
        cfg = build(k)
        for step in range(4):
            name = rng.choice(calls)
            before = shape(cfg)
            try:
                got = do(cfg, name)
            except Exception as e:
                got = "raised " + type(e).__name__
            after = shape(cfg)
            try:
                exp = do(build(k), name)
            except Exception as e:
                exp = "raised " + type(e).__name__
            r["evaluations"] += 1
            r["_seen"].add((name, step))
            w = {"rules": 2 + k % 3, "call": name, "step": step}
            if before != after:
                _viol(r, f"c09.configurator-changed-by[{name}]", w, before=before[:300], after=after[:300])
            if got != exp:
                _viol(r, f"c09.configurator-answer-depends-on-history[{name}]", w, got=got[:300], expected=exp[:300])
            for pname, f in probes.items():
                now = _probe(f)
                if now != at_start[pname]:
                    _viol(r, f"c09.other-object-answer-depends-on-history[{pname}]", dict(w, probe=pname),
                          at_process_start=str(at_start[pname])[:300], now=str(now)[:300])
    return _finish(r)


def _jsonable(x):
    if isinstance(x, dict):
        return {str(k): _jsonable(v) for k, v in sorted(x.items(), key=lambda kv: str(kv[0]))}
    if isinstance(x, (list, tuple)):
        return [_jsonable(v) for v in x]
    try:
        return int(x)
    except Exception:
        return str(x)


def _reference_answer(build, b, q, ask):
    """answer of a configurator with bounds b built under a unique id (cannot collide with any cached one), mapped back"""
    import puan
    import puan.logic.plog as pg
    import puan.modules.configurator as cc
    cfg = cc.StingyConfigurator(
        cc.Xor(puan.variable("x", b), "y", "z", default=["y"], variable="X"),
        pg.Imply("y", pg.Any("p", "q", variable="PQ"), variable="I"),
        id="ref-%s-%s" % b)
    return ask(cfg)


def c18_add(tier, seed):
    """C18: add() == construction with the extra rule; id kept; original unchanged; refuses an existing top-level id"""
    import puan
    import puan.logic.plog as pg
    import puan.modules.configurator as cc
    r = _result("rt.c18_add", "configurators over <=6 items built from random rules (plain/defaulted Any/Xor, All, AtMost, Imply) "
                "x sequences of 1..3 added rules; structure (to_text), default_prios, polyhedron and select() answers compared with "
                "direct construction; refusal for ids of existing top-level rules/items; non-trivial = distinct (rule kinds, "
                "sequence length)")
    rng = random.Random(seed + 31)
    items = list("abcdef")
    counter = itertools.count()

    def rule(k=None):
        k = k or rng.choice(["any", "xor", "anyd", "xord", "all", "atmost", "imply"])
        xs = rng.sample(items, rng.randint(2, 3))
        vid = f"R{next(counter)}"
        if k == "any": return k, cc.Any(*xs, variable=vid)
        if k == "xor": return k, cc.Xor(*xs, variable=vid)
        if k == "anyd": return k, cc.Any(*xs, default=[xs[0]], variable=vid)
        if k == "xord": return k, cc.Xor(*xs, default=[xs[0]], variable=vid)
        if k == "all": return k, pg.All(*xs, variable=vid)
        if k == "atmost": return k, pg.AtMost(1, xs, variable=vid)
        return k, pg.Imply(xs[0], pg.Any(*xs[1:], variable=vid + "q"), variable=vid)

    n = 40 if tier == "quick" else 300
    for _ in range(n):
        base = [rule() for _ in range(rng.randint(1, 2))]
        extra = [rule() for _ in range(rng.randint(1, 3))]
        try:
            cfg = cc.StingyConfigurator(*[pickle.loads(pickle.dumps(x[1])) for x in base], id="cfg")
        except Exception:
            continue
        if cfg.errors() != []:
            continue
        if rng.random() < 0.6:
            # the original may already have been queried (memoized polyhedron / leafs) before it is extended
            _ = cfg.ge_polyhedron
            _ = cfg.leafs()
        before = _snapshot(cfg)
        cur = cfg
        ok = True
        for _, e in extra:
            try:
                cur = cur.add(pickle.loads(pickle.dumps(e)))
            except Exception as ex:
                ok = False
                break
        if not ok:
            continue
        direct = cc.StingyConfigurator(*[pickle.loads(pickle.dumps(x[1])) for x in base + extra], id="cfg")
        if direct.errors() != []:
            continue
        r["evaluations"] += 1
        r["_seen"].add((tuple(sorted(k for k, _ in base + extra)), len(extra)))
        w = {"base": [x[1].to_json() for x in base], "added": [x[1].to_json() for x in extra]}
        if _snapshot(cfg) != before:
            _viol(r, "c18.original-changed", w)
        if cur.id != "cfg":
            _viol(r, "c18.id-not-kept", w)
        if cur.to_text() != direct.to_text():
            _viol(r, "c18.structure-differs", w, got=cur.to_text(), want=direct.to_text())
        if cur.default_prios != direct.default_prios:
            _viol(r, "c18.default-prios-differ", w)
        p1, p2 = cur.ge_polyhedron, direct.ge_polyhedron
        if p1.tolist() != p2.tolist() or [v.id for v in p1.variables] != [v.id for v in p2.variables]:
            _viol(r, "c18.polyhedron-differs", w)
        if [v.id for v in cur.leafs()] != [v.id for v in direct.leafs()]:
            _viol(r, "c18.leafs-differ", w, got=[str(v.id) for v in cur.leafs()], want=[str(v.id) for v in direct.leafs()])
        prio = {rng.choice(items): rng.choice([1, 2, -1])}
        if len(leaves_of(direct)) <= 6:
            l1 = json.dumps(list(cur.select(prio, solver=dummy_solver, only_leafs=True)), default=str)
            l2 = json.dumps(list(direct.select(prio, solver=dummy_solver, only_leafs=True)), default=str)
            if l1 != l2:
                _viol(r, "c18.solutions-differ", w, prio=prio, only_leafs=True)
            s1 = json.dumps(list(cur.select(prio, solver=dummy_solver)), default=str)
            s2 = json.dumps(list(direct.select(prio, solver=dummy_solver)), default=str)
            if s1 != s2:
                _viol(r, "c18.solutions-differ", w, prio=prio)
        # refusal: also for a rule without explicit id whose (generated) id is already there
        anon = pg.Any("a", "f")
        try:
            twice = cur.add(pickle.loads(pickle.dumps(anon)))
            try:
                twice.add(pickle.loads(pickle.dumps(anon)))
                _viol(r, "c18.duplicate-id-accepted", dict(w, taken="generated id of Any(a,f)"))
            except Exception:
                pass
        except Exception:
            pass
        for taken in [x[1].id for x in base + extra]:
            try:
                cur.add(pg.All("a", "b", variable=taken))
                _viol(r, "c18.duplicate-id-accepted", dict(w, taken=taken))
            except Exception:
                pass
    # a rule whose id names only a NESTED sub-proposition with the identical definition (sharing, no top-level clash):
    # direct construction validates, so add() must accept and give the same configurator
    for shared, base_rule in ((lambda: pg.Any("x", "y"), lambda sh: pg.Imply("a", sh, variable="I")),
                              (lambda: pg.Any("x", "y", variable="S"), lambda sh: pg.Imply("a", sh, variable="I")),
                              (lambda: pg.AtMost(1, ["x", "y", "z"], variable="S"), lambda sh: pg.All(sh, "b", variable="Q"))):
        try:
            direct = cc.StingyConfigurator(base_rule(shared()), cc.Any("p", "q", default=["p"], variable="D"), shared(), id="nested")
            ok_direct = direct.errors() == []
        except Exception:
            ok_direct = False
        if not ok_direct:
            continue
        base_cfg = cc.StingyConfigurator(base_rule(shared()), cc.Any("p", "q", default=["p"], variable="D"), id="nested")
        r["evaluations"] += 1
        r["_seen"].add(("nested-shared", str(shared().id)[:4]))
        w = {"base": base_cfg.to_json(), "added": shared().to_json()}
        try:
            got = base_cfg.add(shared())
        except Exception as e:
            _viol(r, "c18.add-refuses-rule-that-direct-construction-accepts", w, error=repr(e)[:200])
            continue
        if got.to_text() != direct.to_text() or got.default_prios != direct.default_prios \
                or got.ge_polyhedron.tolist() != direct.ge_polyhedron.tolist():
            _viol(r, "c18.structure-differs", w, got=got.to_text(), want=direct.to_text())
    # bare ITEMS directly under the configurator, with boolean and non-boolean bounds, next to the rules
    for b in ((0, 1), (0, 3), (-1, 2), (1, 1), (2, 5)):
        mk = lambda: [puan.variable("n", b), pg.Any("a", "b", variable="R")]
        new = lambda: pg.AtMost(1, ["b", "c"], variable="N")
        base_cfg = cc.StingyConfigurator(*mk(), id="items")
        direct = cc.StingyConfigurator(*mk(), new(), id="items")
        if direct.errors() != []:
            continue
        r["evaluations"] += 1
        r["_seen"].add(("top-level-item", b))
        w = {"base": base_cfg.to_json(), "added": new().to_json()}
        try:
            got = base_cfg.add(new())
        except Exception as e:
            _viol(r, "c18.add-refuses-rule-that-direct-construction-accepts", w, error=repr(e)[:200])
            continue
        pb = lambda m: [(str(v.id), tuple(int(t) for t in v.bounds.as_tuple())) for v in m.ge_polyhedron.variables]
        if got.to_text() != direct.to_text() or got.to_json() != direct.to_json() or pb(got) != pb(direct) \
                or got.ge_polyhedron.tolist() != direct.ge_polyhedron.tolist():
            _viol(r, "c18.structure-differs", w, got=got.to_text(), want=direct.to_text(), bounds_got=pb(got), bounds_want=pb(direct))
    return _finish(r)


def c17_b64(tier, seed):
    """C17: base64 round trip reproduces propositions and configured polyhedra"""
    import puan
    import puan.logic.plog as pg
    import puan.ndarray as pnd
    import puan.modules.configurator as cc
    r = _result("rt.c17_b64", "random validated models and configurators: to_b64/from_b64 compared on to_text, classes, ids, bounds, "
                "generated_id, prio/default tags; ge_polyhedron_config: matrix, variables, index, default_prio_vector and select() "
                "with the same solver; non-trivial = distinct (kind, class of top node)")
    for m0, rng in _models(tier, seed + 41, n_quick=60, n_thorough=400, depth=3):
        try:
            s = m0.to_b64()
            m1 = pg.from_b64(s)
        except BaseException as e:
            _viol(r, "c17.roundtrip-raises", {"model": m0.to_text()}, error=repr(e)[:200])
            continue
        r["evaluations"] += 1
        r["_seen"].add(("model", type(m0).__name__))
        if _snapshot(m0) != _snapshot(m1) or m0.to_text() != m1.to_text() or type(m0) is not type(m1):
            _viol(r, "c17.model-differs", {"model": m0.to_text()})
        if m1.to_b64() != s:
            _viol(r, "c17.second-encoding-differs", {"model": m0.to_text()})
        # models whose state holds numpy integers: the result of assume() (bounds computed with numpy), thresholds and
        # bounds given as numpy values
        import numpy as np
        lv = leaves_of(m0)
        derived = []
        if lv:
            v0 = lv[0]
            try:
                derived.append(("assume", m0.assume({v0.id: int(v0.bounds.lower)})))
            except Exception:
                pass
        try:
            derived.append(("numpy-threshold", pg.AtLeast(np.int64(1), [m0, puan.variable("zz9", bounds=np.array([0, 3]))], variable="NPY")))
        except Exception:
            pass
        for kind, d0 in derived:
            if is_var(d0):
                continue
            try:
                d1 = pg.from_b64(d0.to_b64())
            except BaseException as e:
                _viol(r, "c17.roundtrip-raises", {"model": d0.to_text(), "built_by": kind}, error=repr(e)[:200])
                continue
            r["evaluations"] += 1
            r["_seen"].add(("derived", kind))
            if d0.to_text() != d1.to_text() or type(d0) is not type(d1):
                _viol(r, "c17.model-differs", {"model": d0.to_text(), "built_by": kind})
    rng = random.Random(seed + 43)
    n = 25 if tier == "quick" else 150
    for k in range(n):
        xs = rng.sample(list("abcdef"), 3)
        extra = []
        if k % 3 == 0:
            # very wide integer item: coefficients and thresholds beyond 32 bits must survive
            extra = [pg.AtLeast(2500000000, [puan.variable("t", (0, 3000000000))], variable="T")]
        cfg = cc.StingyConfigurator(
            cc.Xor(*xs, default=[xs[0]], variable="X") if k % 2 else cc.Any(*xs, default=[xs[1]], variable="X"),
            pg.Imply(xs[0], pg.Any("p", puan.variable("q", (0, 1)), variable="PQ"), variable="I"), *extra,
            id=("cfg%d" % k) if k % 5 else puan.variable("cfg%d" % k, bounds=(1, 1)))     # every fifth: asserted by its own bounds
        # the configurator itself, packed after it has been queried, answers like the original
        if not extra:
            _ = cfg.ge_polyhedron
            _ = cfg.leafs()
            c2 = pg.from_b64(cfg.to_b64())
            try:
                a_ = json.dumps(list(cfg.select({xs[0]: 1}, solver=dummy_solver)), default=str)
                b_ = json.dumps(list(c2.select({xs[0]: 1}, solver=dummy_solver)), default=str)
                same_cfg = (a_ == b_ and c2.to_text() == cfg.to_text() and c2.default_prios == cfg.default_prios
                            and _snapshot(c2) == _snapshot(cfg)            # classes (module-qualified), defaults, prio tags, flags
                            and c2.ge_polyhedron.tolist() == cfg.ge_polyhedron.tolist()
                            and [v.id for v in c2.ge_polyhedron.variables] == [v.id for v in cfg.ge_polyhedron.variables])
            except BaseException as e:
                same_cfg = False
            r["evaluations"] += 1
            r["_seen"].add(("configurator-after-query", k % 2))
            if not same_cfg:
                _viol(r, "c17.configurator-differs-after-roundtrip", {"config": cfg.to_json()})
        p0 = cfg.ge_polyhedron
        try:
            p1 = pnd.ge_polyhedron_config.from_b64(p0.to_b64())
        except BaseException as e:
            _viol(r, "c17.roundtrip-raises", {"config": cfg.to_json()}, error=repr(e)[:200])
            continue
        r["evaluations"] += 1
        r["_seen"].add(("config", k % 2))
        w = {"config": cfg.to_json()}
        same = (p0.tolist() == p1.tolist() and [v.id for v in p0.variables] == [v.id for v in p1.variables]
                and [v.bounds.as_tuple() for v in p0.variables] == [v.bounds.as_tuple() for v in p1.variables]
                and [getattr(i, "id", i) for i in p0.index] == [getattr(i, "id", i) for i in p1.index]
                and list(map(float, p0.default_prio_vector)) == list(map(float, p1.default_prio_vector))
                and type(p0) is type(p1))
        if not same:
            _viol(r, "c17.config-polyhedron-differs", w)
        prio = {rng.choice(xs): rng.choice([1, -1, 2])}
        if not extra:
            a = json.dumps(list(p0.select(prio, solver=dummy_solver)), default=str)
            b = json.dumps(list(p1.select(prio, solver=dummy_solver)), default=str)
            if a != b:
                _viol(r, "c17.select-differs", w, prio=prio)
    return _finish(r)


def c16_configurator_json(tier, seed):
    """C16 (configurators): to_json/from_json keeps defaults, default priorities and polyhedron"""
    import puan
    import puan.logic.plog as pg
    import puan.modules.configurator as cc
    r = _result("rt.c16_configurator_json", "configurators with defaulted/plain Any/Xor and implication rules through "
                "json.dumps/loads (default lists of one and two entries): to_text, default lists, default_prios and polyhedron compared; non-trivial = distinct rule-kind multisets")
    rng = random.Random(seed + 51)
    n = 40 if tier == "quick" else 300
    for k in range(n):
        rules = []
        kinds = []
        for j in range(rng.randint(1, 3)):
            xs = rng.sample(list("abcdefg"), rng.randint(2, 3))
            kind = rng.choice(["any", "anyd", "xor", "xord", "imply", "atmost", "anydd", "xordd"])
            kinds.append(kind)
            vid = f"R{j}"
            if kind == "any": rules.append(cc.Any(*xs, variable=vid))
            elif kind == "anyd": rules.append(cc.Any(*xs, default=[xs[-1]], variable=vid))
            elif kind == "xor": rules.append(cc.Xor(*xs, variable=vid))
            elif kind == "xord": rules.append(cc.Xor(*xs, default=[xs[0]], variable=vid))
            # default lists of two entries, in an order that need not be the sorted one (the first entry is THE default)
            elif kind == "anydd": rules.append(cc.Any(*xs, default=sorted(xs, reverse=True)[:2], variable=vid))
            elif kind == "xordd": rules.append(cc.Xor(*xs, default=[xs[-1], xs[0]], variable=vid))
            elif kind == "atmost": rules.append(pg.AtMost(1, xs, variable=vid))
            else: rules.append(pg.Imply(xs[0], cc.Any(*xs[1:], default=[xs[1]], variable=vid + "c") if len(xs) > 2 else xs[1], variable=vid))
        cfg = cc.StingyConfigurator(*rules, id="cfg")
        if cfg.errors() != []:
            continue
        js = json.loads(json.dumps(cfg.to_json()))
        try:
            c2 = cc.StingyConfigurator.from_json(js)
        except Exception as e:
            _viol(r, "c16.configurator-from_json-raises", {"json": js}, error=repr(e))
            continue
        r["evaluations"] += 1
        r["_seen"].add(tuple(sorted(kinds)))
        w = {"json": js}
        if cfg.to_text() != c2.to_text():
            _viol(r, "c16.configurator-structure-differs", w, got=c2.to_text(), want=cfg.to_text())
        if cfg.default_prios != c2.default_prios:
            _viol(r, "c16.configurator-default-prios-differ", w)
        dl = lambda m: sorted((str(x.id), [str(v.id) for v in x.default]) for x in m.flatten() if getattr(x, "default", None))
        if dl(cfg) != dl(c2):
            _viol(r, "c16.configurator-default-lists-differ", w, got=dl(c2), want=dl(cfg))
        if cfg.ge_polyhedron.tolist() != c2.ge_polyhedron.tolist():
            _viol(r, "c16.configurator-polyhedron-differs", w)
    return _finish(r)


def c15_bridge(tier, seed):
    """C15: objectives/solutions/ids aligned in solve() and select()"""
    import numpy as np
    import puan
    import puan.logic.plog as pg
    import puan.ndarray as pnd
    import puan.modules.configurator as cc
    r = _result("rt.c15_bridge", "random validated models x objective dictionaries with distinct weights, a recording solver that "
                "returns a vector with a distinct value per column (and None): objective vector entries, reported dictionaries, "
                "generated-id filtering, only_leafs, None -> {} and exception -> InfeasibleError; plus an exact enumerating "
                "solver for optimality/model satisfaction on safe models; non-trivial = distinct (api, has generated ids)")
    for m0, rng in _models(tier, seed + 61, n_quick=60, n_thorough=400, depth=2):
        if not all(is_var(x) or x.bounds.as_tuple() == (0, 1) for x in m0.flatten()):
            continue
        leaves = leaves_of(m0)
        weights = {v.id: rng.randint(-5, 5) for v in leaves if rng.random() < 0.7}
        rec = {}

        def recording(poly, objs):
            rec["poly"] = poly
            rec["objs"] = [np.array(o) for o in objs]
            n = poly.A.shape[1]
            return [(np.arange(100, 100 + n), 7, 5), (None, 0, 4)]
        for incl in (False, True):
            out = list(pickle.loads(pickle.dumps(m0)).solve([dict(weights), {}], recording, include_virtual_variables=incl))
            poly = rec["poly"]
            cols = list(poly.A.variables)
            r["evaluations"] += 1
            gen = any(getattr(c, "generated_id", False) for c in cols)
            r["_seen"].add(("solve", gen, incl))
            w = {"model": m0.to_text(), "weights": {str(k): v for k, v in weights.items()}, "include_virtual": incl}
            exp_obj = [weights.get(c.id, 0) for c in cols]
            if list(map(int, rec["objs"][0])) != exp_obj or any(int(x) != 0 for x in rec["objs"][1]):
                _viol(r, "c15.solve-objective-misaligned", w, got=list(map(int, rec["objs"][0])), want=exp_obj)
            want = {c.id: 100 + k for k, c in enumerate(cols)
                    if is_var(c) or incl or not getattr(c, "generated_id", False)}
            if out[0][0] != want or out[0][1] != 7 or out[0][2] != 5:
                _viol(r, "c15.solve-result-misaligned", w, got=str(out[0][0])[:300], want=str(want)[:300])
            if out[1][0] != {}:
                _viol(r, "c15.solve-none-not-empty", w)
            ref = pickle.loads(pickle.dumps(m0)).to_ge_polyhedron(active=True)
            if poly.tolist() != ref.tolist():
                _viol(r, "c15.solve-not-asserted-polyhedron", w)
        # exact solver: optimal and (safe models) satisfying
        if len(leaves) <= 5 and all(v.bounds.upper - v.bounds.lower <= 3 for v in leaves):
            sol = list(pickle.loads(pickle.dumps(m0)).solve([dict(weights)], dummy_solver, include_virtual_variables=True))[0]
            if sol[0]:
                env = {v.id: sol[0][v.id] for v in leaves if v.id in sol[0]}
                for v in leaves:
                    env.setdefault(v.id, v.bounds.lower)
                if solver_safe(m0) and ref_truth(m0, env) != 1:
                    _viol(r, "c15.exact-solution-violates-safe-model", {"model": m0.to_text(), "solution": {str(k): int(v) for k, v in sol[0].items()}})
    # select
    rng = random.Random(seed + 63)
    for k in range(30 if tier == "quick" else 200):
        xs = rng.sample(list("abcdef"), 3)
        cfg = cc.StingyConfigurator(cc.Xor(*xs, default=[xs[0]], variable="X"),
                                    pg.Imply(xs[1], pg.Any("p", "q"), variable="I"), id="c15-%d-%d" % (seed, k))
        rec = {}

        def recording(poly, objs):
            rec["poly"], rec["objs"] = poly, [np.array(o) for o in objs]
            n = poly.A.shape[1]
            return [(np.arange(100, 100 + n), 3, 5), (None, 0, 4)]
        prio = {rng.choice(xs): rng.choice([1, 2, -1, -2]), "p": 1}
        for only in (False, True):
            out = list(cfg.select(prio, {}, solver=recording, only_leafs=only))
            poly = rec["poly"]
            cols = list(poly.A.variables)
            r["evaluations"] += 1
            r["_seen"].add(("select", only))
            w = {"config": cfg.to_json(), "prio": prio, "only_leafs": only}
            exp_objs = poly._vectors_from_prios([prio, {}])
            if [list(map(int, o)) for o in rec["objs"]] != [list(map(int, o)) for o in exp_objs]:
                _viol(r, "c15.select-objective-misaligned", w)
            batched = [list(map(int, o)) for o in rec["objs"]]
            singles = []
            for p_ in (prio, {}):
                list(cfg.select(p_, solver=recording))
                singles.append(list(map(int, rec["objs"][0])))
            if batched != singles:
                _viol(r, "c15.select-objective-misaligned", dict(w, note="batched request differs from the same requests made one by one"),
                      got=batched, want=singles)
            # entry k of the objective is driven by the priority given for column k's id (sign and zero-ness)
            dp = cfg.default_prios
            for j, c in enumerate(cols):
                if c.id in prio and ((batched[0][j] > 0) != (prio[c.id] > 0)):
                    _viol(r, "c15.select-objective-misaligned", dict(w, note="sign of a prioritised column"), column=str(c.id))
            leaf_ids = {v.id for v in leaves_of(cfg)}
            got = out[0][0] if not only else out[0]
            want = {c.id: 100 + j for j, c in enumerate(cols) if (not only or c.id in leaf_ids)}
            if got != want:
                _viol(r, "c15.select-result-misaligned", w, got=str(got)[:300], want=str(want)[:300])
            got_none = out[1][0] if not only else out[1]
            if got_none != {}:
                _viol(r, "c15.select-none-not-empty", w)
        try:
            def boom(poly, objs):
                raise RuntimeError("solver down")
            list(cfg.select(prio, solver=boom))
            _viol(r, "c15.select-exception-not-surfaced", {"config": cfg.to_json()})
        except pnd.InfeasibleError:
            pass
        except Exception as e:
            _viol(r, "c15.select-exception-wrong-type", {"config": cfg.to_json()}, error=repr(e))
    return _finish(r)


def c14_objectives(tier, seed):
    """C14: objective ranks feasible configurations lexicographically: user prios, then defaults, then fewer selections"""
    import numpy as np
    import puan
    import puan.logic.plog as pg
    import puan.modules.configurator as cc
    r = _result("rt.c14_objectives", "configurators over <=6 boolean items (plain/defaulted Any/Xor, AtMost, All, Imply) x priority "
                "dictionaries with values in {-2..2} x ALL pairs of feasible 0/1 points of the polyhedron: obj.x > obj.y iff "
                "lexkey(x) > lexkey(y), lexkey = (user levels high->low: +selected/-avoided, number of non-default branches taken "
                "(negated), number of selected variables (negated)); non-trivial = distinct (rule kinds, number of prio levels)")
    rng = random.Random(seed + 71)
    n = 25 if tier == "quick" else 200
    # independent of default_prios: a default is chosen when nothing overrides it, a prioritised item when asked for,
    # and nothing more than necessary is selected
    for kind in ("Xor", "Any"):
        for xs in (["a", "b", "c"], ["p", "q"], ["a", "b", "c", "d"], ["Green", "blue", "0red"]):
            for d in xs:
                rule = (cc.Xor if kind == "Xor" else cc.Any)(*xs, default=[d], variable="rule")
                cfg0 = cc.StingyConfigurator(rule, pg.Imply("z", pg.Any(*xs[:2], variable="helper"), variable="imp"),
                                             id=["d-%s-%s-%s" % (kind, d, len(xs)), "main", "A"][len(d) % 3])
                sol = list(cfg0.select({}, solver=dummy_solver, only_leafs=True))[0]
                chosen = sorted(k_ for k_, v in sol.items() if int(v) == 1)
                r["evaluations"] += 1
                r["_seen"].add((kind, "default-chosen"))
                if chosen != [d]:
                    _viol(r, "c14.default-not-chosen", {"rule": rule.to_json(), "prio": {}}, chosen=chosen, default=d)
                other = [x for x in xs if x != d][0]
                sol = list(cfg0.select({other: 1}, solver=dummy_solver, only_leafs=True))[0]
                chosen = sorted(k_ for k_, v in sol.items() if int(v) == 1)
                if other not in chosen or (kind == "Xor" and chosen != [other]):
                    _viol(r, "c14.prioritised-item-not-selected", {"rule": rule.to_json(), "prio": {other: 1}}, chosen=chosen)
    # a priority on a NAMED sub-proposition (a group with its own id is an ordinary boolean column): selected when asked
    # for, avoided when asked against -- deterministic, independent of what the random part below happens to draw
    for gid, inner in (("sport", lambda v: pg.All("p", "q", variable=v)), ("eco", lambda v: pg.Any("p", "q", variable=v)),
                       ("Pack", lambda v: pg.AtLeast(2, ["p", "q", "r"], variable=v))):
        for cid in ("named-%s" % gid, "main", "A"):
            cfg0 = cc.StingyConfigurator(cc.Xor("a", "b", "c", default=["a"], variable="pick"),
                                         pg.Imply("z", inner(gid), variable="imp"), id=cid)
            for pv, want in ((1, 1), (2, 1), (-1, 0)):
                sol = list(cfg0.select({gid: pv}, solver=dummy_solver))[0][0]
                r["evaluations"] += 1
                r["_seen"].add(("named-group", gid, pv))
                if int(sol.get(gid, -1)) != want:
                    _viol(r, "c14.priority-on-named-group-ignored", {"config": cfg0.to_json(), "prio": {gid: pv}},
                          solution={str(k_): int(v) for k_, v in sol.items()}, expected={gid: want})
    # a request that names EVERY column of the polyhedron (items, rules and auxiliary variables alike), and polyhedra of ONE
    # column: every named column carries a weight of its priority's sign, larger magnitudes get larger weights
    one = cc.StingyConfigurator(puan.variable("t", (0, 3)), id="single")
    small = cc.StingyConfigurator(pg.Any("a", "b", "c", variable="X"), pg.AtMost(1, ["b", "c"], variable="Y"), id="M")
    for cfg0 in (one, small):
        poly0 = cfg0.ge_polyhedron
        ids0 = [v.id for v in poly0.A.variables]
        for sgn in (1, -1):
            for shift in (0, 2):
                prio0 = {cid: sgn * (k_ + 1 + shift) for k_, cid in enumerate(ids0)}
                obj0 = [int(x) for x in np.asarray(poly0._vectors_from_prios([prio0])[0], dtype=object)]
                r["evaluations"] += 1
                r["_seen"].add(("all-columns-named", len(ids0), sgn, shift))
                ok0 = all((o > 0) == (sgn > 0) and o != 0 for o in obj0) and \
                    all(abs(obj0[i]) < abs(obj0[j]) for i in range(len(ids0)) for j in range(len(ids0)) if abs(prio0[ids0[i]]) < abs(prio0[ids0[j]]))
                if not ok0:
                    _viol(r, "c14.objective-loses-a-named-column", {"config": cfg0.to_json(), "prio": {str(a_): b_ for a_, b_ in prio0.items()}},
                          objective=obj0, columns=[str(i) for i in ids0])
    # a default list of several entries: the FIRST listed entry is the default, whatever the order of the items
    for kind in ("Xor", "Any"):
        for xs, dl in ((["petrol", "diesel", "electric"], ["electric", "diesel"]), (["m", "a", "c"], ["c", "a"]),
                       (["a", "b", "c", "d"], ["d", "a", "b"]), (["a", "b"], ["b", "a"])):
            rule = (cc.Xor if kind == "Xor" else cc.Any)(*xs, default=list(dl), variable="rule")
            cfg0 = cc.StingyConfigurator(rule, id="multi-%s" % kind)
            sol = list(cfg0.select({}, solver=dummy_solver, only_leafs=True))[0]
            chosen = sorted(k_ for k_, v in sol.items() if int(v) == 1)
            r["evaluations"] += 1
            r["_seen"].add((kind, "first-of-several-defaults", len(dl)))
            if chosen != [dl[0]]:
                _viol(r, "c14.default-not-chosen", {"rule": rule.to_json(), "prio": {}, "defaults": dl}, chosen=chosen, default=dl[0])
    # the non-default branch costs more than any number of plain selections: the default wins even when it drags
    # several other items in
    for m in (2, 3, 5):
        extra = ["p%d" % i for i in range(m)]
        for kind in ("Xor", "Any"):
            rule = (cc.Xor if kind == "Xor" else cc.Any)("a", "b", default=["b"], variable="R")
            cfg0 = cc.StingyConfigurator(rule, pg.Imply("b", pg.All(*extra, variable="ALLP"), variable="I"), id="dd-%s-%d" % (kind, m))
            sol = list(cfg0.select({}, solver=dummy_solver, only_leafs=True))[0]
            chosen = sorted(k_ for k_, v in sol.items() if int(v) == 1)
            r["evaluations"] += 1
            r["_seen"].add((kind, "default-over-count", m))
            if "b" not in chosen or "a" in chosen:
                _viol(r, "c14.default-not-chosen", {"rule": rule.to_json(), "drags_in": extra, "prio": {}}, chosen=chosen, default="b")
    for k in range(n):
        # ids of every kind of sort position: items / rules / the configurator itself may each come first in flatten()
        items = rng.choice([list("abcdef"), ["A", "B", "c", "d", "E", "f"], ["0", "1", "2", "x", "y", "z"], list("abcdef")])
        rid = rng.choice(["R%d", "r%d", "~%d", "R%d"])
        rules, kinds = [], []
        for j in range(rng.randint(1, 2)):
            xs = rng.sample(items, rng.randint(2, 3))
            kind = rng.choice(["anyd", "xord", "any", "xor", "atmost", "imply"])
            kinds.append(kind)
            vid = rid % j
            if kind == "any": rules.append(cc.Any(*xs, variable=vid))
            elif kind == "anyd": rules.append(cc.Any(*xs, default=[xs[0]], variable=vid))
            elif kind == "xor": rules.append(cc.Xor(*xs, variable=vid))
            elif kind == "xord": rules.append(cc.Xor(*xs, default=[xs[0]], variable=vid))
            elif kind == "atmost": rules.append(pg.AtMost(1, xs, variable=vid))
            else: rules.append(pg.Imply(xs[0], pg.Any(*xs[1:], variable=vid + "q"), variable=vid))
        cfg = cc.StingyConfigurator(*rules, id=rng.choice(["c14-%d-%d" % (seed, k), "main", "zz-top", "A-cfg", "0"]))
        if cfg.errors() != []:
            continue
        poly = cfg.ge_polyhedron
        cols = list(poly.A.variables)
        if len(cols) > 14:
            continue
        A, b = np.asarray(poly.A), np.asarray(poly.b)
        feas = [np.array(p) for p in itertools.product((0, 1), repeat=len(cols)) if (A.dot(np.array(p)) >= b).all()]
        if len(feas) < 2 or len(feas) > 400:
            continue
        leaf_ids = [v.id for v in leaves_of(cfg)]
        prio = {rng.choice(leaf_ids): rng.choice([-2, -1, 1, 2]) for _ in range(rng.randint(0, 2))}
        obj = np.asarray(poly._vectors_from_prios([prio])[0], dtype=object)
        # independent of default_prios (the function under test): the tag a node carries, -1 (plain) for all others
        dp = {x.id: x.prio for x in cfg.flatten() if hasattr(x, "prio")}
        levels = sorted({abs(v) for v in prio.values()}, reverse=True)

        def key(x):
            val = dict(zip([c.id for c in cols], x))
            user = tuple(sum((1 if p > 0 else -1) * val[i] for i, p in prio.items() if abs(p) == lv) for lv in levels)
            nondefault = -sum(int(val[i]) for i in val if dp.get(i, -1) <= -2 and i not in prio)
            count = -sum(int(val[i]) for i in val if dp.get(i, -1) == -1 and i not in prio)
            return user + (nondefault, count)
        # the same objective must reach the solver through StingyConfigurator.select, also when the instance was queried
        # before with a larger priority dictionary, and when several dictionaries are passed at once
        rec = {}

        def recording(poly_, objs):
            rec["objs"] = [list(map(int, o)) for o in objs]
            return [(None, 0, 4) for _ in objs]
        bigger = dict(prio)
        bigger[rng.choice(leaf_ids)] = 2
        list(cfg.select(bigger, solver=recording))
        list(cfg.select(prio, solver=recording))
        r["evaluations"] += 1
        if rec["objs"][0] != list(map(int, obj)):
            _viol(r, "c14.select-objective-depends-on-earlier-select", {"config": cfg.to_json(), "earlier": bigger, "prio": prio},
                  got=rec["objs"][0], want=list(map(int, obj)))
        list(cfg.select(bigger, prio, {}, solver=recording))
        single = []
        for p_ in (bigger, prio, {}):
            list(cfg.select(p_, solver=recording))
            single.append(rec["objs"][0])
        list(cfg.select(bigger, prio, {}, solver=recording))
        if rec["objs"] != single:
            _viol(r, "c14.batched-select-differs-from-single-selects", {"config": cfg.to_json(), "prios": [bigger, prio, {}]},
                  got=rec["objs"], want=single)
        # a priority on a named sub-proposition ranks first as well
        named = [x.id for x in cfg.flatten() if not is_var(x) and not x.generated_id and x.id != cfg.id]
        if named:
            g = rng.choice(named)
            pv = rng.choice([1, -1])
            list(cfg.select({g: pv}, solver=recording))
            og = rec["objs"][0]
            gi = [c.id for c in cols].index(g) if g in [c.id for c in cols] else None
            if gi is not None:
                xs = [x for x in feas if x[gi] == 1]
                ys = [x for x in feas if x[gi] == 0]
                if xs and ys:
                    bx = max(sum(o * int(t) for o, t in zip(og, x)) for x in (xs if pv > 0 else ys))
                    by = max(sum(o * int(t) for o, t in zip(og, x)) for x in (ys if pv > 0 else xs))
                    if not bx > by:
                        _viol(r, "c14.priority-on-named-group-ignored", {"config": cfg.to_json(), "prio": {str(g): pv}}, objective=og)
        for x, y in itertools.combinations(feas, 2):
            ox, oy = int(np.dot(obj, x)), int(np.dot(obj, y))
            kx, ky = key(x), key(y)
            r["evaluations"] += 1
            if (ox > oy) != (kx > ky) or (ox == oy) != (kx == ky):
                _viol(r, "c14.objective-not-lexicographic",
                      {"config": cfg.to_json(), "prio": prio, "x": dict(zip([str(c.id) for c in cols], map(int, x))),
                       "y": dict(zip([str(c.id) for c in cols], map(int, y)))}, obj_x=ox, obj_y=oy, key_x=kx, key_y=ky)
                break
        r["_seen"].add((tuple(sorted(kinds)), len(levels)))
    return _finish(r)
