import sys, time, json, importlib, os
sys.path.insert(0,'/verif'); sys.path.insert(1, os.environ.get('VERIF_REPO','/repo'))
import warnings; warnings.simplefilter('ignore')
mod, fn = sys.argv[1].split(':')
tier = sys.argv[2] if len(sys.argv)>2 else 'quick'
t0=time.time()
r = getattr(importlib.import_module(mod), fn)(tier, 0)
print(json.dumps({k:v for k,v in r.items() if k!='violations'}, default=str)[:600], round(time.time()-t0,1),'s')
for v in r['violations'][:4]: print("  VIOL", json.dumps(v, default=str)[:700])
