"""C01 / C02 -- the logic-to-polyhedron encoding: lemmas over the assumed contract A-rs1 of puan_rspy.

A-rs1 (assumed, validated at run time by rt.logic:a_rs1_rows against the real extension on every generated model):
for every compound node k of the flattened model, TheoryPy.to_ge_polyhedron emits the row
        m_k * X_k  +  s_k * sum_{j in children(k)} X_j   >=   e_k
with  e_k = sum_j min(s_k*lo_j, s_k*hi_j)  and  m_k = e_k - value_k   (bias = -value), and for an asserted top node the row
        s * sum_j X_j >= value       without a column of its own.

Spec-level lemmas (per node, abstract child list of any length, both signs, all bounds/values; induction on height):

  enc_sound    with X_j := the child's value (leaf: assignment inside its bounds; compound: its truth value) and
               X_k := truth(k):  the row of k holds;  the asserted top row holds  <=>  truth(top) = 1          (C01)
  complete     corollary of enc_sound: a satisfying leaf assignment extends to a point (X := truth values)       (C02a)
  sound_safe   for every in-bounds integer point of the rows: if no compound child sits under a negative parent,
               X_k <= truth(k)(leaf part) for every compound k, hence an asserted top row gives truth(top) = 1  (C02b)
"""
import z3
from pyvc.sym import SInt, ctx, site
from pyvc.nodes import band, bor, bnot, implies, fsum, fall, ite
from pyvc.engine import Harness
from .common import new_base, new_family, child_invariants, mk_atleast, Bo


def smin(a, b):
    return site(a <= b, a, b)


def row_terms(node, x_of):
    """(lhs without own column, e_k) of node's row per A-rs1; x_of(child) = value of the child's column"""
    s = node.sign
    lhs = s * fsum(node.propositions, x_of)
    e = fsum(node.propositions, lambda ch: smin(s * ch.sym("lo"), s * ch.sym("hi")))
    return lhs, e


class _Base(Harness):
    function = "AtLeast.to_ge_polyhedron"

    def cases(self):
        return [{"sign": 1}, {"sign": -1}]

    def mk(self, c, case):
        base = new_base(c, "X")
        fam = new_family(c, "X", base)
        child_invariants(c, fam)
        i = base.ivar
        atom = fam.fn("atom", Bo)(i)
        # no sub-proposition is pre-fixed: compound children have the 0/1 variable (0,1)
        c.add_pointwise(i, z3.Implies(z3.Not(atom), z3.And(fam.fn("lo")(i) == 0, fam.fn("hi")(i) == 1)))
        node = mk_atleast(c, c.repo, c.repo.plog.AtLeast, "self", fam, case["sign"], False)
        return node, fam

    def run(self, c, st):
        return None


class EncSoundLemma(_Base):
    name = "lemma.enc_sound"

    def setup(self, c, case):
        node, fam = self.mk(c, case)
        i = fam.base.ivar
        atom = fam.fn("atom", Bo)(i)
        x = fam.fn("x")(i)          # column value of child i
        tv = fam.fn("tv")(i)        # its truth value (leaf: the assigned value)
        lo, hi = fam.fn("lo")(i), fam.fn("hi")(i)
        c.add_pointwise(i, z3.And(x == tv, lo <= tv, tv <= hi))     # extension by truth values, leaves in bounds
        return {"self": node}

    def ensures(self, c, st, res):
        node = st["self"]
        lhs, e = row_terms(node, lambda ch: ch.sym("x"))
        truth = ite(lhs >= node.value, 1, 0)                        # = truth(node) since x = tv
        m = e - node.value
        return [("enc_sound.row", m * truth + lhs >= e),            # the big-M row of the node, own column = truth value
                ("enc_sound.top", (lhs >= node.value) == (truth == 1)),   # asserted top row  <=>  model true
                ("enc_sound.own-column-in-bounds", band(truth >= 0, truth <= 1))]


class SoundSafeLemma(_Base):
    name = "lemma.sound_safe"

    def setup(self, c, case):
        node, fam = self.mk(c, case)
        i = fam.base.ivar
        atom = fam.fn("atom", Bo)(i)
        x = fam.fn("x")(i)          # an arbitrary in-bounds integer point of the polyhedron
        tv = fam.fn("tv")(i)        # truth value of the child under the point's leaf part
        lo, hi = fam.fn("lo")(i), fam.fn("hi")(i)
        c.add_pointwise(i, z3.And(lo <= x, x <= hi))
        c.add_pointwise(i, z3.Implies(atom, tv == x))                               # leaves: exact
        c.add_pointwise(i, z3.Implies(z3.Not(atom), z3.And(tv >= 0, tv <= 1, x <= tv)))   # induction hypothesis
        if case["sign"] == -1:
            c.add_pointwise(i, atom)                                                # solver-safe: only leaves under a negative node
        xk = z3.Int("x.self")
        c.assume_global(z3.And(xk >= 0, xk <= 1))
        return {"self": node, "xk": SInt(xk)}

    def ensures(self, c, st, res):
        node, xk = st["self"], st["xk"]
        lhs_x, e = row_terms(node, lambda ch: ch.sym("x"))
        lhs_t, _ = row_terms(node, lambda ch: ch.sym("tv"))
        truth = ite(lhs_t >= node.value, 1, 0)
        m = e - node.value
        row = m * xk + lhs_x >= e
        return [("sound_safe.node", implies(row, xk <= truth)),
                ("sound_safe.top", implies(lhs_x >= node.value, truth == 1))]


class UnsafeCanary(_Base):
    """must be REFUTED: without the safety premise the converse fails (compound child under a negative parent)"""
    name = "canary.sound_unsafe"

    def cases(self):
        return [{"sign": -1}]

    def setup(self, c, case):
        node, fam = self.mk(c, case)
        i = fam.base.ivar
        atom = fam.fn("atom", Bo)(i)
        x, tv = fam.fn("x")(i), fam.fn("tv")(i)
        lo, hi = fam.fn("lo")(i), fam.fn("hi")(i)
        c.add_pointwise(i, z3.And(lo <= x, x <= hi))
        c.add_pointwise(i, z3.Implies(atom, tv == x))
        c.add_pointwise(i, z3.Implies(z3.Not(atom), z3.And(tv >= 0, tv <= 1, x <= tv)))
        return {"self": node}

    def ensures(self, c, st, res):
        node = st["self"]
        lhs_x, e = row_terms(node, lambda ch: ch.sym("x"))
        lhs_t, _ = row_terms(node, lambda ch: ch.sym("tv"))
        return [("must-fail", implies(lhs_x >= node.value, lhs_t >= node.value))]


HARNESSES = [EncSoundLemma(), SoundSafeLemma()]
CANARIES = [UnsafeCanary()]
