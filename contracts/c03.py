"""C03 glue -- AtLeast.evaluate_propositions / AtLeast.evaluate (real source) against the contracts of assume and flatten.

  evaluate/post        evaluate(d) has the bounds ival(self, d)                       (with assume/post.bounds: C03)
  evaluate_props/post  the dictionary has an entry for the model's own id, and the entry of ANY id it contains is the
                       bounds of a node of the assumed model carrying that id
Callee contracts used (modular reasoning, the receiver's own methods are overridden by their contracts):
  assume   contracts.assume.ASSUME_ENSURES (proved there for every child count)
  flatten  ASSUMED (validated by rt.logic:c03_evaluate_glue): the returned list contains the node itself, and the assumed
           model is well defined -- every listed node with the node's id has the node's bounds ("one definition per id";
           that assume() preserves well-definedness is not proved)
"""
import z3
from pyvc.sym import SInt, SId, ctx, lift, fresh_name
from pyvc.folds import Seq, Gen, Base
from pyvc.nodes import Family, AbsNode, Contract, band, bor, bnot, implies
from pyvc.engine import Harness
from .common import new_base, new_family, child_invariants, mk_atleast, Bo
from .specs import ival
from .assume import ASSUME_ENSURES, setup_envs, own_bounds, bounds_eq


def flatten_result(c, node):
    """the `flatten` contract on an abstract node R: an abstract family F with  (F1) some index k0 is R itself,
    (F2) every element with R's id has R's bounds"""
    base = Base("F")
    base.distinct = False
    c.bases[base.ivar.get_id()] = base
    c.assume_global(base.n >= 1)
    fam = Family("F", base, "node")
    c.families["F"] = fam
    i = base.ivar
    rid = node._var().id.t
    rlo, rhi = node.sym("lo").t if hasattr(node.sym("lo"), "t") else node.sym("lo"), None
    lo_r, hi_r = node._var().bounds.lower, node._var().bounds.upper
    k0 = z3.Int(fresh_name("k0.F"))
    c.index_terms.setdefault("F", []).append(k0)
    tl = lambda v: v.t if hasattr(v, "t") else z3.IntVal(int(v))
    c.assume_global(z3.And(base.inrange(k0), fam.fn("id")(k0) == rid, fam.fn("lo")(k0) == tl(lo_r), fam.fn("hi")(k0) == tl(hi_r)))
    c.add_pointwise(i, z3.Implies(fam.fn("id")(i) == rid, z3.And(fam.fn("lo")(i) == tl(lo_r), fam.fn("hi")(i) == tl(hi_r))))
    c.add_pointwise(i, fam.fn("lo")(i) <= fam.fn("hi")(i))
    return Seq([Gen(base, z3.BoolVal(True), fam.at(i))])


class EvaluateH(Harness):
    name = "AtLeast.evaluate"
    function = "AtLeast.evaluate"
    functions = ["AtLeast.evaluate", "AtLeast.evaluate_propositions"]

    def cases(self):
        return [{"sign": 1}, {"sign": -1}]

    def contracts(self, repo):
        return {"flatten": Contract("flatten", "value", [], arg_key=lambda: (), result_factory=lambda node: flatten_result(ctx(), node))}

    def setup(self, c, case):
        repo = c.repo
        base = new_base(c, "X")
        fam = new_family(c, "X", base)
        child_invariants(c, fam)
        setup_envs(c)
        node = mk_atleast(c, repo, repo.plog.AtLeast, "self", fam, case["sign"], False, own_bounds=own_bounds(c))
        # the receiver's assume() is replaced by its contract: an abstract node R with assume's postconditions
        rfam = Family("R", None, "node")
        c.families["R"] = rfam
        R = rfam.at(z3.IntVal(0))
        d = c.d
        for name, ens in ASSUME_ENSURES:
            if name == "post.c07":
                continue
            c.assume_global(ens(node, R, d))
        c.assume_global(R.sym("lo") <= R.sym("hi"))
        rec = {"args": []}

        def assume(arg):
            rec["args"].append(arg)
            return R
        node.__dict__["assume"] = assume
        return {"self": node, "R": R, "rec": rec, "fam": fam, "sid": node.variable.id.t, "own": (node.variable.bounds.lower, node.variable.bounds.upper)}

    def run(self, c, st):
        node = st["self"]
        return {"ev": node.evaluate(c.d), "evp": node.evaluate_propositions(c.d)}

    def ensures(self, c, st, res):
        node, R = st["self"], st["R"]
        want = ival(node, c.d)
        evp = res["evp"]
        top = evp[node.id]
        calls = st["rec"]["args"]
        return [("evaluate/uses-assume(interpretation)", len(calls) >= 2 and all(a is c.d for a in calls)),
                ("evaluate/post", bounds_eq(res["ev"], want)),
                ("evaluate_props/post.top", bounds_eq(top, want)),
                ("evaluate==top-entry", band(res["ev"].lower == top.lower, res["ev"].upper == top.upper))]


    def concretise(self, case, k, model, c, st):
        from .assume import concretise_assume
        return concretise_assume(case, k, model, c, st)

    def replay(self, w):
        """natively, relative to the real assume(): evaluate(d) has the bounds of assume(d), the top entry of
        evaluate_propositions(d) is the same, and both are the reference interval of the model under d"""
        from .assume import build_assume, _NATIVE
        from .common import ints
        node, d, e = build_assume(w)
        _NATIVE["e"], _NATIVE["de"] = {}, dict(d)
        want = tuple(int(x) if not hasattr(x, "t") else x for x in ival(build_assume(w)[0], d))
        ev = build_assume(w)[0].evaluate(dict(d))
        evp = build_assume(w)[0].evaluate_propositions(dict(d))
        top = evp.get("A")
        violated, detail = [], {"model": node.to_text(), "interpretation": {str(k): repr(v) for k, v in d.items()}, "reference": list(want),
                                "evaluate": ints(ev), "top_entry": ints(top) if top is not None else None}
        if tuple(ev.as_tuple()) != want:
            violated.append("evaluate/post")
        if top is None or tuple(top.as_tuple()) != want:
            violated.append("evaluate_props/post.top")
        if top is None or tuple(top.as_tuple()) != tuple(ev.as_tuple()):
            violated.append("evaluate==top-entry")
        if violated:
            # the structural clause "the receiver's assume() is called with the interpretation" has no native observation of
            # its own; natively its failure shows as one of the clauses above
            violated.append("evaluate/uses-assume(interpretation)")
        return {"violated": violated, "detail": detail}


HARNESSES = [EvaluateH()]
