"""C03 glue -- AtLeast.evaluate_propositions / AtLeast.evaluate (real source) against the contracts of assume and flatten.

  evaluate/post        evaluate(d) has the bounds ival(self, d)                       (with assume/post.bounds: C03)
  evaluate_props/post  the dictionary has an entry for the model's own id, and the entry of ANY id it contains is the
                       bounds of a node of the assumed model carrying that id
Callee contracts used (modular reasoning, the receiver's own methods are overridden by their contracts):
  assume   contracts.assume.ASSUME_ENSURES (proved there for every child count)
  flatten  ASSUMED (validated by rt.logic:c03_evaluate_glue): the returned list contains the node itself, and the assumed
           model is well defined -- every listed node with the node's id has the node's bounds ("one definition per id";
           that assume() preserves well-definedness is not proved)
"""
import z3
from pyvc.sym import SInt, SId, ctx, lift, fresh_name
from pyvc.folds import Seq, Gen, Base
from pyvc.nodes import Family, AbsNode, Contract, band, bor, bnot, implies
from pyvc.engine import Harness
from .common import new_base, new_family, child_invariants, mk_atleast, Bo
from .specs import ival
from .assume import ASSUME_ENSURES, setup_envs, own_bounds, bounds_eq


def flatten_result(c, node):
    """the `flatten` contract on an abstract node R: an abstract family F with  (F1) some index k0 is R itself,
    (F2) every element with R's id has R's bounds"""
    base = Base("F")
    base.distinct = False
    c.bases[base.ivar.get_id()] = base
    c.assume_global(base.n >= 1)
    fam = Family("F", base, "node")
    c.families["F"] = fam
    i = base.ivar
    rid = node._var().id.t
    rlo, rhi = node.sym("lo").t if hasattr(node.sym("lo"), "t") else node.sym("lo"), None
    lo_r, hi_r = node._var().bounds.lower, node._var().bounds.upper
    k0 = z3.Int(fresh_name("k0.F"))
    c.index_terms.setdefault("F", []).append(k0)
    tl = lambda v: v.t if hasattr(v, "t") else z3.IntVal(int(v))
    c.assume_global(z3.And(base.inrange(k0), fam.fn("id")(k0) == rid, fam.fn("lo")(k0) == tl(lo_r), fam.fn("hi")(k0) == tl(hi_r)))
    c.add_pointwise(i, z3.Implies(fam.fn("id")(i) == rid, z3.And(fam.fn("lo")(i) == tl(lo_r), fam.fn("hi")(i) == tl(hi_r))))
    c.add_pointwise(i, fam.fn("lo")(i) <= fam.fn("hi")(i))
    return Seq([Gen(base, z3.BoolVal(True), fam.at(i))])


class EvaluateH(Harness):
    name = "AtLeast.evaluate"
    function = "AtLeast.evaluate"
    functions = ["AtLeast.evaluate", "AtLeast.evaluate_propositions"]

    def cases(self):
        return [{"sign": 1}, {"sign": -1}]

    def contracts(self, repo):
        return {"flatten": Contract("flatten", "value", [], arg_key=lambda: (), result_factory=lambda node: flatten_result(ctx(), node))}

    def setup(self, c, case):
        repo = c.repo
        base = new_base(c, "X")
        fam = new_family(c, "X", base)
        child_invariants(c, fam)
        setup_envs(c)
        node = mk_atleast(c, repo, repo.plog.AtLeast, "self", fam, case["sign"], False, own_bounds=own_bounds(c))
        # the receiver's assume() is replaced by its contract: an abstract node R with assume's postconditions
        rfam = Family("R", None, "node")
        c.families["R"] = rfam
        R = rfam.at(z3.IntVal(0))
        d = c.d
        for name, ens in ASSUME_ENSURES:
            if name == "post.c07":
                continue
            c.assume_global(ens(node, R, d))
        c.assume_global(R.sym("lo") <= R.sym("hi"))
        rec = {"args": []}

        def assume(arg):
            rec["args"].append(arg)
            return R
        node.__dict__["assume"] = assume
        return {"self": node, "R": R, "rec": rec}

    def run(self, c, st):
        node = st["self"]
        return {"ev": node.evaluate(c.d), "evp": node.evaluate_propositions(c.d)}

    def ensures(self, c, st, res):
        node, R = st["self"], st["R"]
        want = ival(node, c.d)
        evp = res["evp"]
        top = evp[node.id]
        calls = st["rec"]["args"]
        return [("evaluate/uses-assume(interpretation)", len(calls) == 2 and all(a is c.d for a in calls)),
                ("evaluate/post", bounds_eq(res["ev"], want)),
                ("evaluate_props/post.top", bounds_eq(top, want)),
                ("evaluate==top-entry", band(res["ev"].lower == top.lower, res["ev"].upper == top.upper))]


HARNESSES = [EvaluateH()]
