"""C14 -- configurator objectives: the deductive part.

  cc.Any/struct   (real cc.Any.__init__) with a default among at least two children, some of them not the default:
                  the node is Any(default child(ren), inner) with inner = Any(all other children) tagged prio = -2
                  (one level below the plain -1); otherwise a plain Any.  The truth function is that of Any in every case.
  cc.Xor/struct   (real cc.Xor.__init__) exactly-one truth function; with a default the at-least-one half is rebuilt as a
                  defaulted cc.Any over the same children (so the -2 tag sits on its non-default branch)
  lean            dominance_two_level (lean/Background.lean): a weight exceeding the total weight of all lower levels
                  decides the comparison -- with the level structure above (user priorities > -2 branch > -1 items,
                  compressed by 'shadow', C13) this is the lexicographic ranking the property states
The weights themselves come from the compiled bit allocation (A-rs2, assumed); default_prios / _vectors_from_prios /
the end-to-end ranking are covered by the bounded stand-in.
"""
import z3
from pyvc.sym import SInt, SId, ctx, lift
from pyvc.folds import Seq, Gen, seq_len
from pyvc.nodes import band, bor, bnot, implies, fsum, fall, fany, ite, is_abs
from pyvc.engine import Harness
from .common import new_base, new_family, child_invariants, env_total_in_bounds, AbsEnv, Bo
from .specs import truth
from .c04 import boolean_children
from .c05 import negate_contract


class CcAnyH(Harness):
    name = "cc.Any.__init__"
    function = "Any.__init__"
    module = "puan.modules.configurator"
    functions = ["Any.__init__", ("puan.logic.plog", "Any.__init__"), ("puan.logic.plog", "AtLeast.__init__")]

    def cases(self):
        return [{"default": None}, {"default": "d"}]

    def contracts(self, repo):
        return {"negate": negate_contract()}

    def setup(self, c, case):
        fam, xs = boolean_children(c)
        c.symbolic_ids = True
        return {"xs": xs, "fam": fam, "cc": c.repo.load("puan.modules.configurator")}

    def run(self, c, st):
        d = c.state_case["default"]
        return st["cc"].Any(*st["xs"], default=[d] if d else None, variable="A")

    def ensures(self, c, st, res):
        env, fam, xs = c.env, st["fam"], st["xs"]
        d = c.state_case["default"]
        out = [("cc.Any/truth", truth(res, env) == ite(fany(xs, lambda x: truth(x, env) == 1), 1, 0))]
        segs = res.propositions.segs
        gens = [s for s in segs if type(s) is Gen]
        items = [s[1] for s in segs if type(s) is not Gen]
        if d is None:
            out.append(("cc.Any/struct.plain", len(gens) == 1 and not items and not hasattr(res, "prio")))
            return out
        from pyvc.sym import intern_id
        did = intern_id(d).t
        i = fam.base.ivar
        # `x == default_id` is variable.__eq__ (id comparison) for leaves and AtLeast.__eq__ (False against a str) for
        # sub-propositions: only a leaf can be "the default"
        n_def = fsum(xs, lambda x: ite(band(x.atom_truth(), x.id == d), 1, 0))
        n = seq_len(xs)
        restructured = band(n >= 2, n_def >= 1, n_def < n)
        if items:
            inner = items[0]
            out.append(("cc.Any/struct.inner-is-any", band(inner.sign == 1, inner.value == 1)))
            out.append(("cc.Any/struct.prio", getattr(inner, "prio", None) == -2))
            out.append(("cc.Any/struct.restructured-only-when-needed", restructured))
            # the default branch keeps exactly the children equal to the default, the inner one exactly the others
            g_out = gens[0].guard if gens else z3.BoolVal(False)
            igens = [s for s in inner.propositions.segs if type(s) is Gen]
            g_in = igens[0].guard if igens else z3.BoolVal(False)
            is_def = z3.And(fam.fn("atom", Bo)(i), fam.fn("id")(i) == did)
            out.append(("cc.Any/struct.partition", band(lift(z3.Implies(fam.base.inrange(), g_out == is_def)),
                                                        lift(z3.Implies(fam.base.inrange(), g_in == z3.Not(is_def))))))
        else:
            out.append(("cc.Any/struct.plain-when-not-needed", bnot(restructured)))
        out.append(("cc.Any/default-recorded", [v.id for v in res.default] == [d]))
        return out


class CcXorH(Harness):
    name = "cc.Xor.__init__"
    function = "Xor.__init__"
    module = "puan.modules.configurator"
    functions = ["Xor.__init__", ("puan.logic.plog", "Xor.__init__")]

    def cases(self):
        return [{"default": None}, {"default": "d"}]

    def contracts(self, repo):
        return {"negate": negate_contract()}

    def setup(self, c, case):
        fam, xs = boolean_children(c)
        c.symbolic_ids = True
        return {"xs": xs, "fam": fam, "cc": c.repo.load("puan.modules.configurator")}

    def run(self, c, st):
        d = c.state_case["default"]
        return st["cc"].Xor(*st["xs"], default=[d] if d else None, variable="A")

    def ensures(self, c, st, res):
        env, xs = c.env, st["xs"]
        s = fsum(xs, lambda x: truth(x, env))
        out = [("cc.Xor/truth", truth(res, env) == ite(s == 1, 1, 0))]
        kids = res.propositions if isinstance(res.propositions, list) else res.propositions.concrete_list()
        out.append(("cc.Xor/two-halves", len(kids) == 2))
        if c.state_case["default"] and len(kids) == 2:
            halves = [k for k in kids if type(k) is st["cc"].Any]
            out.append(("cc.Xor/defaulted-half-is-cc.Any", len(halves) == 1 and [v.id for v in halves[0].default] == [c.state_case["default"]]))
        return out


HARNESSES = [CcAnyH(), CcXorH()]
