"""C14 -- configurator objectives: the deductive part.

  cc.Any/struct   (real cc.Any.__init__) with a default among at least two children, some of them not the default:
                  the node is Any(default child(ren), inner) with inner = Any(all other children) tagged prio = -2
                  (one level below the plain -1); otherwise a plain Any.  The truth function is that of Any in every case.
  cc.Xor/struct   (real cc.Xor.__init__) exactly-one truth function; with a default the at-least-one half is rebuilt as a
                  defaulted cc.Any over the same children (so the -2 tag sits on its non-default branch)
  lean            dominance_two_level (lean/Background.lean): a weight exceeding the total weight of all lower levels
                  decides the comparison -- with the level structure above (user priorities > -2 branch > -1 items,
                  compressed by 'shadow', C13) this is the lexicographic ranking the property states
The weights themselves come from the compiled bit allocation (A-rs2, assumed); default_prios / _vectors_from_prios /
the end-to-end ranking are covered by the bounded stand-in.
"""
import z3
from pyvc.sym import SInt, SId, ctx, lift
from pyvc.folds import Seq, Gen, seq_len
from pyvc.nodes import band, bor, bnot, implies, fsum, fall, fany, ite, is_abs
from pyvc.engine import Harness
from .common import new_base, new_family, child_invariants, env_total_in_bounds, AbsEnv, Bo
from .specs import truth
from .c04 import boolean_children
from .c05 import negate_contract


class CcAnyH(Harness):
    name = "cc.Any.__init__"
    function = "Any.__init__"
    module = "puan.modules.configurator"
    functions = ["Any.__init__", ("puan.logic.plog", "Any.__init__"), ("puan.logic.plog", "AtLeast.__init__")]

    def cases(self):
        # a default list of two entries: the FIRST one is the default (the second is only recorded)
        return [{"default": None}, {"default": "d"}, {"default": "d", "second": "e"}, {"default": "e", "second": "d"}]

    def contracts(self, repo):
        return {"negate": negate_contract()}

    def setup(self, c, case):
        fam, xs = boolean_children(c)
        c.symbolic_ids = True
        return {"xs": xs, "fam": fam, "cc": c.repo.load("puan.modules.configurator")}

    def run(self, c, st):
        d = c.state_case["default"]
        dl = None if not d else [d] + ([c.state_case["second"]] if c.state_case.get("second") else [])
        return st["cc"].Any(*st["xs"], default=dl, variable="A")

    def ensures(self, c, st, res):
        env, fam, xs = c.env, st["fam"], st["xs"]
        d = c.state_case["default"]
        out = [("cc.Any/truth", truth(res, env) == ite(fany(xs, lambda x: truth(x, env) == 1), 1, 0))]
        segs = res.propositions.segs
        gens = [s for s in segs if type(s) is Gen]
        items = [s[1] for s in segs if type(s) is not Gen]
        if d is None:
            out.append(("cc.Any/struct.plain", len(gens) == 1 and not items and not hasattr(res, "prio")))
            return out
        from pyvc.sym import intern_id
        did = intern_id(d).t
        i = fam.base.ivar
        # `x == default_id` is variable.__eq__ (id comparison) for leaves and AtLeast.__eq__ (False against a str) for
        # sub-propositions: only a leaf can be "the default"
        n_def = fsum(xs, lambda x: ite(band(x.atom_truth(), x.id == d), 1, 0))
        n = seq_len(xs)
        restructured = band(n >= 2, n_def >= 1, n_def < n)
        if items:
            inner = items[0]
            out.append(("cc.Any/struct.inner-is-any", band(inner.sign == 1, inner.value == 1)))
            out.append(("cc.Any/struct.prio", getattr(inner, "prio", None) == -2))
            out.append(("cc.Any/struct.restructured-only-when-needed", restructured))
            # the default branch keeps exactly the children equal to the default, the inner one exactly the others
            g_out = gens[0].guard if gens else z3.BoolVal(False)
            igens = [s for s in inner.propositions.segs if type(s) is Gen]
            g_in = igens[0].guard if igens else z3.BoolVal(False)
            is_def = z3.And(fam.fn("atom", Bo)(i), fam.fn("id")(i) == did)
            out.append(("cc.Any/struct.partition", band(lift(z3.Implies(fam.base.inrange(), g_out == is_def)),
                                                        lift(z3.Implies(fam.base.inrange(), g_in == z3.Not(is_def))))))
        else:
            out.append(("cc.Any/struct.plain-when-not-needed", bnot(restructured)))
        out.append(("cc.Any/default-recorded", [v.id for v in res.default] == [d] + ([c.state_case["second"]] if c.state_case.get("second") else [])))
        return out

    cls_name = "Any"

    def concretise(self, case, k, model, c, st):
        from pyvc.sym import intern_id
        from .common import concretise_children
        fam = st["fam"]
        kids = concretise_children(model, fam, k, c.env)
        for j, dsc in enumerate(kids):
            if dsc["kind"] != "atom":
                continue
            for name in ("d", "e"):
                if z3.is_true(model.eval(fam.fn("id")(z3.IntVal(j)) == intern_id(name).t, model_completion=True)):
                    dsc["id"] = name
        return {"case": dict(case), "children": kids}

    def replay(self, w):
        """the same clauses natively on the witness's children (boolean leaves / small compound children with the
        witness's truth values); the non-default branch is found by its children, not by the tag the code sets"""
        import puan.modules.configurator as cc
        from .common import build_children
        case = w["case"]
        d = case["default"]
        dl = None if not d else [d] + ([case["second"]] if case.get("second") else [])
        kids, env = build_children(w["children"])
        if len({k.id for k in kids}) != len(kids) or not kids:
            return {"violated": [], "detail": {"note": "witness outside the precondition (duplicate child ids / no child)"}}
        mk = lambda ks: getattr(cc, self.cls_name)(*ks, default=list(dl) if dl else None, variable="A")
        node = mk(kids)
        violated, detail = [], {"model": node.to_text(), "default": dl}
        tvs = [int(mk(build_children(w["children"])[0]).evaluate(dict(env)).constant == 1)]
        leaf_t = lambda k: env[k.id] if not hasattr(k, "propositions") else int(k.evaluate(dict(env)).constant)
        n_true = sum(leaf_t(k) for k in build_children(w["children"])[0])
        want = int(n_true >= 1) if self.cls_name == "Any" else int(n_true == 1)
        if tvs[0] != want:
            violated.append(f"cc.{self.cls_name}/truth"); detail.update(interpretation=env, got=tvs[0], want=want)
        if self.cls_name == "Any" and d is not None:
            ids = [k.id for k in kids]
            is_def = [k for k in kids if k.id == d and not hasattr(k, "propositions")]
            restructure = len(kids) >= 2 and len(is_def) >= 1 and len(is_def) < len(kids)
            tagged = [x for x in node.propositions if getattr(x, "prio", None) == -2]
            if restructure:
                if len(tagged) != 1:
                    violated += ["cc.Any/struct.prio", "cc.Any/struct.partition"]
                else:
                    inner = tagged[0]
                    outer_rest = [x.id for x in node.propositions if x is not inner]
                    if sorted(map(str, outer_rest)) != [d] or sorted(str(x.id) for x in inner.propositions) != sorted(str(i) for i in ids if i != d):
                        violated.append("cc.Any/struct.partition"); detail["outer"] = list(map(str, outer_rest)); detail["inner"] = [str(x.id) for x in inner.propositions]
                    if int(inner.sign) != 1 or inner.value != 1:
                        violated.append("cc.Any/struct.inner-is-any")
            elif tagged:
                violated.append("cc.Any/struct.restructured-only-when-needed")
            if [v.id for v in node.default] != dl:
                violated.append("cc.Any/default-recorded")
        return {"violated": violated, "detail": detail}


class CcXorH(Harness):
    name = "cc.Xor.__init__"
    function = "Xor.__init__"
    module = "puan.modules.configurator"
    functions = ["Xor.__init__", ("puan.logic.plog", "Xor.__init__")]

    def cases(self):
        return [{"default": None}, {"default": "d"}]

    def contracts(self, repo):
        return {"negate": negate_contract()}

    def setup(self, c, case):
        fam, xs = boolean_children(c)
        c.symbolic_ids = True
        return {"xs": xs, "fam": fam, "cc": c.repo.load("puan.modules.configurator")}

    def run(self, c, st):
        d = c.state_case["default"]
        return st["cc"].Xor(*st["xs"], default=[d] if d else None, variable="A")

    def ensures(self, c, st, res):
        env, xs = c.env, st["xs"]
        s = fsum(xs, lambda x: truth(x, env))
        out = [("cc.Xor/truth", truth(res, env) == ite(s == 1, 1, 0))]
        kids = res.propositions if isinstance(res.propositions, list) else res.propositions.concrete_list()
        out.append(("cc.Xor/two-halves", len(kids) == 2))
        if c.state_case["default"] and len(kids) == 2:
            halves = [k for k in kids if type(k) is st["cc"].Any]
            out.append(("cc.Xor/defaulted-half-is-cc.Any", len(halves) == 1 and [v.id for v in halves[0].default] == [c.state_case["default"]]))
        return out

    cls_name = "Xor"
    concretise = CcAnyH.concretise

    def replay(self, w):
        import puan.modules.configurator as cc
        r = CcAnyH.replay(self, w)
        if r["violated"] or "note" in r["detail"]:
            return r
        from .common import build_children
        d = w["case"]["default"]
        if d:
            kids, _ = build_children(w["children"])
            node = cc.Xor(*kids, default=[d], variable="A")
            halves = [k for k in node.propositions if type(k) is cc.Any]
            if len(node.propositions) != 2:
                r["violated"].append("cc.Xor/two-halves")
            elif len(halves) != 1 or [v.id for v in halves[0].default] != [d]:
                r["violated"].append("cc.Xor/defaulted-half-is-cc.Any")
        return r


class DefaultPriosH(Harness):
    """StingyConfigurator.default_prios (real source) against the contract of flatten (assumed, as in C03):
    every flattened node's id is a key; the entry of a node is its configurator tag `prio` if it carries one and -1
    (the plain level) otherwise -- for a model in which one id has one definition."""
    name = "StingyConfigurator.default_prios"
    function = "StingyConfigurator.default_prios"
    module = "puan.modules.configurator"

    def cases(self):
        return [{}]

    def setup(self, c, case):
        from pyvc.folds import Base
        from pyvc.nodes import Family, Contract
        from pyvc.sym import fresh_name
        repo = c.repo
        cc = repo.load("puan.modules.configurator")
        base = Base("F")
        base.distinct = False
        c.bases[base.ivar.get_id()] = base
        c.assume_global(base.n >= 1)
        fam = Family("F", base, "node")
        fam.optional_prio = True
        c.families["F"] = fam
        i = base.ivar
        k0 = z3.Int(fresh_name("k0.F"))
        c.index_terms.setdefault("F", []).append(k0)
        c.assume_global(base.inrange(k0))
        hp, pr, fid = fam.fn("has_prio", Bo), fam.fn("prio"), fam.fn("id")
        # one definition per id: elements sharing the witness's id carry the same tag
        c.add_pointwise(i, z3.Implies(fid(i) == fid(k0), z3.And(hp(i) == hp(k0), pr(i) == pr(k0))))
        # a plain variable carries no tag
        c.add_pointwise(i, z3.Implies(fam.fn("atom", Bo)(i), z3.Not(hp(i))))
        flat = Seq([Gen(base, z3.BoolVal(True), fam.at(i))])
        cfg = object.__new__(cc.StingyConfigurator)
        cfg.__dict__.update(generated_id=False, value=1, sign=1, propositions=[], variable=repo.puan.variable("cfg"))
        cfg.__dict__["flatten"] = lambda: flat
        return {"cfg": cfg, "fam": fam, "k0": k0}

    def run(self, c, st):
        return st["cfg"].default_prios

    def ensures(self, c, st, res):
        fam, k0 = st["fam"], st["k0"]
        node = fam.at(k0)
        want = ite(node.sym_bool("has_prio"), node.sym("prio"), -1)
        key = node.id
        has = key in res
        out = [("default_prios/key", has)]
        if has:
            out.append(("default_prios/value", res[key] == want))
        return out

    def concretise(self, case, k, model, c, st):
        from .common import _mv
        fam, k0 = st["fam"], model.eval(st["k0"], model_completion=True)
        return {"atom": bool(_mv(model, fam.fn("atom", Bo)(k0))), "has_prio": bool(_mv(model, fam.fn("has_prio", Bo)(k0))),
                "prio": int(_mv(model, fam.fn("prio")(k0)))}

    def replay(self, w):
        """a real configurator containing a node of the witness's kind (leaf / untagged rule / tagged branch)"""
        import puan.logic.plog as pg
        import puan.modules.configurator as cc
        cfg = cc.StingyConfigurator(cc.Any("a", "b", "e", default=["a"], variable="R"), pg.Any("c", "d", variable="P"), id="cfg")
        flat = cfg.flatten()
        if w["atom"]:
            node, want = [x for x in flat if x.id == "c"][0], -1
        elif not w["has_prio"]:
            node, want = [x for x in flat if x.id == "P"][0], -1
        else:
            node = [x for x in flat if hasattr(x, "prio")][0]
            node.prio = w["prio"]
            want = w["prio"]
        cfg2 = cc.StingyConfigurator(*cfg.propositions, id="cfg")
        dp = cfg2.default_prios
        violated = []
        if node.id not in dp:
            violated.append("default_prios/key")
        elif dp[node.id] != want:
            violated.append("default_prios/value")
        return {"violated": violated, "detail": {"node": str(node.id), "default_prios": {str(k_): int(v) for k_, v in dp.items()}, "want": want}}


class VectorsFromPriosH(Harness):
    """ge_polyhedron_config._vectors_from_prios (real source, symbolic ndarray layer): for each priority dictionary the
    array handed to the shadow compression is the two-level stack [default vector, user row], the user row holding the
    dictionary's value at the columns it names and 0 elsewhere (column order = A.variables), compressed along axis 0
    with method 'shadow'.  The compression itself is C13 / A-rs2 and is replaced by a recorder here."""
    name = "ge_polyhedron_config._vectors_from_prios"
    function = "ge_polyhedron_config._vectors_from_prios"
    module = "puan.ndarray"
    numpy_mode = "sym"

    def cases(self):
        return [{"cols": 2, "named": [[0], []]}, {"cols": 3, "named": [[0, 2]]}, {"cols": 3, "named": [[1], [0, 1, 2], []]}]

    def setup(self, c, case):
        from .c12 import sym_polyhedron
        pnd = c.repo.load("puan.ndarray")
        k = case["cols"]
        p, A, b, lo, hi = sym_polyhedron(c, 1, k)
        dv = [SInt(z3.Int(f"dv{j}")) for j in range(k)]
        cfg = pnd.ge_polyhedron_config(p, default_prio_vector=pnd.integer_ndarray(dv), variables=p.variables, index=p.index)
        prios = []
        for q, cols in enumerate(case["named"]):
            d = {f"v{j}": SInt(z3.Int(f"p{q}_{j}")) for j in cols}
            d["not-a-column"] = SInt(z3.Int(f"p{q}_x"))
            prios.append(d)
        rec = {}
        orig = pnd.integer_ndarray.ndint_compress

        def recorder(self_, method="last", axis=None, **kw):
            rec["arr"], rec["method"], rec["axis"], rec["kw"] = self_, method, axis, kw
            return "COMPRESSED"
        pnd.integer_ndarray.ndint_compress = recorder
        c.on_exit = lambda: setattr(pnd.integer_ndarray, "ndint_compress", orig)
        return {"cfg": cfg, "dv": dv, "prios": prios, "rec": rec, "orig": orig, "pnd": pnd, "lo": lo, "hi": hi}

    def run(self, c, st):
        c.nd_epoch = 1
        try:
            return st["cfg"]._vectors_from_prios(st["prios"])
        finally:
            st["pnd"].integer_ndarray.ndint_compress = st["orig"]

    def ensures(self, c, st, res):
        rec, dv, prios = st["rec"], st["dv"], st["prios"]
        k = c.state_case["cols"]
        out = [("vectors/compress-called", res == "COMPRESSED" and rec.get("method") == "shadow" and rec.get("axis") == 0 and not rec.get("kw"))]
        arr = rec.get("arr")
        if arr is None:
            return out
        out.append(("vectors/shape", tuple(arr.shape) == (len(prios), 2, k)))
        if tuple(arr.shape) != (len(prios), 2, k):
            return out
        for q, d in enumerate(prios):
            out.append((f"vectors/default-row[{q}]", band(*[arr[q][0][j] == dv[j] for j in range(k)])))
            out.append((f"vectors/user-row[{q}]", band(*[arr[q][1][j] == (d[f"v{j}"] if f"v{j}" in d else 0) for j in range(k)])))
        return out

    def concretise(self, case, k, model, c, st):
        from .common import _mv
        return {"cols": case["cols"], "dv": [_mv(model, v.t) for v in st["dv"]],
                "lo": [_mv(model, v.t) for v in st["lo"]], "hi": [_mv(model, v.t) for v in st["hi"]],
                "prios": [{key: _mv(model, v.t) for key, v in d.items()} for d in st["prios"]]}

    def replay(self, w):
        import numpy as np
        import puan
        import puan.ndarray as pnd
        k = w["cols"]
        vs = [puan.variable(0, (1, 1))] + [puan.variable(f"v{j}", (w["lo"][j], w["hi"][j]) if "lo" in w else (0, 1)) for j in range(k)]
        p = pnd.ge_polyhedron([[0] + [1] * k], variables=vs, index=[puan.variable("r0")])
        cfg = pnd.ge_polyhedron_config(p, default_prio_vector=pnd.integer_ndarray(w["dv"]), variables=p.variables, index=p.index)
        rec = {}
        orig = pnd.integer_ndarray.ndint_compress

        def recorder(self_, method="last", axis=None, **kw):
            rec["arr"], rec["method"], rec["axis"] = np.array(self_), method, axis
            return "COMPRESSED"
        pnd.integer_ndarray.ndint_compress = recorder
        try:
            res = cfg._vectors_from_prios(w["prios"])
        finally:
            pnd.integer_ndarray.ndint_compress = orig
        violated = []
        if not (isinstance(res, str) and rec.get("method") == "shadow" and rec.get("axis") == 0):
            violated.append("vectors/compress-called")
        arr = rec.get("arr")
        if arr is None or arr.shape != (len(w["prios"]), 2, k):
            violated.append("vectors/shape")
        else:
            for q, d in enumerate(w["prios"]):
                if [int(x) for x in arr[q][0]] != w["dv"]:
                    violated.append(f"vectors/default-row[{q}]")
                if [int(x) for x in arr[q][1]] != [d.get(f"v{j}", 0) for j in range(k)]:
                    violated.append(f"vectors/user-row[{q}]")
        return {"violated": violated, "detail": {"handed_to_compress": None if arr is None else arr.tolist()}}


class ObjectiveStructureH(Harness):
    """The objective vector end to end: the real `_vectors_from_prios` INCLUDING the real shadow compression (the compiled
    bit allocation replaced by the executable form of A-rs2), for 2-3 columns, default levels in {-1, -2} (symbolic) and
    symbolic user priorities on a named subset of the columns.  The vector has the dominance structure from which the
    lexicographic ranking of the property follows (Lean: dominance_two_level):
      objective.sign        a column with a non-zero user priority carries that priority's sign; every other column is
                            negative (not selecting it is preferred)
      objective.levels      equal user magnitudes -> equal weights; among the other columns equal default levels -> equal
                            weights
      objective.dominance   a user-prioritised column outweighs the sum of ALL columns of lower rank (smaller user
                            magnitude, and every column without user priority); a -2 column outweighs the sum of all -1
                            columns"""
    name = "ge_polyhedron_config._vectors_from_prios(end-to-end)"
    function = "ge_polyhedron_config._vectors_from_prios"
    module = "puan.ndarray"
    functions = ["ge_polyhedron_config._vectors_from_prios", "integer_ndarray.ndint_compress", "integer_ndarray.reduce2d"]
    numpy_mode = "sym"
    rs_model = True

    def cases(self):
        # incl. a polyhedron of ONE column, and requests that name every column (no column left at weight "no priority")
        return [{"cols": 1, "named": [0]}, {"cols": 1, "named": []}, {"cols": 2, "named": [0]}, {"cols": 2, "named": [0, 1]},
                {"cols": 3, "named": [1]}, {"cols": 3, "named": [0, 2]}, {"cols": 3, "named": [0, 1, 2]}]

    def setup(self, c, case):
        from .c12 import sym_polyhedron
        pnd = c.repo.load("puan.ndarray")
        k = case["cols"]
        p, A, b, lo, hi = sym_polyhedron(c, 1, k)
        dv = [SInt(z3.Int(f"dv{j}")) for j in range(k)]
        for d in dv:
            c.assume_global(z3.Or(d.t == -1, d.t == -2))
        cfg = pnd.ge_polyhedron_config(p, default_prio_vector=pnd.integer_ndarray(dv), variables=p.variables, index=p.index)
        prio = {f"v{j}": SInt(z3.Int(f"p{j}")) for j in case["named"]}
        for v in prio.values():
            c.assume_global(z3.And(v.t > -(2 ** 20), v.t < 2 ** 20))
        return {"cfg": cfg, "dv": dv, "prio": prio}

    def run(self, c, st):
        c.nd_epoch = 1
        return st["cfg"]._vectors_from_prios([dict(st["prio"])])

    def ensures(self, c, st, res):
        from pyvc.sym import site
        k = c.state_case["cols"]
        out = [("objective.shape", tuple(res.shape) == (1, k))]
        if not out[0][1]:
            return out
        o = [res[0][j] for j in range(k)]
        dv = st["dv"]
        u = [st["prio"].get(f"v{j}", 0) for j in range(k)]
        ab = lambda x: site(x < 0, -x, x)
        user = [u[j] != 0 for j in range(k)]
        sign = True
        for j in range(k):
            sign = band(sign, implies(user[j], (o[j] > 0) == (u[j] > 0)), implies(user[j], o[j] != 0), implies(bnot(user[j]), o[j] < 0))
        levels = True
        for j in range(k):
            for t in range(k):
                levels = band(levels, implies(band(user[j], user[t], ab(u[j]) == ab(u[t])), ab(o[j]) == ab(o[t])),
                              implies(band(bnot(user[j]), bnot(user[t]), dv[j] == dv[t]), o[j] == o[t]))
        dom = True
        for j in range(k):
            lower_user = 0
            lower_def = 0
            for t in range(k):
                below_u = bor(bnot(user[t]), band(user[t], ab(u[t]) < ab(u[j])))
                lower_user = lower_user + site(below_u, ab(o[t]), 0)
                lower_def = lower_def + site(band(bnot(user[t]), dv[t] == -1), ab(o[t]), 0)
            dom = band(dom, implies(user[j], ab(o[j]) > lower_user),
                       implies(band(bnot(user[j]), dv[j] == -2), ab(o[j]) > lower_def))
        out += [("objective.sign", sign), ("objective.levels", levels), ("objective.dominance", dom)]
        return out

    def concretise(self, case, k, model, c, st):
        from .common import _mv
        return {"cols": case["cols"], "dv": [_mv(model, v.t) for v in st["dv"]],
                "prio": {key: _mv(model, v.t) for key, v in st["prio"].items()}}

    def replay(self, w):
        import numpy as np
        import puan
        import puan.ndarray as pnd
        k = w["cols"]
        vs = [puan.variable(0, (1, 1))] + [puan.variable(f"v{j}") for j in range(k)]
        p = pnd.ge_polyhedron([[0] + [1] * k], variables=vs, index=[puan.variable("r0")])
        cfg = pnd.ge_polyhedron_config(p, default_prio_vector=pnd.integer_ndarray(w["dv"]), variables=p.variables, index=p.index)
        o = [int(x) for x in np.asarray(cfg._vectors_from_prios([dict(w["prio"])]))[0]]
        u = [w["prio"].get(f"v{j}", 0) for j in range(k)]
        violated = []
        for j in range(k):
            if (u[j] != 0 and ((o[j] > 0) != (u[j] > 0) or o[j] == 0)) or (u[j] == 0 and not o[j] < 0):
                violated.append("objective.sign")
        for j in range(k):
            for t in range(k):
                if u[j] and u[t] and abs(u[j]) == abs(u[t]) and abs(o[j]) != abs(o[t]):
                    violated.append("objective.levels")
                if not u[j] and not u[t] and w["dv"][j] == w["dv"][t] and o[j] != o[t]:
                    violated.append("objective.levels")
        for j in range(k):
            if u[j]:
                lower = sum(abs(o[t]) for t in range(k) if not u[t] or abs(u[t]) < abs(u[j]))
                if not abs(o[j]) > lower:
                    violated.append("objective.dominance")
            elif w["dv"][j] == -2:
                if not abs(o[j]) > sum(abs(o[t]) for t in range(k) if not u[t] and w["dv"][t] == -1):
                    violated.append("objective.dominance")
        return {"violated": sorted(set(violated)), "detail": {"default_levels": w["dv"], "prio": w["prio"], "objective": o}}


HARNESSES = [CcAnyH(), CcXorH(), DefaultPriosH(), VectorsFromPriosH(), ObjectiveStructureH()]
