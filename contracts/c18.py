"""C18 -- StingyConfigurator.add under contract (real source; All.__init__ / AtLeast.__init__ run as well).

  add/refuse   raises  <=>  the new rule's id names one of the existing top-level rules / items
  add/post     otherwise the result is a StingyConfigurator with the receiver's id whose children are exactly the old
               children plus the new rule and whose threshold is their number (= what direct construction gives)
  add/frame    the receiver (and its child list) is untouched
A sequence of additions follows by induction on the sequence (each step is one add on a configurator of any width).
"""
import z3
from pyvc.sym import SInt, SId, ctx, lift, to_bterm
from pyvc.folds import Seq, Gen, seq_len, seq_sum, seq_any
from pyvc.nodes import Family, band, bor, bnot, implies, fany
from pyvc.engine import Harness
from .common import new_base, new_family, child_invariants, Bo, mk_variable
from .c04 import single_node
from pyvc.nodes import AbsEnv


class AddH(Harness):
    name = "StingyConfigurator.add"
    function = "StingyConfigurator.add"
    module = "puan.modules.configurator"
    functions = ["StingyConfigurator.add", "StingyConfigurator.__init__", ("puan.logic.plog", "All.__init__"),
                 ("puan.logic.plog", "AtLeast.__init__")]
    frame = True
    expected_raises = (Exception,)

    def setup(self, c, case):
        repo = c.repo
        cc = repo.load("puan.modules.configurator")
        base = new_base(c, "X", distinct=True)
        fam = new_family(c, "X", base)
        child_invariants(c, fam)
        c.env = AbsEnv("e")
        p = single_node(c, "P")
        cfg = object.__new__(cc.StingyConfigurator)
        d = cfg.__dict__
        d["generated_id"] = False
        d["sign"] = 1
        d["propositions"] = Seq([Gen(base, z3.BoolVal(True), fam.at(base.ivar))])
        d["value"] = SInt(base.n)                        # class invariant of All: threshold = number of distinct children
        d["variable"] = mk_variable(repo, SId(z3.Int("self.id")), 0, 1)
        return {"self": cfg, "p": p, "fam": fam, "cc": cc}

    def run(self, c, st):
        return st["self"].add(st["p"])

    def _clash(self, st):
        fam = st["fam"]
        pid = st["p"]._var().id
        return seq_any(st["self"].propositions, lambda x: x.id == pid)

    def ensures(self, c, st, res):
        cfg, p, fam = st["self"], st["p"], st["fam"]
        n = SInt(fam.base.n)
        segs = res.propositions.segs if type(res.propositions) is Seq else None
        gens = [s for s in segs if type(s) is Gen] if segs is not None else []
        items = [s[1] for s in segs if type(s) is not Gen] if segs is not None else []
        same_children = (segs is not None and len(gens) == 1 and z3.is_true(z3.simplify(gens[0].guard))
                         and gens[0].base is fam.base and gens[0].elem._fam is fam and len(items) == 1 and items[0] is p)
        return [
            ("add/refuse.complete", bnot(self._clash(st))),          # returning normally => no clash
            ("add/post.children", same_children),
            ("add/post.value", res.value == n + 1),
            ("add/post.sign", res.sign == 1),
            ("add/post.id", res.id == cfg.id),
            ("add/post.class", type(res) is st["cc"].StingyConfigurator),
            ("add/post.explicit-id", bnot(res.generated_id)),
        ]

    def ensures_raise(self, c, st, exc):
        # raising is only allowed when the id clashes
        return [("add/refuse.sound", self._clash(st))]

    def concretise(self, case, k, model, c, st):
        from .common import _mv, concretise_children
        fam = st["fam"]
        kids = concretise_children(model, fam, k, None)
        pid = _mv(model, st["p"]._var().id.t)
        ids = [_mv(model, fam.fn("id")(z3.IntVal(j))) for j in range(k)]
        p = concretise_children(model, st["p"]._fam, 1, None, extra_bool=("generated_id",))[0]
        return {"children": kids, "p": p, "clash_with": ids.index(pid) if pid in ids else None}

    def replay(self, w):
        import puan
        import puan.logic.plog as pg
        import puan.modules.configurator as cc
        from .common import build_children
        for d in w["children"] + [w["p"]]:
            d.setdefault("tv", 0)
            if d["kind"] == "atom":
                d["lo"], d["hi"] = 0, 1
        w["p"]["id"] = "P" + w["p"]["id"]
        if w["clash_with"] is not None:
            w["p"]["id"] = w["children"][w["clash_with"]]["id"]
        kids, _ = build_children(w["children"])
        p = build_children([w["p"]])[0][0]
        if w["clash_with"] is not None and w["p"].get("generated_id") and w["p"]["kind"] == "compound":
            # a rule without explicit id clashes through its generated id: the same anonymous rule is already there
            kids[w["clash_with"]] = pg.Any("pa", "pb")
            p = pg.Any("pa", "pb")
        cfg = cc.StingyConfigurator(*kids, id="cfg")
        before = cfg.to_text()
        violated = []
        try:
            res = cfg.add(p)
            raised = False
        except Exception:
            raised = True
        clash = w["clash_with"] is not None
        if raised and not clash:
            violated.append("add/refuse.sound")
        if not raised:
            if clash:
                violated.append("add/refuse.complete")
            ids = sorted(str(x.id) for x in res.propositions)
            if ids != sorted([str(x.id) for x in kids] + [str(p.id)]):
                violated.append("add/post.children")
            if res.value != len(set(ids)):
                violated.append("add/post.value")
            if res.id != "cfg":
                violated.append("add/post.id")
            if type(res) is not cc.StingyConfigurator:
                violated.append("add/post.class")
        if cfg.to_text() != before:
            violated.append("frame")
        return {"violated": violated, "detail": {"children": [str(x.id) for x in kids], "added": str(p.id), "raised": raised}}


HARNESSES = [AddH()]
