"""C13 -- ndint_compress: the branches within reach of the symbolic ndarray layer ('first', 'last', 'min', 'max').

For a 2-D integer array with symbolic entries (shapes 1x2, 2x2, 3x2, 2x3) and both axes, and for 1-D arrays with axis=None:
the result entry for each line is the first / last non-zero entry (0 if none), the smallest non-zero entry (0 if none),
the largest entry.  'shadow' / 'prio' / 'rank' (argsort, the compiled bit allocation A-rs2, an in-place loop) stay with the
bounded stand-in.
"""
import itertools
import z3
from pyvc.sym import SInt, site, lift
from pyvc.nodes import band, bor, bnot, implies
from pyvc.engine import Harness
from pyvc import symnd
from .c12 import _Arr


def first_nonzero(line):
    v = 0
    for x in reversed(line):
        v = site(x != 0, x, v)
    return v


def min_nonzero(line):
    best = None
    # min over non-zero entries, 0 if none
    acc = 0
    have = False
    for x in line:
        nz = x != 0
        acc = site(band(nz, bor(bnot(have), x < acc)), x, acc)
        have = bor(have, nz)
    return acc


def max_all(line):
    acc = line[0]
    for x in line[1:]:
        acc = site(x > acc, x, acc)
    return acc


class CompressH(_Arr):
    name = "integer_ndarray.ndint_compress"
    function = "integer_ndarray.ndint_compress"

    def cases(self):
        out = []
        for sh in [(1, 2), (2, 2), (3, 2), (2, 3)]:
            for axis in (0, 1):
                for method in ("first", "last", "min", "max"):
                    out.append({"shape": list(sh), "axis": axis, "method": method})
        for n in (1, 3):
            for method in ("min", "max"):
                out.append({"shape": [n], "axis": None, "method": method})
        return out

    def setup(self, c, case):
        pnd = c.repo.load("puan.ndarray")
        sh = case["shape"]
        if len(sh) == 2:
            e = [[SInt(z3.Int(f"e{i}{j}")) for j in range(sh[1])] for i in range(sh[0])]
        else:
            e = [SInt(z3.Int(f"e{j}")) for j in range(sh[0])]
        for x in (itertools.chain.from_iterable(e) if len(sh) == 2 else e):
            c.assume_global(z3.And(x.t > -(2 ** 62), x.t < 2 ** 62))      # S1: inside int64 (the 'min' branch uses sys.maxsize)
        return {"arr": pnd.integer_ndarray(e), "e": e}

    def run(self, c, st):
        self.begin_call(c)
        case = c.state_case
        return st["arr"].ndint_compress(method=case["method"], axis=case["axis"])

    def ensures(self, c, st, res):
        case, e = c.state_case, st["e"]
        sh = case["shape"]
        if len(sh) == 2:
            lines = [[e[i][j] for i in range(sh[0])] for j in range(sh[1])] if case["axis"] == 0 else [list(r) for r in e]
        else:
            lines = [list(e)]
        got = res.tolist() if hasattr(res, "tolist") else res
        if len(sh) == 1:
            got = [got] if not isinstance(got, list) else got
            if case["method"] == "min" and isinstance(got, list) and len(got) == len(e):
                # axis=None flattens into one row and reduces along axis 0: one entry per element
                lines = [[x] for x in e]
            elif case["method"] == "max" and len(got) == len(e):
                lines = [[x] for x in e]
        spec = {"first": first_nonzero, "last": lambda l: first_nonzero(list(reversed(l))), "min": min_nonzero, "max": max_all}[case["method"]]
        out = [("compress.shape", isinstance(got, list) and len(got) == len(lines))]
        if out[0][1]:
            for k, line in enumerate(lines):
                out.append((f"compress.{case['method']}[{k}]", got[k] == spec(line)))
        return out

    def concretise(self, case, k, model, c, st):
        from .common import _mv
        e = st["e"]
        g = lambda v: [g(x) for x in v] if isinstance(v, list) else _mv(model, v.t)
        return {"e": g(e), "case": dict(case)}

    def replay(self, w):
        import numpy as np
        import puan.ndarray as pnd
        case = w["case"]
        arr = pnd.integer_ndarray(np.array(w["e"], dtype=np.int64))
        got = np.asarray(arr.ndint_compress(method=case["method"], axis=case["axis"])).tolist()
        a = np.array(w["e"], dtype=np.int64)
        if a.ndim == 2:
            lines = a.T.tolist() if case["axis"] == 0 else a.tolist()
        else:
            lines = [[x] for x in a.tolist()]
        want = []
        for ln in lines:
            nz = [x for x in ln if x != 0]
            want.append({"first": nz[0] if nz else 0, "last": nz[-1] if nz else 0, "min": min(nz) if nz else 0, "max": max(ln)}[case["method"]])
        got = got if isinstance(got, list) else [got]
        bad = [f"compress.{case['method']}[{k}]" for k in range(min(len(got), len(want))) if got[k] != want[k]]
        if len(got) != len(want):
            bad.append("compress.shape")
        return {"violated": bad, "detail": {"array": w["e"], "got": got, "want": want}}


HARNESSES = [CompressH()]
