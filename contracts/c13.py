"""C13 -- ndint_compress: the branches within reach of the symbolic ndarray layer ('first', 'last', 'min', 'max').

For a 2-D integer array with symbolic entries (shapes 1x2, 2x2, 3x2, 2x3) and both axes, and for 1-D arrays with axis=None:
the result entry for each line is the first / last non-zero entry (0 if none), the smallest non-zero entry (0 if none),
the largest entry.  'shadow' / 'prio' / 'rank' (argsort, the compiled bit allocation A-rs2, an in-place loop) stay with the
bounded stand-in.
"""
import itertools
import z3
from pyvc.sym import SInt, site, lift
from pyvc.nodes import band, bor, bnot, implies
from pyvc.engine import Harness
from pyvc import symnd
from .c12 import _Arr


def first_nonzero(line):
    v = 0
    for x in reversed(line):
        v = site(x != 0, x, v)
    return v


def min_nonzero(line):
    best = None
    # min over non-zero entries, 0 if none
    acc = 0
    have = False
    for x in line:
        nz = x != 0
        acc = site(band(nz, bor(bnot(have), x < acc)), x, acc)
        have = bor(have, nz)
    return acc


def max_all(line):
    acc = line[0]
    for x in line[1:]:
        acc = site(x > acc, x, acc)
    return acc


class CompressH(_Arr):
    name = "integer_ndarray.ndint_compress"
    function = "integer_ndarray.ndint_compress"

    def cases(self):
        out = []
        for sh in [(1, 2), (2, 2), (3, 2), (2, 3)]:
            for axis in (0, 1):
                for method in ("first", "last", "min", "max"):
                    out.append({"shape": list(sh), "axis": axis, "method": method})
        for n in (1, 3):
            for method in ("min", "max"):
                out.append({"shape": [n], "axis": None, "method": method})
        return out

    def setup(self, c, case):
        pnd = c.repo.load("puan.ndarray")
        sh = case["shape"]
        if len(sh) == 2:
            e = [[SInt(z3.Int(f"e{i}{j}")) for j in range(sh[1])] for i in range(sh[0])]
        else:
            e = [SInt(z3.Int(f"e{j}")) for j in range(sh[0])]
        for x in (itertools.chain.from_iterable(e) if len(sh) == 2 else e):
            c.assume_global(z3.And(x.t > -(2 ** 62), x.t < 2 ** 62))      # S1: inside int64 (the 'min' branch uses sys.maxsize)
        return {"arr": pnd.integer_ndarray(e), "e": e}

    def run(self, c, st):
        self.begin_call(c)
        case = c.state_case
        return st["arr"].ndint_compress(method=case["method"], axis=case["axis"])

    def ensures(self, c, st, res):
        case, e = c.state_case, st["e"]
        sh = case["shape"]
        if len(sh) == 2:
            lines = [[e[i][j] for i in range(sh[0])] for j in range(sh[1])] if case["axis"] == 0 else [list(r) for r in e]
        else:
            lines = [list(e)]
        got = res.tolist() if hasattr(res, "tolist") else res
        if len(sh) == 1:
            got = [got] if not isinstance(got, list) else got
            if case["method"] == "min" and isinstance(got, list) and len(got) == len(e):
                # axis=None flattens into one row and reduces along axis 0: one entry per element
                lines = [[x] for x in e]
            elif case["method"] == "max" and len(got) == len(e):
                lines = [[x] for x in e]
        spec = {"first": first_nonzero, "last": lambda l: first_nonzero(list(reversed(l))), "min": min_nonzero, "max": max_all}[case["method"]]
        out = [("compress.shape", isinstance(got, list) and len(got) == len(lines))]
        if out[0][1]:
            for k, line in enumerate(lines):
                out.append((f"compress.{case['method']}[{k}]", got[k] == spec(line)))
        return out

    def concretise(self, case, k, model, c, st):
        from .common import _mv
        e = st["e"]
        g = lambda v: [g(x) for x in v] if isinstance(v, list) else _mv(model, v.t)
        return {"e": g(e), "case": dict(case)}

    def replay(self, w):
        import numpy as np
        import puan.ndarray as pnd
        case = w["case"]
        arr = pnd.integer_ndarray(np.array(w["e"], dtype=np.int64))
        got = np.asarray(arr.ndint_compress(method=case["method"], axis=case["axis"])).tolist()
        a = np.array(w["e"], dtype=np.int64)
        if a.ndim == 2:
            lines = a.T.tolist() if case["axis"] == 0 else a.tolist()
        else:
            lines = [[x] for x in a.tolist()]
        want = []
        for ln in lines:
            nz = [x for x in ln if x != 0]
            want.append({"first": nz[0] if nz else 0, "last": nz[-1] if nz else 0, "min": min(nz) if nz else 0, "max": max(ln)}[case["method"]])
        got = got if isinstance(got, list) else [got]
        bad = [f"compress.{case['method']}[{k}]" for k in range(min(len(got), len(want))) if got[k] != want[k]]
        if len(got) != len(want):
            bad.append("compress.shape")
        return {"violated": bad, "detail": {"array": w["e"], "got": got, "want": want}}


class RankingH(_Arr):
    """integer_ndarray.ranking and ndint_compress(method='rank') on 1-D arrays (and ranking row by row on 2-D): a dense,
    order-preserving ranking -- equal entries get equal ranks, a larger entry a larger rank, the ranks used are consecutive
    integers starting at 1 if the smallest entry is positive and at 0 otherwise."""
    name = "integer_ndarray.ranking"
    function = "integer_ndarray.ranking"
    functions = ["integer_ndarray.ranking", "integer_ndarray.ndint_compress"]

    def cases(self):
        return [{"n": 1, "via": "ranking"}, {"n": 2, "via": "ranking"}, {"n": 3, "via": "ranking"}, {"n": 3, "via": "rank"},
                {"n": 2, "via": "ranking2d"}]

    def setup(self, c, case):
        pnd = c.repo.load("puan.ndarray")
        n = case["n"]
        if case["via"] == "ranking2d":
            e = [[SInt(z3.Int(f"e{i}{j}")) for j in range(n)] for i in range(2)]
            flat = [x for r_ in e for x in r_]
        else:
            e = [SInt(z3.Int(f"e{j}")) for j in range(n)]
            flat = e
        for x in flat:
            c.assume_global(z3.And(x.t > -(2 ** 62), x.t < 2 ** 62))
        return {"arr": pnd.integer_ndarray(e), "e": e}

    def run(self, c, st):
        self.begin_call(c)
        via = c.state_case["via"]
        if via == "rank":
            return st["arr"].ndint_compress(method="rank")
        return st["arr"].ranking()

    @staticmethod
    def _dense(line, res):
        n = len(line)
        out = []
        for i in range(n):
            for j in range(n):
                out.append(band((line[i] < line[j]) == (res[i] < res[j]), (line[i] == line[j]) == (res[i] == res[j])))
        order = band(*out) if out else True
        # consecutive: every rank is the start or one more than the rank of some entry
        mn = line[0]
        for x in line[1:]:
            mn = site(x < mn, x, mn)
        start = site(mn > 0, 1, 0)
        cons = True
        for i in range(n):
            pred = res[i] == start
            for j in range(n):
                pred = bor(pred, res[i] == res[j] + 1)
            cons = band(cons, pred, res[i] >= start)
        low = bor(*[band(line[i] == mn, res[i] == start) for i in range(n)])
        return order, band(cons, low)

    def ensures(self, c, st, res):
        e = st["e"]
        rows = e if c.state_case["via"] == "ranking2d" else [e]
        got = res if c.state_case["via"] == "ranking2d" else [res]
        out = [("ranking.shape", len(got) == len(rows) and all(len(g) == len(r_) for g, r_ in zip(got, rows)))]
        if not out[0][1]:
            return out
        for k, (line, g) in enumerate(zip(rows, got)):
            order, dense = self._dense(list(line), [g[j] for j in range(len(line))])
            out.append((f"ranking.order-preserving[{k}]", order))
            out.append((f"ranking.dense[{k}]", dense))
        return out

    def concretise(self, case, k, model, c, st):
        from .common import _mv
        e = st["e"]
        g = lambda v: _mv(model, v.t)
        return {"case": dict(case), "e": [[g(x) for x in r_] for r_ in e] if case["via"] == "ranking2d" else [g(x) for x in e]}

    def replay(self, w):
        import numpy as np
        import puan.ndarray as pnd
        arr = pnd.integer_ndarray(np.array(w["e"], dtype=np.int64))
        res = arr.ndint_compress(method="rank") if w["case"]["via"] == "rank" else arr.ranking()
        rows = w["e"] if w["case"]["via"] == "ranking2d" else [w["e"]]
        got = np.asarray(res).tolist() if w["case"]["via"] == "ranking2d" else [np.asarray(res).tolist()]
        violated = []
        for k, (line, g) in enumerate(zip(rows, got)):
            n = len(line)
            if not all(((line[i] < line[j]) == (g[i] < g[j])) and ((line[i] == line[j]) == (g[i] == g[j])) for i in range(n) for j in range(n)):
                violated.append(f"ranking.order-preserving[{k}]")
            start = 1 if min(line) > 0 else 0
            if sorted(set(g)) != list(range(start, start + len(set(line)))):
                violated.append(f"ranking.dense[{k}]")
        return {"violated": violated, "detail": {"input": w["e"], "result": got}}


class ShadowH(_Arr):
    """ndint_compress(method='shadow') through the real Python code with the compiled bit allocation replaced by the
    executable form of its assumed contract A-rs2 (pyvc.rsmodel): for 1-D and small 2-D arrays with symbolic entries the
    result keeps zeros and signs, gives equal effective priorities equal weights, orders weights like the priorities
    (later rows above earlier rows) and makes every weight strictly larger than the sum of the absolute weights of all
    lower priorities."""
    name = "integer_ndarray.ndint_compress(shadow)"
    function = "integer_ndarray.ndint_compress"
    functions = ["integer_ndarray.ndint_compress", "integer_ndarray.reduce2d"]
    rs_model = True

    def cases(self):
        import os
        shapes = [(1, 2), (1, 3), (2, 1), (2, 2)]
        if os.environ.get("PYVC_TIER") == "thorough":
            shapes += [(2, 3), (3, 2)]
        out = [{"shape": list(sh), "axis": ax} for sh in shapes for ax in (0, 1)]
        out += [{"shape": [n], "axis": None} for n in (1, 2, 3)]
        return out

    def setup(self, c, case):
        pnd = c.repo.load("puan.ndarray")
        sh = case["shape"]
        if len(sh) == 2:
            e = [[SInt(z3.Int(f"e{i}{j}")) for j in range(sh[1])] for i in range(sh[0])]
            flat = [x for r_ in e for x in r_]
        else:
            e = [SInt(z3.Int(f"e{j}")) for j in range(sh[0])]
            flat = e
        for x in flat:
            c.assume_global(z3.And(x.t > -(2 ** 31), x.t < 2 ** 31))
        return {"e": e, "arr": pnd.integer_ndarray(e)}

    def run(self, c, st):
        self.begin_call(c)
        ax = c.state_case["axis"]
        return st["arr"].ndint_compress(method="shadow", axis=ax) if ax is not None else st["arr"].ndint_compress(method="shadow")

    def ensures(self, c, st, res):
        case = c.state_case
        if len(case["shape"]) == 2:
            lines = PrioH._lines(st["e"], case["axis"])
        else:
            lines = [[x] for x in st["e"]]          # 1-D: one level, every entry its own column
        w = len(lines)
        out = [("shadow.shape", tuple(res.shape) == (w,))]
        if not out[0][1]:
            return out
        idx, mag, sgn = [], [], []
        for ln in lines:
            i_, v_ = -1, 0
            for k, x in enumerate(ln):
                i_ = site(x != 0, k, i_)
                v_ = site(x != 0, x, v_)
            idx.append(i_)
            mag.append(site(v_ < 0, -v_, v_))
            sgn.append(v_)
        ab = lambda x: site(x < 0, -x, x)
        zs = True
        for j in range(w):
            zs = band(zs, (res[j] == 0) == (sgn[j] == 0), (res[j] > 0) == (sgn[j] > 0))
        order = True
        for j in range(w):
            for k in range(w):
                both = band(sgn[j] != 0, sgn[k] != 0)
                eq = band(idx[j] == idx[k], mag[j] == mag[k])
                lt = bor(idx[j] < idx[k], band(idx[j] == idx[k], mag[j] < mag[k]))
                order = band(order, implies(band(both, eq), ab(res[j]) == ab(res[k])), implies(band(both, lt), ab(res[j]) < ab(res[k])))
        dom = True
        for j in range(w):
            lower = 0
            for k in range(w):
                lt = bor(idx[k] < idx[j], band(idx[k] == idx[j], mag[k] < mag[j]))
                lower = lower + site(band(sgn[k] != 0, sgn[j] != 0, lt), ab(res[k]), 0)
            dom = band(dom, implies(sgn[j] != 0, ab(res[j]) > lower))
        out += [("shadow.zero-and-sign", zs), ("shadow.order", order), ("shadow.dominance", dom)]
        return out

    def concretise(self, case, k, model, c, st):
        from .common import _mv
        e = st["e"]
        g = lambda v: _mv(model, v.t)
        return {"case": dict(case), "e": [[g(x) for x in r_] for r_ in e] if len(case["shape"]) == 2 else [g(x) for x in e]}

    def replay(self, w):
        import numpy as np
        import puan.ndarray as pnd
        arr = np.array(w["e"], dtype=np.int64)
        ax = w["case"]["axis"]
        got = np.asarray(pnd.integer_ndarray(arr.copy()).ndint_compress(method="shadow", axis=ax) if ax is not None
                         else pnd.integer_ndarray(arr.copy()).ndint_compress(method="shadow")).tolist()
        if arr.ndim == 2:
            lines = arr.T.tolist() if ax == 0 else arr.tolist()
        else:
            lines = [[x] for x in arr.tolist()]
        width = len(lines)
        eff = []
        for ln in lines:
            ix = [k for k, x in enumerate(ln) if x != 0]
            eff.append((ix[-1], abs(ln[ix[-1]]), 1 if ln[ix[-1]] > 0 else -1) if ix else None)
        violated = []
        if len(got) != width:
            return {"violated": ["shadow.shape"], "detail": {"result": got}}
        if any((got[j] == 0) != (eff[j] is None) or (eff[j] is not None and (got[j] > 0) != (eff[j][2] > 0)) for j in range(width)):
            violated.append("shadow.zero-and-sign")
        bad_o, bad_d = False, False
        for j in range(width):
            if not eff[j]:
                continue
            lower = 0
            for k in range(width):
                if eff[k]:
                    if eff[j][:2] == eff[k][:2] and abs(got[j]) != abs(got[k]):
                        bad_o = True
                    if eff[k][:2] < eff[j][:2]:
                        lower += abs(got[k])
                        if not abs(got[k]) < abs(got[j]):
                            bad_o = True
            if not abs(got[j]) > lower:
                bad_d = True
        if bad_o:
            violated.append("shadow.order")
        if bad_d:
            violated.append("shadow.dominance")
        return {"violated": violated, "detail": {"input": w["e"], "axis": ax, "shadow": got}}


class PrioH(_Arr):
    """ndint_compress(method='prio' | 'rank') on 2-D arrays with symbolic entries (both axes).  With the effective priority of
    an output position = (index of the last non-zero entry along the axis, its absolute value) and the sign of that entry:
    'prio' is 0 exactly where the line is all zero, carries the sign, orders magnitudes like the effective priorities (equal
    priorities equal magnitudes, later rows above earlier rows) and uses the magnitudes 1..m densely; 'rank' is a dense
    order-preserving ranking of the signed 'prio' vector starting at 0 or 1."""
    name = "integer_ndarray.ndint_compress(prio,rank)"
    function = "integer_ndarray.ndint_compress"
    functions = ["integer_ndarray.ndint_compress", "integer_ndarray.reduce2d", "integer_ndarray.ranking"]

    def cases(self):
        import os
        shapes = [(1, 2), (2, 1), (2, 2)]
        if os.environ.get("PYVC_TIER") == "thorough":
            shapes += [(2, 3), (3, 2)]
        return [{"shape": list(sh), "axis": ax} for sh in shapes for ax in (0, 1)]

    def setup(self, c, case):
        pnd = c.repo.load("puan.ndarray")
        r_, k_ = case["shape"]
        e = [[SInt(z3.Int(f"e{i}{j}")) for j in range(k_)] for i in range(r_)]
        for row in e:
            for x in row:
                c.assume_global(z3.And(x.t > -(2 ** 31), x.t < 2 ** 31))
        return {"e": e, "mk": lambda: pnd.integer_ndarray([list(row) for row in e])}

    def run(self, c, st):
        self.begin_call(c)
        ax = c.state_case["axis"]
        prio = st["mk"]().ndint_compress(method="prio", axis=ax)
        c.nd_epoch += 1
        rank = st["mk"]().ndint_compress(method="rank", axis=ax)
        return {"prio": prio, "rank": rank}

    @staticmethod
    def _lines(e, axis):
        return [[e[i][j] for i in range(len(e))] for j in range(len(e[0]))] if axis == 0 else [list(r_) for r_ in e]

    def ensures(self, c, st, res):
        lines = self._lines(st["e"], c.state_case["axis"])
        w = len(lines)
        pr, rk = res["prio"], res["rank"]
        out = [("prio.shape", tuple(pr.shape) == (w,) and tuple(rk.shape) == (w,))]
        if not out[0][1]:
            return out
        idx, mag, sgn = [], [], []
        for ln in lines:
            i_, v_ = -1, 0
            for k, x in enumerate(ln):
                i_ = site(x != 0, k, i_)
                v_ = site(x != 0, x, v_)
            idx.append(i_)
            mag.append(site(v_ < 0, -v_, v_))
            sgn.append(v_)
        ab = lambda x: site(x < 0, -x, x)
        zero_sign = True
        for j in range(w):
            zero_sign = band(zero_sign, (pr[j] == 0) == (sgn[j] == 0), (pr[j] > 0) == (sgn[j] > 0))
        order = True
        for j in range(w):
            for k in range(w):
                both = band(sgn[j] != 0, sgn[k] != 0)
                eq = band(idx[j] == idx[k], mag[j] == mag[k])
                lt = bor(idx[j] < idx[k], band(idx[j] == idx[k], mag[j] < mag[k]))
                order = band(order, implies(band(both, eq), ab(pr[j]) == ab(pr[k])), implies(band(both, lt), ab(pr[j]) < ab(pr[k])))
        dense = True
        for j in range(w):
            pred = ab(pr[j]) == 1
            for k in range(w):
                pred = bor(pred, ab(pr[j]) == ab(pr[k]) + 1)
            dense = band(dense, implies(pr[j] != 0, pred))
        riso = True
        for j in range(w):
            for k in range(w):
                riso = band(riso, (pr[j] < pr[k]) == (rk[j] < rk[k]), (pr[j] == pr[k]) == (rk[j] == rk[k]))
        rdense = True
        mn = rk[0]
        for x in [rk[j] for j in range(1, w)]:
            mn = site(x < mn, x, mn)
        for j in range(w):
            pred = rk[j] == mn
            for k in range(w):
                pred = bor(pred, rk[j] == rk[k] + 1)
            rdense = band(rdense, pred)
        rdense = band(rdense, bor(mn == 0, mn == 1))
        out += [("prio.zero-and-sign", zero_sign), ("prio.order", order), ("prio.dense", dense),
                ("rank.order-isomorphic-to-prio", riso), ("rank.dense", rdense)]
        return out

    def concretise(self, case, k, model, c, st):
        from .common import _mv
        return {"case": dict(case), "e": [[_mv(model, x.t) for x in row] for row in st["e"]]}

    def replay(self, w):
        import numpy as np
        import puan.ndarray as pnd
        arr = np.array(w["e"], dtype=np.int64)
        ax = w["case"]["axis"]
        pr = np.asarray(pnd.integer_ndarray(arr.copy()).ndint_compress(method="prio", axis=ax)).tolist()
        rk = np.asarray(pnd.integer_ndarray(arr.copy()).ndint_compress(method="rank", axis=ax)).tolist()
        lines = arr.T.tolist() if ax == 0 else arr.tolist()
        width = len(lines)
        eff = []
        for ln in lines:
            ix = [k for k, x in enumerate(ln) if x != 0]
            eff.append((ix[-1], abs(ln[ix[-1]]), 1 if ln[ix[-1]] > 0 else -1) if ix else None)
        violated = []
        if any((pr[j] == 0) != (eff[j] is None) or (eff[j] is not None and (pr[j] > 0) != (eff[j][2] > 0)) for j in range(width)):
            violated.append("prio.zero-and-sign")
        bad_order = False
        for j in range(width):
            for k in range(width):
                if eff[j] and eff[k]:
                    if eff[j][:2] == eff[k][:2] and abs(pr[j]) != abs(pr[k]):
                        bad_order = True
                    if eff[j][:2] < eff[k][:2] and not abs(pr[j]) < abs(pr[k]):
                        bad_order = True
        if bad_order:
            violated.append("prio.order")
        mags = sorted({abs(x) for x in pr if x != 0})
        if mags != list(range(1, len(mags) + 1)):
            violated.append("prio.dense")
        if not all((pr[j] < pr[k]) == (rk[j] < rk[k]) and (pr[j] == pr[k]) == (rk[j] == rk[k]) for j in range(width) for k in range(width)):
            violated.append("rank.order-isomorphic-to-prio")
        vals = sorted(set(rk))
        if not (vals == list(range(vals[0], vals[0] + len(vals))) and vals[0] in (0, 1)):
            violated.append("rank.dense")
        return {"violated": violated, "detail": {"input": w["e"], "axis": ax, "prio": pr, "rank": rk}}


class Prio1DH(_Arr):
    """ndint_compress(method='prio' | 'rank') on a 1-D array with an explicit axis=0 (its own branch in the source): an
    order-preserving ranking with ties kept -- r_i < r_j exactly when v_i < v_j, hence r_i == r_j exactly when v_i == v_j."""
    name = "integer_ndarray.ndint_compress(prio,rank;1-D,axis=0)"
    function = "integer_ndarray.ndint_compress"
    functions = ["integer_ndarray.ndint_compress", "integer_ndarray.ranking"]

    def cases(self):
        return [{"n": 2}, {"n": 3}]

    def setup(self, c, case):
        pnd = c.repo.load("puan.ndarray")
        e = [SInt(z3.Int(f"e{j}")) for j in range(case["n"])]
        for x in e:
            c.assume_global(z3.And(x.t > -(2 ** 31), x.t < 2 ** 31))
        return {"e": e, "mk": lambda: pnd.integer_ndarray(list(e))}

    def run(self, c, st):
        self.begin_call(c)
        prio = st["mk"]().ndint_compress(method="prio", axis=0)
        c.nd_epoch += 1
        rank = st["mk"]().ndint_compress(method="rank", axis=0)
        return {"prio": prio.tolist(), "rank": rank.tolist()}

    def ensures(self, c, st, res):
        e, n = st["e"], len(st["e"])
        out = []
        for m in ("prio", "rank"):
            r = res[m]
            ok = len(r) == n
            if ok:
                for i in range(n):
                    for j in range(n):
                        if i != j:
                            ok = band(ok, (r[i] < r[j]) == (e[i] < e[j]))
            out.append((f"{m}1d.order-preserving", ok))
        return out

    def concretise(self, case, k, model, c, st):
        from .common import _mv
        return {"case": dict(case), "e": [_mv(model, x.t) for x in st["e"]]}

    def replay(self, w):
        import puan.ndarray as pnd
        v = [int(x) for x in w["e"]]
        violated, detail = [], {"array": v}
        for m in ("prio", "rank"):
            r = [int(x) for x in pnd.integer_ndarray(list(v)).ndint_compress(method=m, axis=0).tolist()]
            detail[m] = r
            if len(r) != len(v) or any((r[i] < r[j]) != (v[i] < v[j]) for i in range(len(v)) for j in range(len(v)) if i != j):
                violated.append(f"{m}1d.order-preserving")
        return {"violated": violated, "detail": detail}


HARNESSES = [RankingH(), PrioH(), Prio1DH(), ShadowH(), CompressH()]
