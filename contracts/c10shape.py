"""C10 -- the real `errors()` (with the real `_occurrences`, `_dependencies`, `flatten`, graphlib) executed on concrete
tree SHAPES in which the entities the verdict depends on (the bounds of a repeated leaf id, the thresholds and signs of
a repeated sub-proposition id) are symbolic: bounded in shape, unbounded in those values (every pair of bounds, every pair
of thresholds -- in particular pairs whose hashes or sums coincide).  Independent of the
source text of errors() (no pattern extraction): whatever way the checks are written, for each shape

  dup-leaf       two occurrences of one leaf id under different parents:   accepted  <=>  the two bounds are equal
  dup-compound   two sub-propositions with one id, same child ids:         accepted  <=>  same sign and same threshold
  dup-children   two sub-propositions with one id, different child ids:    rejected
  dup-own-bounds two sub-propositions with one id and one definition but different own bounds:  rejected
  same-child     a node that lists one id twice (equal bounds):            rejected
  cycle          a node whose child carries the node's own id:             rejected
  cross-cycle    two sibling branches that refer to each other (B lists C's id, C lists B's id), and a ring of three: rejected
  shadowed-dup   a node that lists a child twice, while another branch (earlier in the traversal) refers to that node's id
                 as a plain variable with the same bounds:                 rejected
  root-dup       a sub-proposition two levels down that carries the ROOT's id with another definition:  rejected
  fixed-cycle    a cycle closed through a reference with fixed bounds (1,1) equal to the own bounds of the node: rejected
  tree           pairwise distinct ids, any bounds / thresholds / signs:   accepted
  shared         one sub-proposition object under two parents:             accepted

Also (C03/C14/glue use `flatten` by contract): on every shape `flatten()` returns each id of the model exactly once, in
id order, as objects of the model, and `_occurrences()` returns one entry per occurrence.
"""
import z3
from pyvc.sym import SInt, ctx
from pyvc.nodes import band, bor, bnot, implies
from pyvc.engine import Harness
from .common import mk_variable, _mv


SYMBOLIC = {"a1", "a2", "B1", "B2"}      # what is symbolic per shape: the entities the verdict depends on; the rest is (0,1) / 1


def leaf(c, repo, vid, tag):
    if tag not in SYMBOLIC:
        return mk_variable(repo, vid, 0, 1), 0, 1
    lo, hi = SInt(z3.Int(f"lo.{tag}")), SInt(z3.Int(f"hi.{tag}"))
    c.assume_global(z3.And(lo.t <= hi.t, lo.t >= -32768, hi.t <= 32767))
    return mk_variable(repo, vid, lo, hi), lo, hi


def compound(c, repo, vid, kids, sign, tag, own=(0, 1), generated=False):
    n = object.__new__(repo.plog.AtLeast)
    val = SInt(z3.Int(f"value.{tag}")) if tag in SYMBOLIC else 1
    n.__dict__.update(generated_id=generated, sign=sign, value=val, propositions=sorted(kids, key=lambda x: x.id),
                      variable=mk_variable(repo, vid, own[0], own[1]))
    return n, val


class ErrorsShapeH(Harness):
    name = "AtLeast.errors(shapes)"
    function = "AtLeast.errors"
    module = "puan.logic.plog"
    functions = ["AtLeast.errors", "AtLeast._occurrences", "AtLeast._dependencies", "AtLeast.flatten"]

    def cases(self):
        out = [{"shape": "dup-leaf"}, {"shape": "tree"}, {"shape": "shared"}, {"shape": "same-child"}, {"shape": "cycle"},
               {"shape": "dup-children"}, {"shape": "dup-own-bounds"}, {"shape": "cross-cycle"}, {"shape": "ring3"},
               {"shape": "fixed-cycle"}, {"shape": "shadowed-dup"}, {"shape": "root-dup"}]
        for s1 in (1, -1):
            for s2 in (1, -1):
                out.append({"shape": "dup-compound", "s1": s1, "s2": s2})
        # the same with library-made ids (two unnamed sub-propositions whose generated ids coincide)
        out.append({"shape": "dup-compound", "s1": 1, "s2": 1, "generated": True})
        out.append({"shape": "dup-children", "generated": True})
        return out

    def setup(self, c, case):
        repo = c.repo
        sh = case["shape"]
        st = {"syms": {}}
        L = lambda vid, tag: leaf(c, repo, vid, tag)
        if sh == "dup-leaf":
            a1, lo1, hi1 = L("a", "a1")
            a2, lo2, hi2 = L("a", "a2")
            b, _, _ = L("b", "b")
            cc_, _, _ = L("c", "c")
            C, _ = compound(c, repo, "C", [a1, b], 1, "C")
            D, _ = compound(c, repo, "D", [a2, cc_], -1, "D")
            T, _ = compound(c, repo, "T", [C, D], 1, "T")
            st.update(top=T, accept=band(lo1 == lo2, hi1 == hi2), ids=None, n_occ=7)
        elif sh == "tree":
            a, _, _ = L("a", "a"); b, _, _ = L("b", "b"); d, _, _ = L("d", "d")
            C, _ = compound(c, repo, "C", [a, b], -1, "C")
            T, _ = compound(c, repo, "T", [C, d], 1, "T")
            st.update(top=T, accept=True, ids=["C", "T", "a", "b", "d"], n_occ=5)
        elif sh == "shared":
            a, _, _ = L("a", "a"); b, _, _ = L("b", "b"); u, _, _ = L("u", "u"); w, _, _ = L("w", "w")
            S, _ = compound(c, repo, "S", [a, b], 1, "S")
            P, _ = compound(c, repo, "P", [S, u], 1, "P")
            Q, _ = compound(c, repo, "Q", [S, w], -1, "Q")
            T, _ = compound(c, repo, "T", [P, Q], 1, "T")
            st.update(top=T, accept=True, ids=["P", "Q", "S", "T", "a", "b", "u", "w"], n_occ=11)
        elif sh == "same-child":
            a1, lo1, hi1 = L("a", "a1")
            a2 = mk_variable(repo, "a", lo1, hi1)
            b, _, _ = L("b", "b")
            T, _ = compound(c, repo, "T", [a1, a2, b], 1, "T")
            st.update(top=T, accept=False, ids=None, n_occ=4)
        elif sh == "cycle":
            inner, _, _ = L("T", "t")
            b, _, _ = L("b", "b")
            C, _ = compound(c, repo, "C", [inner, b], 1, "C")
            T, _ = compound(c, repo, "T", [C], 1, "T")
            st.update(top=T, accept=False, ids=None, n_occ=4)
        elif sh == "cross-cycle":
            B, _ = compound(c, repo, "B", [L("C", "rc")[0], L("x", "x")[0]], 1, "B")
            C, _ = compound(c, repo, "C", [L("B", "rb")[0], L("y", "y")[0]], -1, "C")
            T, _ = compound(c, repo, "T", [B, C], 1, "T")
            st.update(top=T, accept=False, ids=None, n_occ=7)
        elif sh == "ring3":
            P, _ = compound(c, repo, "P", [L("R", "rr")[0], L("x", "x")[0]], 1, "P")
            Q, _ = compound(c, repo, "Q", [L("P", "rp")[0], L("y", "y")[0]], 1, "Q")
            R, _ = compound(c, repo, "R", [L("Q", "rq")[0], L("z", "z")[0]], -1, "R")
            T, _ = compound(c, repo, "T", [P, Q, R], 1, "T")
            st.update(top=T, accept=False, ids=None, n_occ=10)
        elif sh == "shadowed-dup":
            N, _ = compound(c, repo, "N", [L("x", "x")[0], L("x", "x")[0]], 1, "N")
            C, _ = compound(c, repo, "C", [L("N", "rn")[0], L("y", "y")[0]], 1, "C")
            T, _ = compound(c, repo, "T", [C, N], 1, "T")
            st.update(top=T, accept=False, ids=None, n_occ=7)
        elif sh == "root-dup":
            inner, _ = compound(c, repo, "T", [L("y", "y")[0]], 1, "Ti")
            B, _ = compound(c, repo, "B", [inner, L("w", "w")[0]], 1, "B")
            T, _ = compound(c, repo, "T", [B, L("x", "x")[0]], 1, "T")
            st.update(top=T, accept=False, ids=None, n_occ=6)
        elif sh == "fixed-cycle":
            back = mk_variable(repo, "T", 1, 1)
            C, _ = compound(c, repo, "C", [back, L("b", "b")[0]], 1, "C")
            T, _ = compound(c, repo, "T", [C], 1, "T", own=(1, 1))
            st.update(top=T, accept=False, ids=None, n_occ=4)
        elif sh in ("dup-compound", "dup-children", "dup-own-bounds"):
            x, _, _ = L("x", "x"); y, _, _ = L("y", "y"); z, _, _ = L("z", "z"); u, _, _ = L("u", "u"); w, _, _ = L("w", "w")
            v, _, _ = L("v", "v")
            s1, s2 = case.get("s1", 1), case.get("s2", 1)
            gen = bool(case.get("generated"))
            bid = "VAR0f" if gen else "B"
            B1, v1 = compound(c, repo, bid, [x, y], s1, "B1", generated=gen)
            if sh == "dup-own-bounds":
                B2, v2 = compound(c, repo, bid, [x, y], s1, "B2", own=(1, 1), generated=gen)
                c.assume_global(v1.t == v2.t if hasattr(v2, "t") else v1.t == v2)
            else:
                B2, v2 = compound(c, repo, bid, [x, y] if sh == "dup-compound" else [z, v], s2, "B2", generated=gen)
            P, _ = compound(c, repo, "P", [B1, u], 1, "P")
            Q, _ = compound(c, repo, "Q", [B2, w], 1, "Q")
            T, _ = compound(c, repo, "T", [P, Q], 1, "T")
            acc = band(v1 == v2, s1 == s2) if sh == "dup-compound" else False
            st.update(top=T, accept=acc, ids=None, n_occ=11)
        return st

    def run(self, c, st):
        top = st["top"]
        return {"errors": top.errors(), "flat": top.flatten() if st["ids"] else None, "occ": top._occurrences()}

    def ensures(self, c, st, res):
        ok = len(res["errors"]) == 0
        acc = st["accept"]
        out = [("errors.sound", implies(ok, acc)), ("errors.complete", implies(acc, ok)),
               ("occurrences.count", len(res["occ"]) == st["n_occ"])]
        if st["ids"]:
            flat = res["flat"]
            out.append(("flatten.ids", [x.id for x in flat] == st["ids"]))
        return out

    # replay: the same shape with the model's numbers
    def concretise(self, case, k, model, c, st):
        vals = {}
        for d in model.decls():
            nm = d.name()
            if nm.startswith(("lo.", "hi.", "value.")):
                vals[nm] = _mv(model, z3.Int(nm))
        return {"case": dict(case), "vals": vals}

    def replay(self, w):
        import puan
        import puan.logic.plog as pg
        case, vals = w["case"], w["vals"]
        g = lambda n, d=0: vals.get(n, d)

        def L(vid, tag):
            lo, hi = g(f"lo.{tag}"), g(f"hi.{tag}", 1)
            return puan.variable(vid, (lo, max(lo, hi)))

        def C(vid, kids, sign, tag, own=(0, 1), generated=False):
            n = object.__new__(pg.AtLeast)
            n.__dict__.update(generated_id=generated, sign=puan.Sign(sign), value=g(f"value.{tag}", 1),
                              propositions=sorted(kids, key=lambda x: x.id), variable=puan.variable(vid, own))
            return n
        sh = case["shape"]
        if sh == "dup-leaf":
            T = C("T", [C("C", [L("a", "a1"), L("b", "b")], 1, "C"), C("D", [L("a", "a2"), L("c", "c")], -1, "D")], 1, "T")
            acc = (g("lo.a1"), g("hi.a1", 1)) == (g("lo.a2"), g("hi.a2", 1))
        elif sh == "tree":
            T = C("T", [C("C", [L("a", "a"), L("b", "b")], -1, "C"), L("d", "d")], 1, "T"); acc = True
        elif sh == "shared":
            S = C("S", [L("a", "a"), L("b", "b")], 1, "S")
            T = C("T", [C("P", [S, L("u", "u")], 1, "P"), C("Q", [S, L("w", "w")], -1, "Q")], 1, "T"); acc = True
        elif sh == "same-child":
            T = C("T", [L("a", "a1"), L("a", "a1"), L("b", "b")], 1, "T"); acc = False
        elif sh == "cycle":
            T = C("T", [C("C", [L("T", "t"), L("b", "b")], 1, "C")], 1, "T"); acc = False
        elif sh == "cross-cycle":
            T = C("T", [C("B", [L("C", "rc"), L("x", "x")], 1, "B"), C("C", [L("B", "rb"), L("y", "y")], -1, "C")], 1, "T"); acc = False
        elif sh == "ring3":
            T = C("T", [C("P", [L("R", "rr"), L("x", "x")], 1, "P"), C("Q", [L("P", "rp"), L("y", "y")], 1, "Q"),
                        C("R", [L("Q", "rq"), L("z", "z")], -1, "R")], 1, "T"); acc = False
        elif sh == "shadowed-dup":
            T = C("T", [C("C", [L("N", "rn"), L("y", "y")], 1, "C"), C("N", [L("x", "x"), L("x", "x")], 1, "N")], 1, "T"); acc = False
        elif sh == "root-dup":
            T = C("T", [C("B", [C("T", [L("y", "y")], 1, "Ti"), L("w", "w")], 1, "B"), L("x", "x")], 1, "T"); acc = False
        elif sh == "fixed-cycle":
            T = C("T", [C("C", [puan.variable("T", (1, 1)), L("b", "b")], 1, "C")], 1, "T", own=(1, 1)); acc = False
        else:
            s1, s2 = case.get("s1", 1), case.get("s2", 1)
            x, y, z, v = L("x", "x"), L("y", "y"), L("z", "z"), L("v", "v")
            gen = bool(case.get("generated"))
            bid = "VAR0f" if gen else "B"
            B1 = C(bid, [x, y], s1, "B1", generated=gen)
            if sh == "dup-own-bounds":
                B2 = C(bid, [x, y], s1, "B1", own=(1, 1), generated=gen); acc = False
            elif sh == "dup-compound":
                B2 = C(bid, [x, y], s2, "B2", generated=gen); acc = g("value.B1", 1) == g("value.B2", 1) and s1 == s2
            else:
                B2 = C(bid, [z, v], s2, "B2", generated=gen); acc = False
            T = C("T", [C("P", [B1, L("u", "u")], 1, "P"), C("Q", [B2, L("w", "w")], 1, "Q")], 1, "T")
        errs = T.errors()
        ok = errs == []
        violated = []
        if ok and not acc:
            violated.append("errors.sound")
        if acc and not ok:
            violated.append("errors.complete")
        return {"violated": violated, "detail": {"model": T.to_text(), "errors": [str(e) for e in errs], "well_defined": acc}}


HARNESSES = [ErrorsShapeH()]
