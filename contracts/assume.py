"""AtLeast.assume / variable.assume / variable.evaluate under contract (serves C03, C06, C07).

  post.bounds   the returned object's bounds are ival(self, d)                      (C03, C06: what evaluate reports)
  post.inv      class invariant of the returned object (Bounds ordered; a compound keeps a 0/1 variable)
  post.c07      for every further interpretation e disjoint from d:  ival(result, e) == ival(self, d|e)   (C07)

Spec-level lemmas over `ival`/`truth3` (no code involved, same engine):
  lemma.ival_wf        ival(node, d).lo <= ival(node, d).hi
  lemma.total_const    d fixes every leaf to a constant  =>  ival(node, d) == (truth3(node, d), truth3(node, d))   (C03)
  lemma.sound          e completes d  =>  ival(node, d).lo <= truth3(node, e) <= ival(node, d).hi                 (C06)
"""
import z3
from pyvc.sym import SInt, SId, ctx, lift
from pyvc.nodes import Contract, AbsEnv, UnionEnv, is_abs, band, bor, bnot, implies
from pyvc.engine import Harness
from .common import (new_base, new_family, child_invariants, mk_atleast, mk_variable, Bo, concretise_children, _mv, ints)
from .specs import ival, truth3, is_variable, is_variable_t


class DisjointEnv(AbsEnv):
    """an abstract interpretation whose domain is disjoint from `other`'s"""

    def __init__(self, name, other, forms):
        AbsEnv.__init__(self, name, forms)
        self.other = other

    def _wf(self, k):
        AbsEnv._wf(self, k)
        ctx().axiom(z3.Not(z3.And(self.f_has(k), self.other.f_has(k))))


def bounds_eq(b, pair):
    return band(b.lower == pair[0], b.upper == pair[1])


def pair_eq(a, b):
    return band(a[0] == b[0], a[1] == b[1])


def ens_bounds(self, result, d):
    return bounds_eq(result.bounds, ival(self, d))


def ens_inv(self, result, d):
    b = result.bounds
    return band(b.lower <= b.upper, bor(is_variable_t(result), band(b.lower >= 0, b.upper <= 1)))


def ens_id(self, result, d):
    return result.id == self.id


def ens_c07(self, result, d):
    e, de = further_envs()
    return pair_eq(ival(result, e), ival(self, de))


_NATIVE = {}


def further_envs():
    from pyvc.sym import have_ctx
    if have_ctx():
        c = ctx()
        return c.e, c.de
    return _NATIVE["e"], _NATIVE["de"]


ASSUME_ENSURES = [("post.bounds", ens_bounds), ("post.inv", ens_inv), ("post.id", ens_id), ("post.c07", ens_c07)]


def assume_contract():
    return Contract("assume", "node", [e for _, e in ASSUME_ENSURES], arg_key=lambda d: (d.name,))


FORMS = ("int", "tuple", "bounds")


def setup_envs(c):
    c.d = AbsEnv("d", FORMS)
    c.e = DisjointEnv("e", c.d, FORMS)
    c.de = UnionEnv(c.d, c.e)


def leaves_only(c, e, node, fam):
    """the further interpretation e mentions leaf ids only (C07: 'interpretation of the remaining leaves')"""
    i = fam.base.ivar
    c.assume_global(z3.Not(e.f_has(node.variable.id.t)))
    c.add_pointwise(i, z3.Implies(z3.Not(fam.fn("atom", Bo)(i)), z3.Not(e.f_has(fam.fn("id")(i)))))
    # ... and gives them values they can take (inside the leaf's bounds)
    vid = fam.fn("id")(i)
    c.add_pointwise(i, z3.Implies(z3.And(fam.fn("atom", Bo)(i), e.f_has(vid)),
                                  z3.And(fam.fn("lo")(i) <= e.f_lo(vid), e.f_hi(vid) <= fam.fn("hi")(i))))


def refine_ih(c, fam):
    """lemma.refine as a fact about the compound children (proved per node by RefineLemma, induction on height):
    a more specific interpretation gives a narrower interval"""
    i = fam.base.ivar
    atom = fam.fn("atom", Bo)(i)
    c.add_pointwise(i, z3.Implies(z3.Not(atom), z3.And(fam.fn("ilo@d")(i) <= fam.fn("ilo@(d|e)")(i),
                                                       fam.fn("ihi@(d|e)")(i) <= fam.fn("ihi@d")(i))))


def own_bounds(c, name="self"):
    olo, ohi = z3.Int(f"{name}.lo"), z3.Int(f"{name}.hi")
    c.assume_global(z3.And(0 <= olo, olo <= ohi, ohi <= 1))
    return SInt(olo), SInt(ohi)


class AssumeH(Harness):
    xcheck = 2
    name = "AtLeast.assume"
    function = "AtLeast.assume"
    functions = ["AtLeast.assume", ("puan", "variable.assume"), ("puan", "variable.__init__"), ("puan", "Bounds.__init__"),
                 ("puan", "Bounds.constant")]

    def cases(self):
        return [{"sign": 1}, {"sign": -1}]

    def contracts(self, repo):
        return {"assume": assume_contract()}

    def setup(self, c, case):
        repo = c.repo
        base = new_base(c, "X")
        fam = new_family(c, "X", base)
        child_invariants(c, fam)
        setup_envs(c)
        own = own_bounds(c)
        node = mk_atleast(c, repo, repo.plog.AtLeast, "self", fam, case["sign"], False, own_bounds=own)
        leaves_only(c, c.e, node, fam)
        refine_ih(c, fam)
        c.add_pointwise(base.ivar, fam.fn("id")(base.ivar) != node.variable.id.t)   # wf: acyclic
        return {"self": node, "fam": fam, "own": own, "sid": node.variable.id.t}

    def run(self, c, st):
        return st["self"].assume(c.d)

    def ensures(self, c, st, res):
        return [(n, e(st["self"], res, c.d)) for n, e in ASSUME_ENSURES]


    def concretise(self, case, k, model, c, st):
        return concretise_assume(case, k, model, c, st)

    def replay(self, w):
        return replay_assume(w)


def _entry(model, env, key):
    """value stored in an abstract interpretation under an id term, as a JSON-able description (or None)"""
    if not _mv(model, env.f_has(key)):
        return None
    form = _mv(model, env.f_form(key))
    lo, hi = _mv(model, env.f_lo(key)), _mv(model, env.f_hi(key))
    return {"form": {0: "int", 1: "tuple", 2: "bounds"}.get(form, "tuple"), "lo": lo, "hi": hi}


def concretise_assume(case, k, model, c, st):
    fam = st["fam"]
    node = st["self"]
    kids = []
    for j in range(k):
        J = z3.IntVal(j)
        atom = _mv(model, fam.fn("atom", Bo)(J))
        vid = fam.fn("id")(J)
        d = {"kind": "atom" if atom else "compound", "id": ("x%d" if atom else "C%d") % j,
             "lo": _mv(model, fam.fn("lo")(J)), "hi": _mv(model, fam.fn("hi")(J)),
             "d": _entry(model, c.d, model.eval(vid, model_completion=True)),
             "e": _entry(model, c.e, model.eval(vid, model_completion=True))}
        if not atom:
            d["ival_d"] = [_mv(model, fam.fn("ilo@d")(J)), _mv(model, fam.fn("ihi@d")(J))]
            d["ival_de"] = [_mv(model, fam.fn("ilo@(d|e)")(J)), _mv(model, fam.fn("ihi@(d|e)")(J))]
        kids.append(d)
    sid = model.eval(st["sid"], model_completion=True)
    own = st["own"]
    return {"value": _mv(model, node.value.t), "sign": case["sign"],
            "own": [_mv(model, own[0].t), _mv(model, own[1].t)],
            "self_d": _entry(model, c.d, sid), "children": kids}


def _val(entry):
    import puan
    if entry["form"] == "int":
        return entry["lo"]
    if entry["form"] == "bounds":
        return puan.Bounds(entry["lo"], entry["hi"])
    return (entry["lo"], entry["hi"])


def build_assume(w):
    """real objects for an assume witness: (model, d, e)"""
    import puan
    import puan.logic.plog as pg
    d, e, kids = {}, {}, []
    for k in w["children"]:
        if k["kind"] == "atom":
            kids.append(puan.variable(k["id"], (k["lo"], k["hi"])))
        else:
            leaf = "l" + k["id"]
            kids.append(pg.AtLeast(1, [puan.variable(leaf, (0, 1))], variable=puan.variable(k["id"], (k["lo"], k["hi"]))))
            ivd, ivde = k.get("ival_d", [0, 1]), k.get("ival_de", [0, 1])
            d_const = k["d"] is not None and k["d"]["lo"] == k["d"]["hi"]
            if not d_const and ivd[0] == ivd[1]:
                d[leaf] = ivd[0]
            elif ivde[0] == ivde[1] and ivd[0] != ivd[1]:
                e[leaf] = ivde[0]
        if k["d"] is not None:
            d[k["id"]] = _val(k["d"])
        if k["e"] is not None:
            e[k["id"]] = _val(k["e"])
    if w.get("self_d") is not None:
        d["A"] = _val(w["self_d"])
    node = pg.AtLeast(w["value"], kids, variable=puan.variable("A", tuple(w["own"])), sign=w["sign"])
    return node, d, e


def replay_assume(w):
    node, d, e = build_assume(w)
    de = dict(d)
    de.update(e)
    _NATIVE["e"], _NATIVE["de"] = e, de
    violated, detail = [], {"model": node.to_text(), "assumption": d, "further_interpretation": e}
    res = node.assume(dict(d))
    fresh = build_assume(w)[0]
    for name, pred in ASSUME_ENSURES:
        ok = bool(pred(fresh, res, d))
        detail[name] = ok
        if not ok:
            violated.append(name)
    # the property as stated, through the real evaluate()
    lhs = build_assume(w)[0].assume(dict(d)).evaluate(dict(e))
    rhs = build_assume(w)[0].evaluate(dict(de))
    detail["assume(d).evaluate(e)"] = ints(lhs)
    detail["evaluate(d|e)"] = ints(rhs)
    if "post.c07" in violated and tuple(lhs.as_tuple()) == tuple(rhs.as_tuple()):
        violated.remove("post.c07")
        violated.append("MISMATCH:post.c07")
    return {"violated": violated, "detail": detail}


class VariableAssumeH(Harness):
    """the leaf case of the same contract: real puan.variable.assume"""
    name = "variable.assume"
    function = "variable.assume"
    module = "puan"

    def setup(self, c, case):
        setup_envs(c)
        lo, hi = z3.Int("v.lo"), z3.Int("v.hi")
        c.assume_global(lo <= hi)
        v = mk_variable(c.repo, SId(z3.Int("v.id")), SInt(lo), SInt(hi))
        return {"self": v}

    def run(self, c, st):
        return st["self"].assume(c.d)

    def ensures(self, c, st, res):
        return [(n, e(st["self"], res, c.d)) for n, e in ASSUME_ENSURES]

    def concretise(self, case, k, model, c, st):
        return _concretise_variable(model, c, st)

    def replay(self, w):
        """the leaf clauses natively: assume(d) has the interval d gives the leaf (its bounds when d is silent), keeps the id,
        and evaluating the result under a further e (disjoint from d) equals evaluating the leaf under d | e"""
        import puan
        lo, hi = w["lo"], max(w["lo"], w["hi"])
        mk = lambda: puan.variable("v", (lo, hi))
        d = {"v": _val(w["d"])} if w["d"] else {}
        e = {"v": _val(w["e"])} if (w["e"] and not w["d"]) else {}
        want = (w["d"]["lo"], w["d"]["hi"]) if w["d"] else (lo, hi)
        violated, detail = [], {"variable": ["v", lo, hi], "d": repr(d), "e": repr(e)}
        res = mk().assume(dict(d))
        got = tuple(res.bounds.as_tuple())
        if got != want:
            violated.append("post.bounds"); detail.update(got=ints(res.bounds), want=list(want))
        if not (got[0] <= got[1]):
            violated.append("post.inv")
        if res.id != "v":
            violated.append("post.id")
        one = mk().assume(dict(d)).evaluate(dict(e))
        two = mk().evaluate({**d, **e})
        if tuple(one.as_tuple()) != tuple(two.as_tuple()):
            violated.append("post.c07"); detail.update(assume_then_evaluate=ints(one), evaluate_union=ints(two))
        return {"violated": violated, "detail": detail}


class VariableEvaluateH(Harness):
    name = "variable.evaluate"
    function = "variable.evaluate"
    module = "puan"

    def setup(self, c, case):
        setup_envs(c)
        lo, hi = z3.Int("v.lo"), z3.Int("v.hi")
        c.assume_global(lo <= hi)
        v = mk_variable(c.repo, SId(z3.Int("v.id")), SInt(lo), SInt(hi))
        return {"self": v}

    def run(self, c, st):
        return st["self"].evaluate(c.d)

    def ensures(self, c, st, res):
        return [("post.bounds", bounds_eq(res, ival(st["self"], c.d)))]

    def concretise(self, case, k, model, c, st):
        return _concretise_variable(model, c, st)

    def replay(self, w):
        import puan
        lo, hi = w["lo"], max(w["lo"], w["hi"])
        d = {"v": _val(w["d"])} if w["d"] else {}
        want = (w["d"]["lo"], w["d"]["hi"]) if w["d"] else (lo, hi)
        res = puan.variable("v", (lo, hi)).evaluate(dict(d))
        bad = tuple(res.as_tuple()) != want
        return {"violated": ["post.bounds"] if bad else [], "detail": {"variable": ["v", lo, hi], "d": repr(d), "got": ints(res), "want": list(want)}}


def _concretise_variable(model, c, st):
    vid = model.eval(st["self"].id.t, model_completion=True)
    return {"lo": _mv(model, z3.Int("v.lo")), "hi": _mv(model, z3.Int("v.hi")), "d": _entry(model, c.d, vid), "e": _entry(model, c.e, vid)}


# ------------------------------------------------------------------------------------------------------------------
# spec-level lemmas (node with abstract children; nothing of the repository is executed)
# ------------------------------------------------------------------------------------------------------------------

class _LemmaBase(Harness):
    function = "AtLeast.assume"   # lemmas are about the spec functions used in assume's contract

    def cases(self):
        return [{"sign": 1}, {"sign": -1}]

    def mk(self, c, case):
        repo = c.repo
        base = new_base(c, "X")
        fam = new_family(c, "X", base)
        child_invariants(c, fam)
        setup_envs(c)
        node = mk_atleast(c, repo, repo.plog.AtLeast, "self", fam, case["sign"], False, own_bounds=own_bounds(c))
        return node, fam

    def run(self, c, st):
        return None


class IvalWfLemma(_LemmaBase):
    """ival(node, d).lo <= ival(node, d).hi given the same for the children (the axiom used in specs.node_ival_symbols)"""
    name = "lemma.ival_wf"

    def setup(self, c, case):
        node, fam = self.mk(c, case)
        return {"self": node}

    def ensures(self, c, st, res):
        lo, hi = ival(st["self"], c.d)
        return [("lemma.ival_wf", lo <= hi)]


class RefineLemma(_LemmaBase):
    """ival(node, d|e) is contained in ival(node, d) when e adds in-bounds values for leaves only"""
    name = "lemma.refine"

    def setup(self, c, case):
        node, fam = self.mk(c, case)
        leaves_only(c, c.e, node, fam)
        refine_ih(c, fam)
        return {"self": node}

    def ensures(self, c, st, res):
        lo, hi = ival(st["self"], c.d)
        lo2, hi2 = ival(st["self"], c.de)
        return [("lemma.refine", band(lo <= lo2, hi2 <= hi))]


class TotalConstLemma(_LemmaBase):
    """C03: if d gives every leaf a constant, ival == (truth3, truth3)"""
    name = "lemma.total_const"

    def setup(self, c, case):
        node, fam = self.mk(c, case)
        i = fam.base.ivar
        d = c.d
        vid = fam.fn("id")(i)
        atom = fam.fn("atom", Bo)(i)
        t3 = fam.fn("t3@d")(i)
        ilo, ihi = fam.fn("ilo@d")(i), fam.fn("ihi@d")(i)
        # hypothesis on leaves: fixed to a constant; the truth value of a leaf is that constant
        c.add_pointwise(i, z3.Implies(atom, z3.And(d.f_has(vid), d.f_lo(vid) == d.f_hi(vid), t3 == d.f_lo(vid))))
        # induction hypothesis on compound children
        c.add_pointwise(i, z3.Implies(z3.Not(atom), z3.And(ilo == t3, ihi == t3)))
        return {"self": node}

    def ensures(self, c, st, res):
        lo, hi = ival(st["self"], c.d)
        t = truth3(st["self"], c.d)
        return [("lemma.total_const", band(lo == t, hi == t))]


class SoundLemma(_LemmaBase):
    """C06: for every completion c of d on the leaves (total, inside d's intervals where d has an entry and inside the
    leaf's bounds otherwise), ival(node, d) contains truth3(node, c, d) (compound ids keep d's entries)"""
    name = "lemma.sound"

    def setup(self, c, case):
        node, fam = self.mk(c, case)
        i = fam.base.ivar
        d = c.d
        comp = AbsEnv("c", ("int",))   # the completion
        c.comp = comp
        vid = fam.fn("id")(i)
        atom = fam.fn("atom", Bo)(i)
        lo, hi = fam.fn("lo")(i), fam.fn("hi")(i)
        t3 = fam.fn("t3@c/d")(i)
        ilo, ihi = fam.fn("ilo@d")(i), fam.fn("ihi@d")(i)
        c.add_pointwise(i, z3.Implies(atom, z3.And(
            comp.f_has(vid), comp.f_lo(vid) == comp.f_hi(vid), t3 == comp.f_lo(vid),
            z3.If(d.f_has(vid), z3.And(d.f_lo(vid) <= t3, t3 <= d.f_hi(vid)), z3.And(lo <= t3, t3 <= hi)))))
        c.add_pointwise(i, z3.Implies(z3.Not(atom), z3.And(ilo <= t3, t3 <= ihi)))
        return {"self": node}

    def ensures(self, c, st, res):
        lo, hi = ival(st["self"], c.d)
        t = truth3(st["self"], c.comp, c.d)
        return [("lemma.sound", band(lo <= t, t <= hi))]


HARNESSES = [AssumeH(), VariableAssumeH(), VariableEvaluateH(), IvalWfLemma(), RefineLemma(), TotalConstLemma(), SoundLemma()]
