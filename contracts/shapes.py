"""End-to-end obligations on concrete tree SHAPES with symbolic thresholds, leaf bounds and interpretations: the real
recursive code (assume / evaluate / negate / reduce / to_json / from_json, with the real flatten) runs through the whole
tree -- no callee contract, no induction hypothesis, no abstract child list.  Bounded in shape, unbounded in values.

These are the same top-level postconditions as the any-width harnesses (contracts/assume.py, c05.py, reduce.py, c16.py)
state per node under callee contracts; here they are checked on the composition, so a contract that is too weak to carry
the property through a nested call (or an induction hypothesis that is instantiated wrongly) would show.

  shape.evaluate      (C03) total in-bounds interpretation e:  evaluate(e) is the constant truth(model, e); the entry of the
                      top id in evaluate_propositions(e) is the same
  shape.fixed-node    (C03) total interpretation that also fixes one compound node (own id or inner) to a constant, in every
                      value form: evaluate / the top entry / the node's own entry follow the override clause
  shape.partial       (C06) leaves optionally given: evaluate(partial) contains truth(model, completion) for every in-bounds
                      completion of the leaves not given
  shape.assume        (C07) assume(a).evaluate(r) == evaluate(a | r) for a split of the leaves into a (given first) and r
  shape.negate        (C05) truth(negate(model), e) == 1 - truth(model, e); the id is kept
  shape.reduce        (C08) reduce().evaluate(e) == evaluate(e) (total e); reduce() has non-constant bounds unless it is a variable
  shape.json          (C16) from_json(to_json(model)) evaluates like the model and keeps the explicit ids
"""
import itertools
import z3
from pyvc.sym import SInt, ctx, Unsupported
from pyvc.nodes import band, bor, bnot, implies, ite
from pyvc.engine import Harness
from .common import _mv, ints
from .specs import truth
from .c01glue import SHAPES, build

SMALL = ["flat", "nested", "shared-leaf"]


def sign_cases(shapes, extra=None):
    out = []
    for shape in shapes:
        comps = sorted(SHAPES[shape])
        for sg in itertools.product((1, -1), repeat=len(comps)):
            d = {"shape": shape, "signs": dict(zip(comps, sg))}
            if extra:
                d.update(extra)
            out.append(d)
    return out


def _tier():
    import os
    return os.environ.get("PYVC_TIER", "quick")


class _Shape(Harness):
    module = "puan.logic.plog"
    quick_shapes = SMALL
    thorough_shapes = SMALL + ["depth3"]

    def cases(self):
        return sign_cases(self.quick_shapes if _tier() == "quick" else self.thorough_shapes)

    def setup(self, c, case):
        top, objs, leaves, lo, hi, vals = build(c, c.repo, case["shape"], case["signs"], prefix=case.get("prefix", ""))
        env = {l: SInt(z3.Int(f"x.{l}")) for l in leaves}
        for l in leaves:
            c.assume_global(z3.And(lo[l].t <= env[l].t, env[l].t <= hi[l].t))
        return {"top": top, "objs": objs, "leaves": leaves, "lo": lo, "hi": hi, "vals": vals, "env": env}

    # ---- replay: the same shape with the model's numbers ------------------------------------------------------------
    def concretise(self, case, k, model, c, st):
        g = lambda v: _mv(model, v.t)
        return {"case": {"shape": case["shape"], "signs": case["signs"], **{k_: v for k_, v in case.items() if k_ not in ("shape", "signs")}},
                "lo": {l: g(v) for l, v in st["lo"].items()}, "hi": {l: g(v) for l, v in st["hi"].items()},
                "values": {n: g(v) for n, v in st["vals"].items()}, "x": {l: g(v) for l, v in st["env"].items()}}

    @staticmethod
    def native(w):
        import puan
        import puan.logic.plog as pg
        tree = SHAPES[w["case"]["shape"]]
        objs = {}

        def mk(name):
            if name not in objs:
                if name not in tree:
                    objs[name] = puan.variable(name, (w["lo"][name], w["hi"][name]))
                else:
                    objs[name] = pg.AtLeast(w["values"][name], [mk(k) for k in tree[name]], variable=w["case"].get("prefix", "") + name,
                                            sign=w["case"]["signs"][name])
            return objs[name]
        return mk("T"), tree

    @staticmethod
    def tv(w, tree, n, env):
        if n not in tree:
            return env[n]
        return int(w["case"]["signs"][n] * sum(_Shape.tv(w, tree, k, env) for k in tree[n]) >= w["values"][n])

    @staticmethod
    def points(w, tree, limit=400):
        leaves = sorted({x for kids in tree.values() for x in kids if x not in tree})
        box = [sorted({w["lo"][l], w["hi"][l], min(max(w["x"].get(l, w["lo"][l]), w["lo"][l]), w["hi"][l]),
                       min(w["lo"][l] + 1, w["hi"][l]), max(w["hi"][l] - 1, w["lo"][l])}) for l in leaves]
        pts = [dict(zip(leaves, p)) for p in itertools.islice(itertools.product(*box), limit)]
        first = {l: min(max(w["x"].get(l, w["lo"][l]), w["lo"][l]), w["hi"][l]) for l in leaves}
        return [first] + pts


class ShapeEvaluateH(_Shape):
    name = "shape.evaluate"
    function = "AtLeast.evaluate"
    functions = ["AtLeast.evaluate", "AtLeast.evaluate_propositions", "AtLeast.assume", "AtLeast.flatten", ("puan", "variable.assume")]

    def run(self, c, st):
        e = dict(st["env"])
        return {"ev": st["top"].evaluate(dict(e)), "evp": st["top"].evaluate_propositions(dict(e))}

    def ensures(self, c, st, res):
        t = truth(st["top"], st["env"])
        ev, evp = res["ev"], res["evp"]
        top = evp["T"]
        out = [("shape.evaluate", band(ev.lower == t, ev.upper == t)),
               ("shape.evaluate_propositions.top", band(top.lower == t, top.upper == t))]
        # every node of the model has an entry, and it is the node's own truth value (leaves: the assigned value)
        every = True
        for k, o in st["objs"].items():
            if k not in evp:
                every = False
                break
            tk = truth(o, st["env"])
            every = band(every, evp[k].lower == tk, evp[k].upper == tk)
        out.append(("shape.evaluate_propositions.every-node", every))
        return out

    def replay(self, w):
        top, tree = self.native(w)
        violated, detail = [], {"model": top.to_text()}
        for env in self.points(w, tree):
            t = self.tv(w, tree, "T", env)
            m, _ = self.native(w)
            ev = m.evaluate(dict(env))
            m2, _ = self.native(w)
            evp = m2.evaluate_propositions(dict(env))["T"]
            if tuple(ev.as_tuple()) != (t, t) and "shape.evaluate" not in violated:
                violated.append("shape.evaluate"); detail["interpretation"] = env; detail["evaluate"] = ints(ev)
            if tuple(evp.as_tuple()) != (t, t) and "shape.evaluate_propositions.top" not in violated:
                violated.append("shape.evaluate_propositions.top"); detail["interpretation"] = env
            m3, _ = self.native(w)
            allp = m3.evaluate_propositions(dict(env))
            for k in list(tree) + list(env):
                tk = self.tv(w, tree, k, env)
                if (k not in allp or tuple(allp[k].as_tuple()) != (tk, tk)) and "shape.evaluate_propositions.every-node" not in violated:
                    violated.append("shape.evaluate_propositions.every-node"); detail["interpretation"] = env; detail["node"] = k
        return {"violated": violated, "detail": detail}


class ShapeFixedNodeH(_Shape):
    """C03's override clause end to end: the interpretation fixes every leaf AND gives one compound node -- the model's own
    id or an inner sub-proposition -- the constant k (symbolic, 0 or 1) as an int, as the tuple (k,k) or as puan.Bounds(k,k):
    that node takes k, its parents see k, evaluate() is the top entry of evaluate_propositions()."""
    name = "shape.fixed-node"
    function = "AtLeast.evaluate"
    functions = ["AtLeast.evaluate", "AtLeast.evaluate_propositions", "AtLeast.assume", "AtLeast.flatten", ("puan", "variable.assume")]

    def cases(self):
        out = []
        for base in sign_cases(["flat", "nested"] if _tier() == "quick" else ["flat", "nested", "shared-leaf"]):
            for node in sorted(SHAPES[base["shape"]]):
                for form in ("int", "tuple", "bounds"):
                    out.append({**base, "node": node, "form": form})
        return out

    @staticmethod
    def _ov(case, st, n, k):
        tree = SHAPES[case["shape"]]
        if n not in tree:
            return st["env"][n]
        if n == case["node"]:
            return k
        s = 0
        for ch in tree[n]:
            s = s + ShapeFixedNodeH._ov(case, st, ch, k)
        return ite(case["signs"][n] * s >= st["vals"][n], 1, 0)

    def run(self, c, st):
        case = c.state_case
        k = SInt(z3.Int("k.fixed"))
        c.assume_global(z3.And(k.t >= 0, k.t <= 1))
        v = k if case["form"] == "int" else (k, k) if case["form"] == "tuple" else c.repo.puan.Bounds(k, k)
        e = {**st["env"], case["node"]: v}
        return {"k": k, "ev": st["top"].evaluate(dict(e)), "evp": st["top"].evaluate_propositions(dict(e))}

    def ensures(self, c, st, res):
        case = c.state_case
        t = self._ov(case, st, "T", res["k"])
        ev, evp = res["ev"], res["evp"]
        out = [("shape.fixed-node.evaluate", band(ev.lower == t, ev.upper == t))]
        if "T" in evp and case["node"] in evp:
            top, own = evp["T"], evp[case["node"]]
            out.append(("shape.fixed-node.top-entry", band(top.lower == t, top.upper == t)))
            out.append(("shape.fixed-node.own-entry", band(own.lower == res["k"], own.upper == res["k"])))
        else:
            out.append(("shape.fixed-node.top-entry", False))
        return out

    def concretise(self, case, k, model, c, st):
        w = super().concretise(case, k, model, c, st)
        w["k"] = _mv(model, z3.Int("k.fixed"))
        return w

    def replay(self, w):
        import puan
        top, tree = self.native(w)
        case = w["case"]
        violated, detail = [], {"model": top.to_text()}

        def ov(n, env, k):
            if n not in tree:
                return env[n]
            if n == case["node"]:
                return k
            return int(case["signs"][n] * sum(ov(x, env, k) for x in tree[n]) >= w["values"][n])
        for k in sorted({min(max(int(w.get("k", 0)), 0), 1), 0, 1}):
            v = k if case["form"] == "int" else (k, k) if case["form"] == "tuple" else puan.Bounds(k, k)
            for env in self.points(w, tree, limit=120):
                t = ov("T", env, k)
                m, _ = self.native(w)
                ev = m.evaluate({**env, case["node"]: v})
                m2, _ = self.native(w)
                evp = m2.evaluate_propositions({**env, case["node"]: v})
                as_t = lambda b: tuple(b.as_tuple()) if hasattr(b, "as_tuple") else b
                if as_t(ev) != (t, t) and "shape.fixed-node.evaluate" not in violated:
                    violated.append("shape.fixed-node.evaluate"); detail.update(interpretation=env, fixed={case["node"]: repr(v)}, got=ints(ev), want=t)
                if as_t(evp.get("T")) != (t, t) and "shape.fixed-node.top-entry" not in violated:
                    violated.append("shape.fixed-node.top-entry"); detail.update(interpretation=env, fixed={case["node"]: repr(v)}, top=repr(evp.get("T")), want=t)
                if as_t(evp.get(case["node"])) != (k, k) and "shape.fixed-node.own-entry" not in violated:
                    violated.append("shape.fixed-node.own-entry"); detail.update(interpretation=env, fixed={case["node"]: repr(v)}, own=repr(evp.get(case["node"])))
        return {"violated": violated, "detail": detail}


class ShapeOwnRangeH(_Shape):
    """an interpretation that also names the model's OWN id with the non-fixing range (0,1) -- as a tuple or as puan.Bounds --
    next to a total assignment of the leaves: the range says nothing, so evaluate() still returns the truth value, and
    assume(range).evaluate(leaves) agrees"""
    name = "shape.own-range"
    function = "AtLeast.evaluate"
    quick_shapes = ["flat", "nested"]
    thorough_shapes = ["flat", "nested", "shared-leaf"]

    def cases(self):
        out = []
        for base in sign_cases(self.quick_shapes if _tier() == "quick" else self.thorough_shapes):
            for form in ("tuple", "bounds"):
                out.append({**base, "form": form})
        return out

    def run(self, c, st):
        rng = (0, 1) if c.state_case["form"] == "tuple" else c.repo.puan.Bounds(0, 1)
        top = st["top"]
        two = top.assume({"T": rng}).evaluate(dict(st["env"]))
        one = top.evaluate({**st["env"], "T": rng})
        return {"one": one, "two": two}

    def ensures(self, c, st, res):
        t = truth(st["top"], st["env"])
        return [("shape.own-range.evaluate", band(res["one"].lower == t, res["one"].upper == t)),
                ("shape.own-range.assume-then-evaluate", band(res["two"].lower == t, res["two"].upper == t))]

    def replay(self, w):
        import puan
        top, tree = self.native(w)
        violated, detail = [], {"model": top.to_text()}
        rng = (0, 1) if w["case"]["form"] == "tuple" else puan.Bounds(0, 1)
        for env in self.points(w, tree):
            t = self.tv(w, tree, "T", env)
            m, _ = self.native(w)
            one = m.evaluate({**env, "T": rng})
            m2, _ = self.native(w)
            two = m2.assume({"T": rng}).evaluate(dict(env))
            if tuple(one.as_tuple()) != (t, t) and "shape.own-range.evaluate" not in violated:
                violated.append("shape.own-range.evaluate"); detail.update(interpretation=env, got=ints(one), want=t)
            if tuple(two.as_tuple()) != (t, t) and "shape.own-range.assume-then-evaluate" not in violated:
                violated.append("shape.own-range.assume-then-evaluate"); detail.update(interpretation=env, got2=ints(two), want=t)
        return {"violated": violated, "detail": detail}


class ShapePartialH(_Shape):
    name = "shape.partial"
    function = "AtLeast.evaluate"

    def cases(self):
        out = []
        for base in sign_cases(["flat", "nested"]):
            leaves = sorted({x for kids in SHAPES[base["shape"]].values() for x in kids if x not in SHAPES[base["shape"]]})
            for k in range(len(leaves) + 1):
                out.append({**base, "given": leaves[:k]})
        return out

    def run(self, c, st):
        e = {l: st["env"][l] for l in c.state_case["given"]}
        return st["top"].evaluate(e)

    def ensures(self, c, st, res):
        t = truth(st["top"], st["env"])
        return [("shape.partial.contains", band(res.lower <= t, t <= res.upper))]

    def replay(self, w):
        top, tree = self.native(w)
        violated, detail = [], {"model": top.to_text()}
        for env in self.points(w, tree):
            m, _ = self.native(w)
            got = m.evaluate({l: env[l] for l in w["case"]["given"]})
            t = self.tv(w, tree, "T", env)
            if not (got.lower <= t <= got.upper):
                violated.append("shape.partial.contains"); detail["interpretation"] = env; detail["evaluate(partial)"] = ints(got)
                break
        return {"violated": violated, "detail": detail}


class ShapeAssumeH(_Shape):
    name = "shape.assume"
    function = "AtLeast.assume"

    def cases(self):
        out = []
        for base in sign_cases(["flat", "nested", "shared-leaf"]):
            leaves = sorted({x for kids in SHAPES[base["shape"]].values() for x in kids if x not in SHAPES[base["shape"]]})
            for k in range(1, len(leaves)):
                out.append({**base, "given": leaves[:k]})
        return out

    def run(self, c, st):
        given = c.state_case["given"]
        a = {l: st["env"][l] for l in given}
        r = {l: v for l, v in st["env"].items() if l not in given}
        return st["top"].assume(dict(a)).evaluate(dict(r))

    def ensures(self, c, st, res):
        t = truth(st["top"], st["env"])
        return [("shape.assume.compose", band(res.lower == t, res.upper == t))]

    def replay(self, w):
        top, tree = self.native(w)
        violated, detail = [], {"model": top.to_text()}
        for env in self.points(w, tree):
            m, _ = self.native(w)
            a = {l: env[l] for l in w["case"]["given"]}
            r = {l: v for l, v in env.items() if l not in a}
            got = m.assume(dict(a)).evaluate(dict(r))
            t = self.tv(w, tree, "T", env)
            if tuple(got.as_tuple()) != (t, t):
                violated.append("shape.assume.compose"); detail.update(assumption=a, rest=r, got=ints(got), want=t)
                break
        return {"violated": violated, "detail": detail}


class ShapeNegateH(_Shape):
    name = "shape.negate"
    function = "AtLeast.negate"

    def cases(self):
        # explicit ids, also ones that look like generated ids ("VAR..."); negated once and twice
        return sign_cases(["flat", "nested", "shared-leaf", "depth3"]) + sign_cases(["flat", "nested"], {"prefix": "VAR"})

    def run(self, c, st):
        neg = st["top"].negate()
        try:
            # the second negation meets the ids the first one generated for pushed-in sub-propositions; ordering those
            # against concrete ids is outside the id model (ids are opaque), so it is attempted, not required
            negneg = st["top"].negate().negate()
        except Unsupported:
            negneg = None
        return {"neg": neg, "negneg": negneg}

    def ensures(self, c, st, res):
        t = truth(st["top"], st["env"])
        tid = c.state_case.get("prefix", "") + "T"
        out = [("shape.negate.complement", truth(res["neg"], st["env"]) == 1 - t), ("shape.negate.id", res["neg"].id == tid)]
        if res["negneg"] is not None:
            out += [("shape.negate.twice", truth(res["negneg"], st["env"]) == t), ("shape.negate.twice.id", res["negneg"].id == tid)]
        return out

    def replay(self, w):
        top, tree = self.native(w)
        violated, detail = [], {"model": top.to_text()}
        neg = top.negate()
        detail["negated"] = neg.to_text()
        tid = w["case"].get("prefix", "") + "T"
        if neg.id != tid:
            violated.append("shape.negate.id")
        if top.negate().negate().id != tid:
            violated.append("shape.negate.twice.id")
        for env in self.points(w, tree):
            m, _ = self.native(w)
            got = m.negate().evaluate(dict(env))
            t = self.tv(w, tree, "T", env)
            if tuple(got.as_tuple()) != (1 - t, 1 - t):
                violated.append("shape.negate.complement"); detail.update(interpretation=env, got=ints(got), original=t)
                break
            m2, _ = self.native(w)
            got2 = m2.negate().negate().evaluate(dict(env))
            if tuple(got2.as_tuple()) != (t, t):
                violated.append("shape.negate.twice"); detail.update(interpretation=env, twice=ints(got2), original=t)
                break
        return {"violated": violated, "detail": detail}


class ShapeReduceH(_Shape):
    name = "shape.reduce"
    function = "AtLeast.reduce"
    quick_shapes = ["flat", "nested"]
    thorough_shapes = SMALL

    def run(self, c, st):
        return st["top"].reduce()

    def ensures(self, c, st, res):
        t = truth(st["top"], st["env"])
        ev = res.evaluate(dict(st["env"]))
        return [("shape.reduce.meaning", band(ev.lower == t, ev.upper == t))]

    def replay(self, w):
        top, tree = self.native(w)
        violated, detail = [], {"model": top.to_text()}
        for env in self.points(w, tree):
            m, _ = self.native(w)
            red = m.reduce()
            got = red.evaluate(dict(env))
            t = self.tv(w, tree, "T", env)
            if tuple(got.as_tuple()) != (t, t):
                violated.append("shape.reduce.meaning"); detail.update(interpretation=env, reduced=red.to_text() if hasattr(red, "to_text") else repr(red),
                                                                    got=ints(got), want=t)
                break
        return {"violated": violated, "detail": detail}


class ShapeJsonH(_Shape):
    name = "shape.json"
    function = "AtLeast.to_json"
    functions = ["AtLeast.to_json", "AtLeast.from_json", "from_json"]

    quick_shapes = ["flat", "nested"]
    thorough_shapes = SMALL

    def run(self, c, st):
        js = st["top"].to_json()
        st["js"] = js
        return c.repo.plog.from_json(js)

    def ensures(self, c, st, res):
        t = truth(st["top"], st["env"])
        return [("shape.json.meaning", truth(res, st["env"]) == t), ("shape.json.id", res.id == "T")]

    def replay(self, w):
        import json
        import puan.logic.plog as pg
        top, tree = self.native(w)
        violated, detail = [], {"model": top.to_text()}
        js = json.loads(json.dumps(top.to_json()))
        back = pg.from_json(js)
        detail["json"] = js
        if back.id != "T":
            violated.append("shape.json.id")
        for env in self.points(w, tree):
            got = pg.from_json(json.loads(json.dumps(js))).evaluate(dict(env))
            t = self.tv(w, tree, "T", env)
            if tuple(got.as_tuple()) != (t, t):
                violated.append("shape.json.meaning"); detail.update(interpretation=env, got=ints(got), want=t)
                break
        return {"violated": violated, "detail": detail}


class ShapeJsonImplyH(_Shape):
    """the JSON round trip of an Imply / Not built by the real constructors around sub-propositions with symbolic thresholds
    and explicit ids -- also ids that look generated ("VAR...") -- : the negation inside Imply / Not and its undoing in
    to_json must neither change the meaning nor lose an explicit id"""
    name = "shape.json.imply"
    function = "Imply.to_json"
    functions = ["Imply.to_json", "Imply.from_json", "Imply.__init__", "Not.__new__", "AtLeast.negate", "from_json"]

    def cases(self):
        out = []
        for kind in ("imply", "not"):
            for prefix in ("", "VAR"):
                for sg in ((1, 1), (-1, 1)):
                    out.append({"kind": kind, "prefix": prefix, "signs": {"C": sg[0], "D": sg[1]}})
        # the condition is an ANONYMOUS node over ONE leaf (what Imply('x', ...) wraps a plain variable into -- but with any
        # threshold and either sign): a writer that "unwraps" it must not lose the threshold or the sign
        # (its threshold is enumerated, not symbolic: a generated id over a symbolic threshold cannot be ordered against the
        # explicit ids, which the constructor does when it sorts the children)
        for sg in (1, -1):
            for vc in (-1, 0, 1, 2):
                out.append({"kind": "imply-anon1", "prefix": "", "signs": {"C": sg, "D": 1}, "vC": vc})
        return out

    def setup(self, c, case):
        from .common import mk_variable
        repo = c.repo
        pre = case["prefix"]
        leaves = ["a", "b", "d"]
        lo = {l: SInt(z3.Int(f"lo.{l}")) for l in leaves}
        hi = {l: SInt(z3.Int(f"hi.{l}")) for l in leaves}
        for l in leaves:
            c.assume_global(z3.And(lo[l].t <= hi[l].t, lo[l].t >= -32768, hi[l].t <= 32767))
        lv = {l: mk_variable(repo, l, lo[l], hi[l]) for l in leaves}
        vals = {}

        def node(name, kids, sign):
            n = object.__new__(repo.plog.AtLeast)
            vals[name] = SInt(z3.Int(f"value.{name}"))
            n.__dict__.update(generated_id=False, sign=sign, value=vals[name], propositions=sorted(kids, key=lambda x: x.id),
                              variable=mk_variable(repo, pre + name, 0, 1))
            return n
        if case["kind"] == "imply-anon1":
            C = repo.plog.AtLeast(case["vC"], [lv["a"]], sign=case["signs"]["C"])          # real constructor, generated id
        else:
            C = node("C", [lv["a"], lv["b"]], case["signs"]["C"])
        D = node("D", [lv["b"], lv["d"]], case["signs"]["D"])
        if case["kind"] == "imply-anon1":
            top = repo.plog.Imply(C, D, variable=pre + "T")
            ids = [pre + "T", pre + "D"]
        elif case["kind"] == "imply":
            top = repo.plog.Imply(C, D, variable=pre + "T")
            ids = [pre + "T", pre + "C", pre + "D"]
        else:
            top = repo.plog.All(repo.plog.Not(C), D, variable=pre + "T")
            ids = [pre + "T", pre + "C", pre + "D"]
        env = {l: SInt(z3.Int(f"x.{l}")) for l in leaves}
        for l in leaves:
            c.assume_global(z3.And(lo[l].t <= env[l].t, env[l].t <= hi[l].t))
        return {"top": top, "env": env, "ids": ids, "lo": lo, "hi": hi, "vals": vals, "leaves": leaves, "objs": {}}

    def run(self, c, st):
        js = st["top"].to_json()
        try:
            back = c.repo.plog.from_json(js)
        except Unsupported:
            # e.g. a record written WITHOUT an explicit id: the reader then generates one from symbolic thresholds, and
            # ordering a generated id against concrete ids is outside the id model; the writer's obligations still stand
            back = None
        return {"js": js, "back": back}

    @staticmethod
    def _ids(js):
        out = []
        if isinstance(js, dict):
            if "id" in js:
                out.append(js["id"])
            for v in js.values():
                out += ShapeJsonImplyH._ids(v)
        elif isinstance(js, list):
            for v in js:
                out += ShapeJsonImplyH._ids(v)
        return out

    def ensures(self, c, st, res):
        t = truth(st["top"], st["env"])
        written = self._ids(res["js"])
        out = [("shape.json.imply.ids-written", all(i in written for i in st["ids"]))]
        if res["back"] is not None:
            back_ids = [x.id for x in res["back"].flatten()]
            out += [("shape.json.imply.meaning", truth(res["back"], st["env"]) == t),
                    ("shape.json.imply.ids-kept", all(i in back_ids for i in st["ids"]))]
        return out

    def concretise(self, case, k, model, c, st):
        g = lambda v: _mv(model, v.t)
        return {"case": dict(case), "lo": {l: g(v) for l, v in st["lo"].items()}, "hi": {l: g(v) for l, v in st["hi"].items()},
                "values": {n: g(v) for n, v in st["vals"].items()}, "x": {l: g(v) for l, v in st["env"].items()}}

    def replay(self, w):
        import json
        import puan
        import puan.logic.plog as pg
        case = w["case"]
        pre = case["prefix"]

        def build():
            lv = {l: puan.variable(l, (w["lo"][l], w["hi"][l])) for l in ("a", "b", "d")}
            if case["kind"] == "imply-anon1":
                C = pg.AtLeast(case["vC"], [lv["a"]], sign=case["signs"]["C"])
            else:
                C = pg.AtLeast(w["values"]["C"], [lv["a"], lv["b"]], variable=pre + "C", sign=case["signs"]["C"])
            D = pg.AtLeast(w["values"]["D"], [lv["b"], lv["d"]], variable=pre + "D", sign=case["signs"]["D"])
            return pg.Imply(C, D, variable=pre + "T") if case["kind"].startswith("imply") else pg.All(pg.Not(C), D, variable=pre + "T")
        top = build()
        js = json.loads(json.dumps(top.to_json()))
        back = pg.from_json(js)
        ids = [pre + "T", pre + "D"] if case["kind"] == "imply-anon1" else [pre + "T", pre + "C", pre + "D"]
        violated, detail = [], {"model": top.to_text(), "json": js}
        if not all(i in self._ids(js) for i in ids):
            violated.append("shape.json.imply.ids-written")
        if not all(i in [x.id for x in back.flatten()] for i in ids):
            violated.append("shape.json.imply.ids-kept")
        import itertools as it
        box = [sorted({w["lo"][l], w["hi"][l], min(max(w["x"][l], w["lo"][l]), w["hi"][l])}) for l in ("a", "b", "d")]
        for pt in it.product(*box):
            env = dict(zip(("a", "b", "d"), pt))
            if tuple(build().evaluate(dict(env)).as_tuple()) != tuple(pg.from_json(json.loads(json.dumps(js))).evaluate(dict(env)).as_tuple()):
                violated.append("shape.json.imply.meaning"); detail["interpretation"] = env
                break
        return {"violated": violated, "detail": detail}


HARNESSES = [ShapeJsonImplyH(), ShapeOwnRangeH(), ShapeEvaluateH(), ShapeFixedNodeH(), ShapePartialH(), ShapeAssumeH(), ShapeNegateH(), ShapeReduceH(), ShapeJsonH()]
