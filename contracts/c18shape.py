"""C18 end to end on concrete configurators with symbolic thresholds and leaf bounds: the real `StingyConfigurator.add`
against the real direct construction, compared through everything the property names -- structure, default priorities and
the polyhedron (real `to_ge_polyhedron` glue over the executable A-rs1, real `ge_polyhedron_config` construction with the
default priority vector) -- plus the frame condition on the receiver.  Bounded in shape (two rules + one added rule;
the added rule plain or sharing a nested sub-proposition with an existing rule), unbounded in values.
"""
import itertools
import z3
from pyvc.sym import SInt
from pyvc.nodes import band
from pyvc.engine import Harness
from .common import mk_variable, _mv


def _leaf(c, repo, vid):
    lo, hi = SInt(z3.Int(f"lo.{vid}")), SInt(z3.Int(f"hi.{vid}"))
    c.assume_global(z3.And(lo.t <= hi.t, lo.t >= -32768, hi.t <= 32767))
    return mk_variable(repo, vid, lo, hi)


def _rule(c, repo, vid, kids, sign):
    n = object.__new__(repo.plog.AtLeast)
    n.__dict__.update(generated_id=False, sign=sign, value=SInt(z3.Int(f"value.{vid}")),
                      propositions=sorted(kids, key=lambda x: x.id), variable=mk_variable(repo, vid, 0, 1))
    return n


class AddShapeH(Harness):
    name = "StingyConfigurator.add(shapes)"
    function = "StingyConfigurator.add"
    module = "puan.modules.configurator"
    functions = ["StingyConfigurator.add", "StingyConfigurator.__init__", "StingyConfigurator.ge_polyhedron",
                 "StingyConfigurator.default_prios", ("puan.logic.plog", "AtLeast.to_ge_polyhedron")]
    numpy_mode = "sym"
    rs_model = True

    def cases(self):
        out = []
        for shape in ("plain", "nested-shared"):
            for sg in itertools.product((1, -1), repeat=3):
                out.append({"shape": shape, "signs": list(sg)})
        # the same after the receiver has answered queries that memoise (ge_polyhedron, leafs): nothing the receiver
        # remembered about ITSELF may leak into the extended configurator
        for shape in ("plain", "nested-shared"):
            for sg in ((1, 1, 1), (1, -1, 1), (-1, 1, -1)):
                out.append({"shape": shape, "signs": list(sg), "warm": True})
        # a bare ITEM with symbolic (also non-boolean) bounds directly under the configurator, next to the rules
        for sg in ((1, 1, 1), (-1, 1, 1), (1, 1, -1)):
            out.append({"shape": "top-item", "signs": list(sg)})
        return out

    def setup(self, c, case):
        repo = c.repo
        cc = repo.load("puan.modules.configurator")
        s1, s2, s3 = case["signs"]
        a, b, cc_, d = (_leaf(c, repo, v) for v in "abcd")

        def build():
            if case["shape"] == "plain":
                r1 = _rule(c, repo, "R1", [a, b], s1)
                r2 = _rule(c, repo, "R2", [b, cc_], s2)
                new = _rule(c, repo, "N", [cc_, d], s3)
            elif case["shape"] == "top-item":
                r1 = _leaf(c, repo, "n")                       # the item itself is a top-level proposition
                r2 = _rule(c, repo, "R2", [a, b], s2)
                new = _rule(c, repo, "N", [b, cc_], s3)
            else:
                # the added rule S also sits inside R2 (identical definition: the very same object)
                new = _rule(c, repo, "S", [cc_, d], s3)
                r1 = _rule(c, repo, "R1", [a, b], s1)
                r2 = _rule(c, repo, "R2", [b, new], s2)
            return r1, r2, new
        r1, r2, new = build()
        cfg = cc.StingyConfigurator(r1, r2, id="cfg")
        return {"cfg": cfg, "rules": (r1, r2, new), "cc": cc}

    def run(self, c, st):
        c.nd_epoch = 1
        cfg, (r1, r2, new), cc = st["cfg"], st["rules"], st["cc"]
        if c.state_case.get("warm"):
            cfg.leafs()
            cfg.ge_polyhedron
            cfg.default_prios
        before = (list(cfg.propositions), cfg.value, cfg.sign, cfg.id)
        got = cfg.add(new)
        after = (list(cfg.propositions), cfg.value, cfg.sign, cfg.id)
        want = cc.StingyConfigurator(r1, r2, new, id="cfg")
        return {"got": got, "want": want, "before": before, "after": after}

    @staticmethod
    def _same_poly(p, q):
        ok = tuple(p.shape) == tuple(q.shape) and [str(v.id) for v in p.variables] == [str(v.id) for v in q.variables]
        if not ok:
            return False
        out = True
        for i in range(p.shape[0]):
            for j in range(p.shape[1]):
                out = band(out, p[i][j] == q[i][j])
        for x, y in zip(p.default_prio_vector, q.default_prio_vector):
            out = band(out, x == y)
        for v, w in zip(p.variables, q.variables):
            out = band(out, v.bounds.lower == w.bounds.lower, v.bounds.upper == w.bounds.upper)
        return out

    def ensures(self, c, st, res):
        got, want = res["got"], res["want"]
        ids = lambda m: [str(x.id) for x in m.propositions]
        def same_child(x, y):
            # structure, not object identity: the same class, and for an item the same bounds
            if type(x) is not type(y):
                return False
            if hasattr(x, "propositions"):
                return [str(k.id) for k in x.propositions] == [str(k.id) for k in y.propositions]
            return band(x.bounds.lower == y.bounds.lower, x.bounds.upper == y.bounds.upper)
        kids_ok = ids(got) == ids(want)
        if kids_ok:
            for x, y in zip(got.propositions, want.propositions):
                kids_ok = band(kids_ok, same_child(x, y))
        out = [("add.children", kids_ok),
               ("add.threshold-sign-id", band(got.value == want.value, got.sign == want.sign) if got.id == want.id == "cfg" else False),
               ("add.class", type(got) is type(want)),
               ("add.default_prios", dict(got.default_prios) == dict(want.default_prios)),
               ("add.polyhedron", self._same_poly(got.ge_polyhedron, want.ge_polyhedron)),
               ("add.leafs", [str(v.id) for v in got.leafs()] == [str(v.id) for v in want.leafs()]),
               ("add.frame", len(res["before"][0]) == len(res["after"][0]) and all(x is y for x, y in zip(res["before"][0], res["after"][0]))
                and res["before"][1:] == res["after"][1:])]
        return out

    def concretise(self, case, k, model, c, st):
        vals = {}
        for dcl in model.decls():
            nm = dcl.name()
            if nm.startswith(("lo.", "hi.", "value.")):
                vals[nm] = _mv(model, z3.Int(nm))
        return {"case": dict(case), "vals": vals}

    def replay(self, w):
        import numpy as np
        import puan
        import puan.logic.plog as pg
        import puan.modules.configurator as cc
        g = lambda n, dflt: w["vals"].get(n, dflt)
        s1, s2, s3 = w["case"]["signs"]

        def L(v):
            lo = g(f"lo.{v}", 0)
            return puan.variable(v, (lo, max(lo, g(f"hi.{v}", 1))))

        def R(vid, kids, sign):
            return pg.AtLeast(g(f"value.{vid}", 1), kids, variable=vid, sign=sign)

        def build():
            if w["case"]["shape"] == "plain":
                return R("R1", [L("a"), L("b")], s1), R("R2", [L("b"), L("c")], s2), R("N", [L("c"), L("d")], s3)
            if w["case"]["shape"] == "top-item":
                return L("n"), R("R2", [L("a"), L("b")], s2), R("N", [L("b"), L("c")], s3)
            new = R("S", [L("c"), L("d")], s3)
            return R("R1", [L("a"), L("b")], s1), R("R2", [L("b"), new], s2), new
        violated, detail = [], {}
        r1, r2, new = build()
        cfg = cc.StingyConfigurator(r1, r2, id="cfg")
        if w["case"].get("warm"):
            cfg.leafs()
            cfg.ge_polyhedron
            cfg.default_prios
        before = cfg.to_text()
        try:
            got = cfg.add(new)
        except Exception as e:
            return {"violated": ["no-raise[%s]" % type(e).__name__, "no-raise[Exception]"], "detail": {"raised": repr(e)}}
        q1, q2, qn = build()
        want = cc.StingyConfigurator(q1, q2, qn, id="cfg")
        if cfg.to_text() != before:
            violated.append("add.frame")
        if got.to_text() != want.to_text() or got.to_json() != want.to_json():
            violated += ["add.children", "add.threshold-sign-id"]
            detail["got"], detail["want"] = got.to_text(), want.to_text()
        if type(got) is not type(want):
            violated.append("add.class")
        if dict(got.default_prios) != dict(want.default_prios):
            violated.append("add.default_prios")
        if [v.id for v in got.leafs()] != [v.id for v in want.leafs()]:
            violated.append("add.leafs")
            detail["leafs"] = [[str(v.id) for v in got.leafs()], [str(v.id) for v in want.leafs()]]
        try:
            pg_, pw = got.ge_polyhedron, want.ge_polyhedron
            same = np.array_equal(np.asarray(pg_), np.asarray(pw)) and [v.id for v in pg_.variables] == [v.id for v in pw.variables] \
                and [tuple(v.bounds.as_tuple()) for v in pg_.variables] == [tuple(v.bounds.as_tuple()) for v in pw.variables] \
                and list(map(float, pg_.default_prio_vector)) == list(map(float, pw.default_prio_vector))
        except BaseException as e:
            same, detail["polyhedron_error"] = True, repr(e)[:200]
        if not same:
            violated.append("add.polyhedron")
        return {"violated": sorted(set(violated)), "detail": detail}


HARNESSES = [AddShapeH()]
