"""C01 / C02 -- the Python glue of AtLeast.to_ge_polyhedron (real source) composed with the executable form of A-rs1.

Bounded in SHAPE, unbounded in values: for each listed tree shape and each sign assignment of its compound nodes, with
symbolic thresholds and symbolic leaf bounds, the real `to_ge_polyhedron` runs (index maps, StatementPy / AtLeastPy
construction, bias and sign arguments, hstack of b and A, column variables looked up by index) against `pyvc.rsmodel`
(the assumed contract A-rs1 of the extension) and the symbolic numpy layer, and the polyhedron it returns must satisfy

  glue.c01.active    for every in-bounds leaf assignment, with every sub-proposition column at its truth value:
                     all rows hold  <=>  the model is true                                                       (C01)
  glue.c01.inactive  ... all rows hold (not asserted: always feasible)                                            (C01)
  glue.c02.converse  if no sub-proposition sits under a negative sign: every in-bounds integer point of the asserted
                     polyhedron (all columns free) has a leaf part that makes the model true                      (C02)
  glue.columns       column 0 is the support column; every other column carries the id AND the bounds of a node

`flatten()` is the real one as well (its hashing/equality on symbolic fields multiplies the paths); unbounded width is the
business of lemma.enc_sound /
lemma.sound_safe (contracts/c01.py); shapes here: a flat node, a nested node, a shared leaf, depth 3.
"""
import itertools
import z3
from pyvc.sym import SInt, ctx
from pyvc.nodes import band, bor, bnot, implies, ite
from pyvc.engine import Harness
from .common import mk_variable, _mv
from .specs import truth

# shape: name -> (children...) ; leaves are lower-case
SHAPES = {
    "flat": {"T": ["a", "b"]},
    "nested": {"T": ["C", "a"], "C": ["b", "c"]},
    "shared-leaf": {"T": ["C", "D"], "C": ["a", "b"], "D": ["b", "c"]},
    "depth3": {"T": ["C", "d"], "C": ["D", "c"], "D": ["a", "b"]},
}


def build(c, repo, shape, signs, prefix=""):
    """`prefix` is put in front of the ids of the sub-propositions (explicit ids that merely LOOK generated: "VAR...")"""
    tree = SHAPES[shape]
    leaves = sorted({x for kids in tree.values() for x in kids if x not in tree})
    lo = {l: SInt(z3.Int(f"lo.{l}")) for l in leaves}
    hi = {l: SInt(z3.Int(f"hi.{l}")) for l in leaves}
    for l in leaves:
        c.assume_global(z3.And(lo[l].t <= hi[l].t, lo[l].t >= -32768, hi[l].t <= 32767))
    objs = {l: mk_variable(repo, l, lo[l], hi[l]) for l in leaves}
    vals = {}
    order = []

    def mk(name):
        if name in objs:
            return objs[name]
        kids = [mk(k) for k in tree[name]]
        n = object.__new__(repo.plog.AtLeast)
        vals[name] = SInt(z3.Int(f"value.{name}"))
        n.__dict__.update(generated_id=False, sign=signs[name], value=vals[name], propositions=sorted(kids, key=lambda x: x.id),
                          variable=mk_variable(repo, prefix + name, 0, 1))
        objs[name] = n
        order.append(name)
        return n
    top = mk("T")
    flat = [objs[k] for k in sorted(objs)]
    # flatten() is the real one (sorted(set(chain(...))) over objects with symbolic fields)
    return top, objs, leaves, lo, hi, vals


class GlueH(Harness):
    name = "AtLeast.to_ge_polyhedron(glue)"
    function = "AtLeast.to_ge_polyhedron"
    module = "puan.logic.plog"
    numpy_mode = "sym"
    rs_model = True

    def cases(self):
        out = []
        for shape, tree in SHAPES.items():
            comps = sorted(tree)
            for sg in itertools.product((1, -1), repeat=len(comps)):
                out.append({"shape": shape, "signs": dict(zip(comps, sg))})
        return out

    def setup(self, c, case):
        top, objs, leaves, lo, hi, vals = build(c, c.repo, case["shape"], case["signs"])
        return {"top": top, "objs": objs, "leaves": leaves, "lo": lo, "hi": hi, "vals": vals}

    def run(self, c, st):
        c.nd_epoch = 1
        return {"active": st["top"].to_ge_polyhedron(True), "inactive": st["top"].to_ge_polyhedron(False)}

    # ---------------------------------------------------------------------------------------------------------------
    @staticmethod
    def _rows(p, x_of):
        """truth of every row of polyhedron p at the point id -> value"""
        A, b = p.A, p.b
        cols = list(p.A.variables)
        out = True
        nrows = len(b)
        for i in range(nrows):
            lhs = 0
            for j, v in enumerate(cols):
                lhs = lhs + A[i][j] * x_of(v.id)
            out = band(out, lhs >= b[i])
        return out

    def ensures(self, c, st, res):
        top, objs, leaves, lo, hi = st["top"], st["objs"], st["leaves"], st["lo"], st["hi"]
        tree = SHAPES[c.state_case["shape"]]
        env = {l: SInt(z3.Int(f"x.{l}")) for l in leaves}
        for l in leaves:
            c.assume_global(z3.And(lo[l].t <= env[l].t, env[l].t <= hi[l].t))
        tv = {k: truth(objs[k], env) for k in objs}
        goals = []
        # columns: ids and bounds
        for nm in ("active", "inactive"):
            p = res[nm]
            cols = list(p.variables)
            ok = cols[0].id == 0
            want = set(objs) - ({"T"} if nm == "active" else set())
            ok = ok and sorted(str(v.id) for v in cols[1:]) == sorted(want)
            goals.append((f"glue.columns.ids[{nm}]", ok))
            if not ok:
                return goals
            bd = True
            for v in cols[1:]:
                o = objs[v.id]
                bd = band(bd, v.bounds.lower == o.bounds.lower, v.bounds.upper == o.bounds.upper)
            goals.append((f"glue.columns.bounds[{nm}]", bd))
        x_truth = lambda vid: tv[vid]
        goals.append(("glue.c01.active", self._rows(res["active"], x_truth) == (tv["T"] == 1)))
        goals.append(("glue.c01.inactive", self._rows(res["inactive"], x_truth)))
        # C02 converse for solver-safe sign assignments
        signs = c.state_case["signs"]
        safe = all(signs[k] == 1 or all(ch not in tree for ch in kids) for k, kids in tree.items())
        if safe:
            free = {k: SInt(z3.Int(f"p.{k}")) for k in objs}
            inb = True
            for k, o in objs.items():
                inb = band(inb, o.bounds.lower <= free[k], free[k] <= o.bounds.upper)
            env2 = {l: free[l] for l in leaves}
            goals.append(("glue.c02.converse", implies(band(inb, self._rows(res["active"], lambda vid: free[vid])),
                                                       truth(objs["T"], env2) == 1)))
        return goals

    # ---------------------------------------------------------------------------------------------------------------
    def concretise(self, case, k, model, c, st):
        g = lambda v: _mv(model, v.t)
        w = {"shape": case["shape"], "signs": case["signs"], "lo": {l: g(v) for l, v in st["lo"].items()},
             "hi": {l: g(v) for l, v in st["hi"].items()}, "values": {n: g(v) for n, v in st["vals"].items()}}
        w["x"] = {l: _mv(model, z3.Int(f"x.{l}")) for l in st["leaves"]}
        w["p"] = {n: _mv(model, z3.Int(f"p.{n}")) for n in st["objs"]}
        return w

    def replay(self, w):
        import numpy as np
        import puan
        import puan.logic.plog as pg
        tree = SHAPES[w["shape"]]
        objs = {}

        def mk(name):
            if name in objs:
                return objs[name]
            if name not in tree:
                objs[name] = puan.variable(name, (w["lo"][name], w["hi"][name]))
            else:
                objs[name] = pg.AtLeast(w["values"][name], [mk(k) for k in tree[name]], variable=name, sign=w["signs"][name])
            return objs[name]
        top = mk("T")
        violated, detail = [], {"model": top.to_text()}
        if top.errors() != []:
            return {"violated": [], "detail": {"note": "witness is not a validated model", "errors": [str(e) for e in top.errors()]}}

        def tv(n, env):
            if n not in tree:
                return env[n]
            return int(w["signs"][n] * sum(tv(k, env) for k in tree[n]) >= w["values"][n])
        leaves = sorted(n for n in objs if n not in tree)
        # the witness point and its neighbourhood (all assignments when small)
        box = [range(w["lo"][l], w["hi"][l] + 1) if w["hi"][l] - w["lo"][l] <= 3 else
               sorted({w["lo"][l], w["hi"][l], min(max(w["x"].get(l, w["lo"][l]), w["lo"][l]), w["hi"][l])}) for l in leaves]
        pa, pi = top.to_ge_polyhedron(True), top.to_ge_polyhedron(False)
        for nm, p in (("active", pa), ("inactive", pi)):
            cols = list(p.variables)
            if cols[0].id != 0 or sorted(str(v.id) for v in cols[1:]) != sorted(set(objs) - ({"T"} if nm == "active" else set())):
                violated.append(f"glue.columns.ids[{nm}]")
            elif any(tuple(v.bounds.as_tuple()) != tuple(objs[v.id].bounds.as_tuple()) for v in cols[1:]):
                violated.append(f"glue.columns.bounds[{nm}]")
        if violated:
            return {"violated": violated, "detail": detail}
        for point in itertools.product(*box):
            env = dict(zip(leaves, point))
            full = {n: tv(n, env) for n in objs}
            for nm, p in (("active", pa), ("inactive", pi)):
                A = [[int(t) for t in row] for row in np.asarray(p.A).tolist()]
                b = [int(t) for t in np.asarray(p.b).tolist()]
                x = [full[v.id] for v in p.A.variables]
                sat = all(sum(a_ * x_ for a_, x_ in zip(row, x)) >= b_ for row, b_ in zip(A, b))
                if nm == "active" and sat != (full["T"] == 1) and "glue.c01.active" not in violated:
                    violated.append("glue.c01.active")
                    detail["assignment"] = env
                if nm == "inactive" and not sat and "glue.c01.inactive" not in violated:
                    violated.append("glue.c01.inactive")
                    detail["assignment"] = env
        # converse: the witness point (all columns free)
        safe = all(w["signs"][k] == 1 or all(ch not in tree for ch in kids) for k, kids in tree.items())
        if safe:
            A = [[int(t) for t in row] for row in np.asarray(pa.A).tolist()]
            b = [int(t) for t in np.asarray(pa.b).tolist()]
            cols = [v.id for v in pa.A.variables]
            comp = [n for n in cols if n in tree]
            for bits in itertools.product((0, 1), repeat=len(comp)):
                for point in itertools.product(*box):
                    env = dict(zip(leaves, point))
                    xs = {**env, **dict(zip(comp, bits))}
                    x = [xs[n] for n in cols]
                    if all(sum(a_ * x_ for a_, x_ in zip(row, x)) >= b_ for row, b_ in zip(A, b)) and tv("T", env) != 1:
                        if "glue.c02.converse" not in violated:
                            violated.append("glue.c02.converse")
                            detail["point"] = xs
        return {"violated": violated, "detail": detail}


class GlueReducedH(Harness):
    """to_ge_polyhedron(active, reduced=True): the reduction itself happens inside the compiled extension and is NOT under
    contract (A-rs1 covers reduced=False; natively the reduced polyhedron was seen to lose solutions, see DESIGN) -- what is
    under contract is the Python glue's TRANSPORT of whatever the extension answers: column 0 is its right-hand side, the
    other columns are its matrix, and each column carries the puan variable (id and bounds) of the statement index the
    extension names there, behind the support variable."""
    name = "AtLeast.to_ge_polyhedron(reduced transport)"
    function = "AtLeast.to_ge_polyhedron"
    module = "puan.logic.plog"
    numpy_mode = "sym"
    rs_model = True

    def cases(self):
        out = []
        for shape in ("flat", "nested"):
            comps = sorted(SHAPES[shape])
            for sg in itertools.product((1, -1), repeat=len(comps)):
                for active in (True, False):
                    out.append({"shape": shape, "signs": dict(zip(comps, sg)), "active": active})
        return out

    def setup(self, c, case):
        top, objs, leaves, lo, hi, vals = build(c, c.repo, case["shape"], case["signs"])
        return {"top": top, "objs": objs, "leaves": leaves, "lo": lo, "hi": hi, "vals": vals, "tree": SHAPES[case["shape"]]}

    def run(self, c, st):
        c.nd_epoch = 1
        c.repo.load("puan.logic.plog").pr.TheoryPy.last_reduced = None
        return st["top"].to_ge_polyhedron(c.state_case["active"], True)

    def ensures(self, c, st, res):
        from .c15 import SolveBuiltinH
        rs = c.repo.load("puan.logic.plog").pr
        last = getattr(rs.TheoryPy, "last_reduced", None)
        out = [("reduced.extension-asked", last is not None and last[2] == c.state_case["active"])]
        if last is None:
            return out
        theory, ans, _ = last
        idx = SolveBuiltinH._index_of(theory, st)
        if idx is None:
            from pyvc.engine import NotRecognised
            out.append(("reduced.statements-identify-the-nodes", NotRecognised("statements cannot be matched to the model's nodes by bounds / child sets")))
            return out
        node_of = {i: n for n, i in idx.items()}
        nr, nc = ans.a.nrows, ans.a.ncols
        shape_ok = tuple(res.shape) == (nr, nc + 1)
        out.append(("reduced.transport.shape", shape_ok))
        if not shape_ok:
            return out
        m = True
        for i in range(nr):
            m = band(m, res[i][0] == ans.b[i])
            for j in range(nc):
                m = band(m, res[i][j + 1] == ans.a.val[i * nc + j])
        out.append(("reduced.transport.matrix", m))
        cols = list(res.variables)
        ok = len(cols) == nc + 1 and cols[0].id == 0 and [str(v.id) for v in cols[1:]] == [node_of[v.id] for v in ans.variables]
        out.append(("reduced.transport.column-ids", ok))
        if ok:
            bd = True
            for v in cols[1:]:
                o = st["objs"][v.id]
                bd = band(bd, v.bounds.lower == o.bounds.lower, v.bounds.upper == o.bounds.upper)
            out.append(("reduced.transport.column-bounds", bd))
        return out

    def concretise(self, case, k, model, c, st):
        g = lambda v: _mv(model, v.t)
        return {"shape": case["shape"], "signs": case["signs"], "active": case["active"], "lo": {l: g(v) for l, v in st["lo"].items()},
                "hi": {l: g(v) for l, v in st["hi"].items()}, "values": {n: g(v) for n, v in st["vals"].items()}}

    def replay(self, w):
        return reduced_transport_violations(*_native(w), w["active"])


def _native(w):
    import puan
    import puan.logic.plog as pg
    tree = SHAPES[w["shape"]]
    objs = {}

    def mk(name):
        if name in objs:
            return objs[name]
        if name not in tree:
            objs[name] = puan.variable(name, (w["lo"][name], w["hi"][name]))
        else:
            objs[name] = pg.AtLeast(w["values"][name], [mk(k) for k in tree[name]], variable=name, sign=w["signs"][name])
        return objs[name]
    return mk("T"), objs


def reduced_transport_violations(top, objs, active):
    """natively: the polyhedron of to_ge_polyhedron(active, reduced=True) against what the compiled extension answers when
    asked directly with the same theory (also used by the stand-in rt.logic:c01_reduced_transport)"""
    import numpy as np
    violated, detail = [], {"model": top.to_text(), "active": active}
    if top.errors() != []:
        return {"violated": [], "detail": {"note": "witness is not a validated model"}}
    theory, id_map = top._to_pyrs_theory()
    ans = theory.to_ge_polyhedron(active, True)
    by_index = {i: v for (i, v) in id_map.values()}
    want_b = [int(x) for x in ans.b.val] if hasattr(ans.b, "val") else [int(x) for x in ans.b]
    nr, nc = ans.a.nrows, ans.a.ncols
    want_a = [[int(x) for x in ans.a.val[i * nc:(i + 1) * nc]] for i in range(nr)]
    want_ids = [by_index[v.id].id for v in ans.variables]
    got = top.to_ge_polyhedron(active, True)
    G = np.asarray(got)
    if tuple(G.shape) != (nr, nc + 1):
        violated.append("reduced.transport.shape"); detail["shape"] = [list(G.shape), [nr, nc + 1]]
        return {"violated": violated, "detail": detail}
    if [int(x) for x in G[:, 0]] != want_b or [[int(x) for x in r] for r in G[:, 1:].tolist()] != want_a:
        violated.append("reduced.transport.matrix"); detail["got"] = G.tolist(); detail["extension"] = [want_b, want_a]
    cols = list(got.variables)
    if cols[0].id != 0 or [v.id for v in cols[1:]] != want_ids:
        violated.append("reduced.transport.column-ids"); detail["columns"] = [[str(v.id) for v in cols], [str(i) for i in want_ids]]
    elif any(tuple(v.bounds.as_tuple()) != tuple(by_index[a.id].bounds.as_tuple()) for v, a in zip(cols[1:], ans.variables)):
        violated.append("reduced.transport.column-bounds")
    return {"violated": violated, "detail": detail}


HARNESSES = [GlueH(), GlueReducedH()]
