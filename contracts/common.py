"""Shared harness pieces: symbolic receivers for AtLeast-family methods, class invariants, environments."""
import z3
from pyvc.sym import SInt, SBool, SId, ctx, lift
from pyvc.folds import Base, Gen, Seq
from pyvc.nodes import Family, AbsNode, AbsEnv, Contract, is_abs
from pyvc.engine import Harness

I = z3.IntSort()
Bo = z3.BoolSort()


def new_base(c, name, distinct=False):
    b = Base(name)
    b.distinct = distinct
    c.bases[b.ivar.get_id()] = b
    c.assume_global(b.n >= 0)
    return b


def new_family(c, name, base, kind="node"):
    f = Family(name, base, kind)
    c.families[name] = f
    return f


def mk_bounds(repo, lo, hi):
    b = object.__new__(repo.puan.Bounds)
    b.__dict__["lower"] = lo
    b.__dict__["upper"] = hi
    return b


def mk_variable(repo, vid, lo, hi):
    v = object.__new__(repo.puan.variable)
    v.__dict__["id"] = vid
    v.__dict__["bounds"] = mk_bounds(repo, lo, hi)
    return v


def child_invariants(c, fam, compound_bounds="bool"):
    """class invariants of the abstract children X[i] (DESIGN 4.3), as pointwise facts"""
    i = fam.base.ivar
    lo, hi = fam.fn("lo")(i), fam.fn("hi")(i)
    atom = fam.fn("atom", Bo)(i) if fam.kind == "node" else z3.BoolVal(fam.kind == "atom")
    c.add_pointwise(i, lo <= hi)                                    # Bounds invariant
    c.add_pointwise(i, z3.Implies(z3.Not(atom), z3.And(lo >= 0, hi <= 1)))  # compound's own variable is 0/1
    return atom, lo, hi


def env_total_in_bounds(c, fam, env, spec="tv"):
    """`env` fixes every leaf to an integer within its bounds; ties the spec truth symbol of atoms to env"""
    i = fam.base.ivar
    atom = fam.fn("atom", Bo)(i) if fam.kind == "node" else z3.BoolVal(fam.kind == "atom")
    vid = fam.fn("id")(i)
    lo, hi = fam.fn("lo")(i), fam.fn("hi")(i)
    tv = fam.fn(f"{spec}@{env.name}")(i)
    c.add_pointwise(i, z3.Implies(atom, z3.And(env.f_has(vid), env.f_lo(vid) == env.f_hi(vid),
                                               env.f_form(vid) == 0,
                                               tv == env.f_lo(vid), lo <= tv, tv <= hi)))
    c.add_pointwise(i, z3.Implies(z3.Not(atom), z3.And(tv >= 0, tv <= 1)))
    return tv


def mk_atleast(c, repo, cls, name, fam, sign, generated_id, own_bounds=(0, 1), value=None, guard=None):
    """a real instance of `cls` (bypassing __init__) whose children are the abstract family `fam`"""
    node = object.__new__(cls)
    d = node.__dict__
    d["generated_id"] = generated_id
    d["value"] = SInt(z3.Int(f"{name}.value")) if value is None else value
    d["sign"] = sign
    g = z3.BoolVal(True) if guard is None else guard
    d["propositions"] = Seq([Gen(fam.base, g, fam.at(fam.base.ivar))])
    lo, hi = own_bounds
    d["variable"] = mk_variable(repo, SId(z3.Int(f"{name}.id")), lo, hi)
    return node


def cur_env():
    return ctx().env
