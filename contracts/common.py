"""Shared harness pieces: symbolic receivers for AtLeast-family methods, class invariants, environments."""
import z3
from pyvc.sym import SInt, SBool, SId, ctx, lift
from pyvc.folds import Base, Gen, Seq
from pyvc.nodes import Family, AbsNode, AbsEnv, Contract, is_abs
from pyvc.engine import Harness

I = z3.IntSort()
Bo = z3.BoolSort()


def new_base(c, name, distinct=False):
    b = Base(name)
    b.distinct = distinct
    c.bases[b.ivar.get_id()] = b
    c.assume_global(b.n >= 0)
    return b


def new_family(c, name, base, kind="node"):
    f = Family(name, base, kind)
    c.families[name] = f
    return f


def mk_bounds(repo, lo, hi):
    b = object.__new__(repo.puan.Bounds)
    b.__dict__["lower"] = lo
    b.__dict__["upper"] = hi
    return b


def mk_variable(repo, vid, lo, hi):
    v = object.__new__(repo.puan.variable)
    v.__dict__["id"] = vid
    v.__dict__["bounds"] = mk_bounds(repo, lo, hi)
    return v


def child_invariants(c, fam, compound_bounds="bool"):
    """class invariants of the abstract children X[i] (DESIGN 4.3), as pointwise facts"""
    i = fam.base.ivar
    lo, hi = fam.fn("lo")(i), fam.fn("hi")(i)
    atom = fam.fn("atom", Bo)(i) if fam.kind == "node" else z3.BoolVal(fam.kind == "atom")
    c.add_pointwise(i, lo <= hi)                                    # Bounds invariant
    c.add_pointwise(i, z3.Implies(z3.Not(atom), z3.And(lo >= 0, hi <= 1)))  # compound's own variable is 0/1
    return atom, lo, hi


def env_total_in_bounds(c, fam, env, spec="tv"):
    """`env` fixes every leaf to an integer within its bounds; ties the spec truth symbol of atoms to env"""
    i = fam.base.ivar
    atom = fam.fn("atom", Bo)(i) if fam.kind == "node" else z3.BoolVal(fam.kind == "atom")
    vid = fam.fn("id")(i)
    lo, hi = fam.fn("lo")(i), fam.fn("hi")(i)
    tv = fam.fn(f"{spec}@{env.name}")(i)
    c.add_pointwise(i, z3.Implies(atom, z3.And(env.f_has(vid), env.f_lo(vid) == env.f_hi(vid),
                                               env.f_form(vid) == 0,
                                               tv == env.f_lo(vid), lo <= tv, tv <= hi)))
    c.add_pointwise(i, z3.Implies(z3.Not(atom), z3.And(tv >= 0, tv <= 1)))
    return tv


def mk_atleast(c, repo, cls, name, fam, sign, generated_id, own_bounds=(0, 1), value=None, guard=None):
    """a real instance of `cls` (bypassing __init__) whose children are the abstract family `fam`"""
    node = object.__new__(cls)
    d = node.__dict__
    d["generated_id"] = generated_id
    d["value"] = SInt(z3.Int(f"{name}.value")) if value is None else value
    d["sign"] = sign
    g = z3.BoolVal(True) if guard is None else guard
    d["propositions"] = Seq([Gen(fam.base, g, fam.at(fam.base.ivar))])
    lo, hi = own_bounds
    d["variable"] = mk_variable(repo, SId(z3.Int(f"{name}.id")), lo, hi)
    return node


_NATIVE = {"env": None}


def cur_env():
    from pyvc.sym import have_ctx
    if have_ctx():
        return ctx().env
    return _NATIVE["env"]


def set_native_env(env):
    _NATIVE["env"] = env


# ------------------------------------------------------------------------------------------------------------------
# concretisation (model -> description of real objects) and native construction (rt side)
# ------------------------------------------------------------------------------------------------------------------

def _mv(model, term, default=0):
    v = model.eval(term, model_completion=True)
    if z3.is_int_value(v):
        return v.as_long()
    if z3.is_true(v):
        return True
    if z3.is_false(v):
        return False
    return default


def concretise_children(model, fam, k, env=None, extra_bool=(), extra_int=()):
    """per child j < k: kind, bounds, truth value under env, flags"""
    out = []
    for j in range(k):
        J = z3.IntVal(j)
        atom = True if fam.kind == "atom" else False if fam.kind == "compound" else _mv(model, fam.fn("atom", Bo)(J))
        d = {"kind": "atom" if atom else "compound", "id": f"x{j}" if atom else f"C{j}",
             "lo": _mv(model, fam.fn("lo")(J)), "hi": _mv(model, fam.fn("hi")(J))}
        if env is not None:
            d["tv"] = _mv(model, fam.fn(f"tv@{env.name}")(J))
        for b in extra_bool:
            d[b] = _mv(model, fam.fn(b, Bo)(J))
        for a in extra_int:
            d[a] = _mv(model, fam.fn(a)(J))
        out.append(d)
    return out


def build_children(descr):
    """real puan objects for a list of child descriptors; returns (children, env dict)

    A compound child with truth value tv is Any(leaf) over one boolean leaf set to tv; flags `safe`/`boolleaves`
    (default True) select an unsafe / non-boolean variant with the same truth value."""
    import puan
    import puan.logic.plog as pg
    children, env = [], {}
    for d in descr:
        if d["kind"] == "atom":
            children.append(puan.variable(d["id"], (d["lo"], d["hi"])))
            env[d["id"]] = d.get("tv", d["lo"])
        else:
            leaf = "l" + d["id"]
            tv = d.get("tv", 0)
            safe = d.get("safe", True)
            bl = d.get("boolleaves", True)
            lv = puan.variable(leaf, (0, 1) if bl else (0, 2))
            if safe:
                node = pg.AtLeast(1, [lv], variable=d["id"])
                env[leaf] = tv
            else:
                inner = pg.AtLeast(1, [lv], variable="I" + d["id"])
                node = pg.AtLeast(0, [inner], variable=d["id"], sign=-1)
                env[leaf] = 1 - tv
            children.append(node)
    return children, env


def concrete_id(c, model, term, default):
    """a concrete string for a symbolic id that satisfies the string predicates (startswith / endswith / in) the
    counter-model makes true of it"""
    name = default
    for (kind, lit), f in c.__dict__.get("str_preds", {}).items():
        if z3.is_true(model.eval(f(term), model_completion=True)):
            if kind == "startswith" and not name.startswith(lit):
                name = lit + name
            elif kind == "endswith" and not name.endswith(lit):
                name = name + lit
            elif kind == "contains" and lit not in name:
                name = name + lit
    return name


def ints(b):
    """the two ends of a Bounds as plain ints for a replay report -- never raises: a malformed value (nested tuples, None)
    is reported by its repr, it is the replay's comparison that decides, not this rendering"""
    try:
        return [int(x) for x in b.as_tuple()]
    except Exception:
        return repr(b)
