"""C19 and C20 on the symbolic ndarray layer (see contracts/c12.py): point classification and id/position bridges.

C19  for a polyhedron of shape r x (c+1) and integer points given as a vector, a matrix of points or a stack of matrices
     (all entries symbolic): ineqs_satisfied / separable / ineq_separate_points equal the row-by-row definition and the
     output shape follows the input shape.
C20  construct (given value / callable default / lower bound for integer dtypes / NaN otherwise; unknown ids ignored),
     boolean / integer variable index sets partition the columns by bounds == (0,1), to_list returns exactly the
     variables at the 1-entries, A / b / to_linalg split the support column from the matrix with matching variables.
"""
import itertools
import math
import z3
from pyvc.sym import SInt, SBool, ctx, lift, to_bterm, site
from pyvc.nodes import band, bor, bnot, implies
from pyvc.engine import Harness
from pyvc import symnd
from .c12 import _Arr, sym_polyhedron, dot
from .common import mk_variable


def _pts(name, shape):
    it = itertools.count()
    def build(sh):
        if not sh:
            return SInt(z3.Int(f"{name}{next(it)}"))
        return [build(sh[1:]) for _ in range(sh[0])]
    return build(shape)


def _truth(x):
    """entry of a boolean result as a truth value"""
    if type(x) in (bool, SBool):
        return x
    return x == 1


class PointsH(_Arr):
    name = "ge_polyhedron.points"
    function = "ge_polyhedron.ineqs_satisfied"
    functions = ["ge_polyhedron.ineqs_satisfied", "ge_polyhedron.separable", "ge_polyhedron.ineq_separate_points"]

    def cases(self):
        out = []
        for r, k in [(1, 1), (2, 2), (3, 2)]:
            for pshape in [(k,), (1, k), (2, k), (1, 2, k), (2, 1, k)]:
                out.append({"rows": r, "cols": k, "pshape": list(pshape)})
        return out

    def setup(self, c, case):
        p, A, b, lo, hi = sym_polyhedron(c, case["rows"], case["cols"])
        pts = _pts("p", tuple(case["pshape"]))
        return {"p": p, "A": A, "b": b, "pts": pts, "lo": lo, "hi": hi}

    def run(self, c, st):
        self.begin_call(c)
        P = symnd.nd(st["pts"])
        p = st["p"]
        return {"sat": p.ineqs_satisfied(P), "sep": p.separable(P), "isp": p.ineq_separate_points(P)}

    def ensures(self, c, st, res):
        A, b, pts = st["A"], st["b"], st["pts"]
        rows = range(len(A))
        sat_row = lambda x, i: dot(A[i], x) >= b[i]
        out = []
        rank = len(c.state_case["pshape"])

        def tol(v):
            return v.tolist() if hasattr(v, "tolist") else v
        sat, sep, isp = tol(res["sat"]), tol(res["sep"]), tol(res["isp"])
        if rank == 1:
            out.append(("ineqs_satisfied", _truth(sat) == band(*[sat_row(pts, i) for i in rows])))
            out.append(("separable", _truth(sep) == bor(*[bnot(sat_row(pts, i)) for i in rows])))
            out.append(("ineq_separate_points.shape", isinstance(isp, list) and len(isp) == len(A)))
            if isinstance(isp, list) and len(isp) == len(A):
                for i in rows:
                    out.append((f"ineq_separate_points[{i}]", _truth(isp[i]) == bnot(sat_row(pts, i))))
        elif rank == 2:
            n = len(pts)
            out.append(("shapes", isinstance(sat, list) and len(sat) == n and isinstance(sep, list) and len(sep) == n
                        and isinstance(isp, list) and len(isp) == len(A)))
            if out[-1][1]:
                for k in range(n):
                    out.append((f"ineqs_satisfied[{k}]", _truth(sat[k]) == band(*[sat_row(pts[k], i) for i in rows])))
                    out.append((f"separable[{k}]", _truth(sep[k]) == bor(*[bnot(sat_row(pts[k], i)) for i in rows])))
                for i in rows:
                    out.append((f"ineq_separate_points[{i}]", _truth(isp[i]) == bor(*[bnot(sat_row(x, i)) for x in pts])))
        else:
            g, n = len(pts), len(pts[0])
            ok = (isinstance(sat, list) and len(sat) == g and all(isinstance(r_, list) and len(r_) == n for r_ in sat)
                  and isinstance(sep, list) and len(sep) == g and all(isinstance(r_, list) and len(r_) == n for r_ in sep)
                  and isinstance(isp, list) and len(isp) == g and all(isinstance(r_, list) and len(r_) == len(A) for r_ in isp))
            out.append(("shapes", ok))
            if ok:
                for q in range(g):
                    for k in range(n):
                        out.append((f"ineqs_satisfied[{q},{k}]", _truth(sat[q][k]) == band(*[sat_row(pts[q][k], i) for i in rows])))
                        out.append((f"separable[{q},{k}]", _truth(sep[q][k]) == bor(*[bnot(sat_row(pts[q][k], i)) for i in rows])))
                    for i in rows:
                        out.append((f"ineq_separate_points[{q},{i}]", _truth(isp[q][i]) == bor(*[bnot(sat_row(x, i)) for x in pts[q]])))
        return out

    def concretise(self, case, k, model, c, st):
        from .common import _mv
        w = _Arr.concretise(self, case, k, model, c, st)
        def g(v):
            return [g(x) for x in v] if isinstance(v, list) else _mv(model, v.t)
        w["pts"] = g(st["pts"])
        return w

    def native_violations(self, p, w):
        import numpy as np
        A, b = np.asarray(p.A), np.asarray(p.b)
        P = np.array(w["pts"], dtype=np.int64)
        sat = lambda x: [bool(int(A[i].dot(x)) >= int(b[i])) for i in range(A.shape[0])]
        bad = []
        def ref(P, f):
            if P.ndim == 1:
                return f(P)
            return [ref(x, f) for x in P]
        want_sat = ref(P, lambda x: all(sat(x))) if P.ndim <= 2 else [[all(sat(x)) for x in grp] for grp in P]
        got = np.asarray(p.ineqs_satisfied(P)).astype(bool).tolist()
        if got != (want_sat if P.ndim > 1 else bool(want_sat)):
            bad.append("ineqs_satisfied")
        want_sep = (not all(sat(P))) if P.ndim == 1 else ([not all(sat(x)) for x in P] if P.ndim == 2 else [[not all(sat(x)) for x in grp] for grp in P])
        if np.asarray(p.separable(P)).astype(bool).tolist() != want_sep:
            bad.append("separable")
        viol = lambda grp, i: any(not sat(x)[i] for x in grp)
        rows = range(A.shape[0])
        want_isp = ([not t for t in sat(P)] if P.ndim == 1 else [viol(P, i) for i in rows] if P.ndim == 2
                    else [[viol(grp, i) for i in rows] for grp in P])
        if np.asarray(p.ineq_separate_points(P)).astype(bool).tolist() != want_isp:
            bad.append("ineq_separate_points")
        # output shapes follow the input shape (obligations "shapes" / "ineq_separate_points.shape")
        want_shapes = (P.shape[:-1], P.shape[:-1], P.shape[:-2] + (A.shape[0],))
        got_shapes = tuple(np.asarray(f(P)).shape for f in (p.ineqs_satisfied, p.separable, p.ineq_separate_points))
        if got_shapes != want_shapes:
            bad.append("shapes")
            if got_shapes[2] != want_shapes[2]:
                bad.append("ineq_separate_points.shape")
        return bad


class ConstructH(_Arr):
    name = "variable_ndarray.construct"
    function = "variable_ndarray.construct"

    def cases(self):
        out = []
        for k in (1, 2, 3):
            for present in itertools.product((0, 1), repeat=k):
                for mode in ("int", "int-callable", "float", "float-callable"):
                    out.append({"k": k, "present": "".join(map(str, present)), "mode": mode})
        return out

    def setup(self, c, case):
        repo = c.repo
        pnd = repo.load("puan.ndarray")
        k = case["k"]
        lo = [SInt(z3.Int(f"lo{j}")) for j in range(k)]
        hi = [SInt(z3.Int(f"hi{j}")) for j in range(k)]
        for j in range(k):
            c.assume_global(lo[j].t <= hi[j].t)
        vs = [mk_variable(repo, f"v{j}", lo[j], hi[j]) for j in range(k)]
        arr = pnd.variable_ndarray([[0] * k], variables=vs, index=[repo.puan.variable("r")])
        d = {f"v{j}": SInt(z3.Int(f"d{j}")) for j in range(k) if case["present"][j] == "1"}
        d["unknown-id"] = SInt(z3.Int("dz"))
        return {"arr": arr, "d": d, "lo": lo, "vs": vs, "dv": SInt(z3.Int("dflt"))}

    def run(self, c, st):
        self.begin_call(c)
        import numpy
        mode = c.state_case["mode"]
        dtype = numpy.int64 if mode.startswith("int") else float
        default = (lambda v: st["dv"]) if mode.endswith("callable") else None
        return st["arr"].construct(dict(st["d"]), default, dtype)

    def concretise(self, case, k, model, c, st):
        from .common import _mv
        return {"case": dict(case), "lo": [_mv(model, v.t) for v in st["lo"]],
                "hi": [_mv(model, v.bounds.upper.t) for v in st["vs"]],
                "d": {kk: _mv(model, vv.t) for kk, vv in st["d"].items()}, "dv": _mv(model, st["dv"].t)}

    def replay(self, w):
        import math
        import numpy as np
        import puan
        import puan.ndarray as pnd
        case = w["case"]
        vs = [puan.variable(f"v{j}", (w["lo"][j], max(w["lo"][j], w["hi"][j]))) for j in range(case["k"])]
        arr = pnd.variable_ndarray(np.zeros((1, case["k"]), dtype=np.int64), variables=vs, index=[puan.variable("r")])
        dtype = np.int64 if case["mode"].startswith("int") else float
        default = (lambda v: w["dv"]) if case["mode"].endswith("callable") else None
        got = arr.construct(dict(w["d"]), default, dtype).tolist()
        bad = []
        for j in range(case["k"]):
            if case["present"][j] == "1":
                want = w["d"][f"v{j}"]
            elif default:
                want = w["dv"]
            elif case["mode"].startswith("int"):
                want = w["lo"][j]
            else:
                want = float("nan")
            g = got[j]
            if not ((isinstance(want, float) and math.isnan(want) and math.isnan(g)) or g == want):
                bad.append(f"construct.entry[{j}]")
        return {"violated": bad, "detail": {"got": [str(x) for x in got], "dict": w["d"]}}

    def ensures(self, c, st, res):
        case = c.state_case
        got = res.tolist()
        out = [("construct.length", len(got) == case["k"])]
        if len(got) != case["k"]:
            return out
        for j in range(case["k"]):
            if case["present"][j] == "1":
                want = st["d"][f"v{j}"]
            elif case["mode"].endswith("callable"):
                want = st["dv"]
            elif case["mode"].startswith("int"):
                want = st["lo"][j]
            else:
                want = None
            g = got[j]
            if want is None:
                out.append((f"construct.entry[{j}]", type(g) is float and math.isnan(g)))
            else:
                out.append((f"construct.entry[{j}]", g == want))
        return out


class IndexSetsH(_Arr):
    name = "variable_ndarray.variable_indices"
    function = "variable_ndarray.variable_indices"
    functions = ["variable_ndarray.variable_indices", "variable_ndarray.boolean_variable_indices", "variable_ndarray.integer_variable_indices"]

    def cases(self):
        return [{"k": k} for k in (1, 2, 3)]

    def setup(self, c, case):
        repo = c.repo
        pnd = repo.load("puan.ndarray")
        k = case["k"]
        lo = [SInt(z3.Int(f"lo{j}")) for j in range(k)]
        hi = [SInt(z3.Int(f"hi{j}")) for j in range(k)]
        for j in range(k):
            c.assume_global(lo[j].t <= hi[j].t)
        vs = [mk_variable(repo, f"v{j}", lo[j], hi[j]) for j in range(k)]
        arr = pnd.variable_ndarray([[0] * k], variables=vs, index=[repo.puan.variable("r")])
        return {"arr": arr, "lo": lo, "hi": hi}

    def run(self, c, st):
        self.begin_call(c)
        arr, D = st["arr"], c.repo.puan.Dtype
        # every documented spelling of the argument: the enum members and the strings "bool" / "int"
        return {"b": arr.boolean_variable_indices.tolist(), "i": arr.integer_variable_indices.tolist(),
                "b.enum": arr.variable_indices(D.BOOL).tolist(), "i.enum": arr.variable_indices(D.INT).tolist(),
                "b.str": arr.variable_indices("bool").tolist(), "i.str": arr.variable_indices("int").tolist()}

    def ensures(self, c, st, res):
        out = []
        for j in range(c.state_case["k"]):
            isb = band(st["lo"][j] == 0, st["hi"][j] == 1)
            out.append((f"partition[{j}]", band((j in res["b"]) == isb, (j in res["i"]) == bnot(isb))))
            for sp in ("enum", "str"):
                out.append((f"partition.{sp}[{j}]", band((j in res["b." + sp]) == isb, (j in res["i." + sp]) == bnot(isb))))
        out.append(("sorted", all(res[k_] == sorted(res[k_]) for k_ in res)))
        return out

    def concretise(self, case, k, model, c, st):
        from .common import _mv
        return {"case": dict(case), "bounds": [[_mv(model, lo.t), _mv(model, hi.t)] for lo, hi in zip(st["lo"], st["hi"])]}

    def replay(self, w):
        import puan
        import puan.ndarray as pnd
        k = w["case"]["k"]
        vs = [puan.variable(f"v{j}", (lo, max(lo, hi))) for j, (lo, hi) in enumerate(w["bounds"])]
        arr = pnd.variable_ndarray([[0] * k], variables=vs, index=[puan.variable("r")])
        want_b = [j for j, v in enumerate(vs) if tuple(v.bounds.as_tuple()) == (0, 1)]
        want_i = [j for j in range(k) if j not in want_b]
        got = {"": (arr.boolean_variable_indices, arr.integer_variable_indices),
               ".enum": (arr.variable_indices(puan.Dtype.BOOL), arr.variable_indices(puan.Dtype.INT)),
               ".str": (arr.variable_indices("bool"), arr.variable_indices("int"))}
        violated, detail = [], {"bounds": w["bounds"]}
        for sp, (b, i) in got.items():
            b, i = [int(x) for x in b], [int(x) for x in i]
            for j in range(k):
                if ((j in b) != (j in want_b)) or ((j in i) != (j in want_i)):
                    violated.append(f"partition{sp}[{j}]")
                    detail["got" + sp] = [b, i]
            if b != sorted(b) or i != sorted(i):
                violated.append("sorted")
        return {"violated": sorted(set(violated)), "detail": detail}


class ToListH(_Arr):
    name = "boolean_ndarray.to_list"
    function = "boolean_ndarray.to_list"

    def cases(self):
        return [{"k": 2, "ndim": 1}, {"k": 3, "ndim": 1}, {"k": 2, "ndim": 2}]

    def setup(self, c, case):
        repo = c.repo
        pnd = repo.load("puan.ndarray")
        k = case["k"]
        vs = [repo.puan.variable(f"v{j}") for j in range(k)]
        if case["ndim"] == 1:
            e = [SInt(z3.Int(f"e{j}")) for j in range(k)]
            arr = pnd.boolean_ndarray(e, variables=vs)
        else:
            e = [[SInt(z3.Int(f"e{i}{j}")) for j in range(k)] for i in range(2)]
            arr = pnd.boolean_ndarray(e, variables=vs)
        return {"arr": arr, "e": e, "vs": vs}

    def run(self, c, st):
        self.begin_call(c)
        return st["arr"].to_list()

    def ensures(self, c, st, res):
        vs, e = st["vs"], st["e"]
        out = []
        rows = [e] if c.state_case["ndim"] == 1 else e
        got = [res] if c.state_case["ndim"] == 1 else res
        for r_, (ent, lst) in enumerate(zip(rows, got)):
            ids = [v.id for v in lst]
            for j, v in enumerate(vs):
                out.append((f"to_list[{r_},{j}]", (v.id in ids) == (ent[j] == 1)))
            out.append((f"to_list.order[{r_}]", ids == [v.id for v in vs if v.id in ids]))
        return out

    def concretise(self, case, k, model, c, st):
        from .common import _mv
        g = lambda x: _mv(model, x.t)
        e = st["e"]
        return {"case": dict(case), "e": [g(x) for x in e] if case["ndim"] == 1 else [[g(x) for x in row] for row in e]}

    def replay(self, w):
        import puan
        import puan.ndarray as pnd
        k = w["case"]["k"]
        vs = [puan.variable(f"v{j}") for j in range(k)]
        arr = pnd.boolean_ndarray(w["e"], variables=vs)
        res = arr.to_list()
        rows = [w["e"]] if w["case"]["ndim"] == 1 else w["e"]
        got = [res] if w["case"]["ndim"] == 1 else res
        violated, detail = [], {"array": w["e"], "to_list": [[str(v.id) for v in lst] for lst in got]}
        for r_, (ent, lst) in enumerate(zip(rows, got)):
            ids = [v.id for v in lst]
            for j, v in enumerate(vs):
                if (v.id in ids) != (ent[j] == 1):
                    violated.append(f"to_list[{r_},{j}]")
            if ids != [v.id for v in vs if v.id in ids]:
                violated.append(f"to_list.order[{r_}]")
        return {"violated": sorted(set(violated)), "detail": detail}


class FromListH(_Arr):
    """integer_ndarray.from_list / boolean_ndarray.from_list for a list of ids (symbolic ids: any of them may or may not
    occur in the context, and the list may repeat one): entry j is the 1-based position of the FIRST occurrence of
    context[j] in the list (integer arrays) / 1 (boolean arrays) if it is listed, 0 otherwise; the nested form converts row
    by row.  The context is duplicate-free (a variable list)."""
    name = "integer_ndarray.from_list"
    function = "integer_ndarray.from_list"
    functions = ["integer_ndarray.from_list", "boolean_ndarray.from_list"]

    def cases(self):
        out = []
        for cls in ("integer", "boolean"):
            for nl, nc in ((1, 1), (1, 2), (2, 2), (2, 3)):      # a non-empty list (from_list([], ctx) returns an EMPTY array, not zeros: observation, DESIGN 8)
                out.append({"cls": cls, "lst": nl, "ctx": nc, "nested": False})
            out.append({"cls": cls, "lst": 2, "ctx": 2, "nested": True})
        return out

    def setup(self, c, case):
        from pyvc.sym import SId
        c.symbolic_ids = True
        lst = [SId(z3.Int(f"l{k}")) for k in range(case["lst"])]
        cx = [SId(z3.Int(f"c{j}")) for j in range(case["ctx"])]
        # the list may repeat an id: the position reported is that of its first occurrence (list.index)
        for a in range(len(cx)):
            for b in range(a + 1, len(cx)):
                c.assume_global(cx[a].t != cx[b].t)
        return {"lst": lst, "cx": cx}

    def run(self, c, st):
        self.begin_call(c)
        pnd = c.repo.load("puan.ndarray")
        cls = pnd.integer_ndarray if c.state_case["cls"] == "integer" else pnd.boolean_ndarray
        arg = list(st["lst"])
        if c.state_case["nested"]:
            arg = [list(st["lst"]), list(reversed(st["lst"]))]
        return cls.from_list(arg, list(st["cx"]))

    def ensures(self, c, st, res):
        lst, cx = st["lst"], st["cx"]
        integer = c.state_case["cls"] == "integer"

        def want(l, cid):
            v = 0
            for k in reversed(range(len(l))):
                v = site(l[k] == cid, (k + 1) if integer else 1, v)
            return v
        rows = [(lst, res)] if not c.state_case["nested"] else [(lst, res[0]), (list(reversed(lst)), res[1])]
        out = [("from_list.shape", tuple(res.shape) == ((len(cx),) if not c.state_case["nested"] else (2, len(cx))))]
        if not out[0][1]:
            return out
        for r_, (l, row) in enumerate(rows):
            for j, cid in enumerate(cx):
                out.append((f"from_list[{r_},{j}]", row[j] == want(l, cid)))
        return out

    def concretise(self, case, k, model, c, st):
        from .common import _mv
        codes = {}

        def name(t):
            v = _mv(model, t.t)
            return codes.setdefault(v, "id%d" % len(codes))
        return {"lst": [name(t) for t in st["lst"]], "cx": [name(t) for t in st["cx"]], "case": dict(case)}

    def replay(self, w):
        import puan.ndarray as pnd
        cls = pnd.integer_ndarray if w["case"]["cls"] == "integer" else pnd.boolean_ndarray
        integer = w["case"]["cls"] == "integer"
        arg = list(w["lst"]) if not w["case"]["nested"] else [list(w["lst"]), list(reversed(w["lst"]))]
        res = cls.from_list(arg, list(w["cx"]))
        violated = []
        rows = [(w["lst"], res)] if not w["case"]["nested"] else [(w["lst"], res[0]), (list(reversed(w["lst"])), res[1])]
        if tuple(res.shape) != ((len(w["cx"]),) if not w["case"]["nested"] else (2, len(w["cx"]))):
            return {"violated": ["from_list.shape"], "detail": {"result": res.tolist()}}
        for r_, (l, row) in enumerate(rows):
            for j, cid in enumerate(w["cx"]):
                exp = ((l.index(cid) + 1) if integer else 1) if cid in l else 0
                if int(row[j]) != exp:
                    violated.append(f"from_list[{r_},{j}]")
        return {"violated": violated, "detail": {"list": arg, "context": w["cx"], "result": res.tolist()}}


class LinalgH(_Arr):
    name = "ge_polyhedron.to_linalg"
    function = "ge_polyhedron.to_linalg"
    functions = ["ge_polyhedron.to_linalg", "ge_polyhedron.A", "ge_polyhedron.b"]

    def cases(self):
        return [{"rows": 1, "cols": 1}, {"rows": 2, "cols": 3}]

    def setup(self, c, case):
        p, A, b, lo, hi = sym_polyhedron(c, case["rows"], case["cols"])
        return {"p": p, "A": A, "b": b, "lo": lo, "hi": hi}

    def run(self, c, st):
        self.begin_call(c)
        return st["p"].to_linalg()

    def native_violations(self, p, w):
        import numpy as np
        A_, b_ = p.to_linalg()
        bad = []
        if tuple(A_.shape) != (len(w["A"]), len(w["A"][0])) or tuple(b_.shape) != (len(w["A"]),):
            return ["to_linalg.shape"]
        if np.asarray(A_).tolist() != [list(r) for r in w["A"]]:
            bad.append("to_linalg.A")
        if [int(x) for x in np.asarray(b_).tolist()] != [int(x) for x in w["b"]]:
            bad.append("to_linalg.b")
        if [v.id for v in A_.variables] != [f"v{j}" for j in range(len(w["A"][0]))]:
            bad.append("to_linalg.variables")
        return bad

    def ensures(self, c, st, res):
        A_, b_ = res
        A, b = st["A"], st["b"]
        ok_shape = A_.shape == (len(A), len(A[0])) and b_.shape == (len(A),)
        out = [("to_linalg.shape", ok_shape)]
        if ok_shape:
            al, bl = A_.tolist(), b_.tolist()
            out.append(("to_linalg.A", band(*[al[i][j] == A[i][j] for i in range(len(A)) for j in range(len(A[0]))])))
            out.append(("to_linalg.b", band(*[bl[i] == b[i] for i in range(len(A))])))
        out.append(("to_linalg.variables", [v.id for v in A_.variables.tolist()] == [f"v{j}" for j in range(len(A[0]))]))
        return out


HARNESSES = [FromListH(), PointsH(), ConstructH(), IndexSetsH(), ToListH(), LinalgH()]
