"""C17 -- base64 round trip: the repository-specific part under contract (everything else is pickle's: A-pickle).

ge_polyhedron_config.to_b64 pickles a *list* and from_b64 rebuilds the object with `ge_polyhedron_config(*list)`.
Obligations (input-free, kind `alignment`, decided on the real source text by ast on every run):
  align.order       the k-th packed expression is `self` or `self.<name>` where <name> is the k-th parameter of
                    ge_polyhedron_config.__new__ (after cls); `self` stands for the first parameter (the array itself)
  align.complete    every attribute that __new__ / __array_finalize__ of the class chain attach to the array
                    (collected from the ast: `arr.<name> = ...`, `self.<name> = getattr(obj, ...)`) is among the packed
                    expressions -- nothing that a query reads is lost by the round trip
  align.direct      AtLeast.to_b64 pickles the proposition itself and plog.from_b64 returns what pickle.loads returns
"""
import ast
from pyvc.engine import Harness, FrameViolation, NotRecognised
from pyvc.sym import Unsupported


def _find(tree, cls, fn):
    for n in ast.walk(tree):
        if isinstance(n, ast.ClassDef) and n.name == cls:
            for ch in n.body:
                if isinstance(ch, ast.FunctionDef) and ch.name == fn:
                    return ch
    return None


def _module_fn(tree, fn):
    for n in tree.body:
        if isinstance(n, ast.FunctionDef) and n.name == fn:
            return n
    return None


def _pickled_expr(fn):
    """the first argument of pickle.dumps(...) inside fn"""
    for n in ast.walk(fn):
        if isinstance(n, ast.Call) and isinstance(n.func, ast.Attribute) and n.func.attr == "dumps" \
                and isinstance(n.func.value, ast.Name) and n.func.value.id == "pickle" and n.args:
            return n.args[0]
    return None


class AlignH(Harness):
    name = "b64.alignment"
    function = "ge_polyhedron_config.to_b64"
    module = "puan.ndarray"
    functions = [("puan.ndarray", "ge_polyhedron_config.to_b64"), ("puan.ndarray", "ge_polyhedron_config.from_b64"),
                 ("puan.ndarray", "ge_polyhedron_config.__new__"), ("puan.logic.plog", "AtLeast.to_b64"), ("puan.logic.plog", "from_b64")]

    def setup(self, c, case):
        repo = c.repo
        repo.load("puan.ndarray")
        return {}

    def run(self, c, st):
        repo = c.repo
        _, src = repo.sources["puan.ndarray"]
        tree = ast.parse(src)
        to_b64 = _find(tree, "ge_polyhedron_config", "to_b64")
        from_b64 = _find(tree, "ge_polyhedron_config", "from_b64")
        new = _find(tree, "ge_polyhedron_config", "__new__")
        if not (to_b64 and from_b64 and new):
            raise Unsupported("ge_polyhedron_config.to_b64/from_b64/__new__ not found")
        packed = _pickled_expr(to_b64)
        if not isinstance(packed, ast.List):
            # one level of indirection: pickle.dumps(name) where name = [ ... ] is assigned once in the function
            if isinstance(packed, ast.Name):
                assigns = [n for n in ast.walk(to_b64) if isinstance(n, ast.Assign) and len(n.targets) == 1
                           and isinstance(n.targets[0], ast.Name) and n.targets[0].id == packed.id]
                if len(assigns) == 1 and isinstance(assigns[0].value, ast.List):
                    packed = assigns[0].value
        if not isinstance(packed, ast.List):
            raise Unsupported("to_b64 does not pickle a list literal")
        names = []
        for e in packed.elts:
            if isinstance(e, ast.Name) and e.id == "self":
                names.append("<self>")
            elif isinstance(e, ast.Attribute) and isinstance(e.value, ast.Name) and e.value.id == "self":
                names.append(e.attr)
            else:
                names.append("<expr:%s>" % ast.unparse(e))
        params = [a.arg for a in new.args.args][1:]
        # from_b64 must splat the loaded list into the constructor
        splat = None      # None: no constructor call recognised
        for n in ast.walk(from_b64):
            if isinstance(n, ast.Call) and isinstance(n.func, ast.Name) and n.func.id in ("ge_polyhedron_config", "cls"):
                splat = len(n.args) == 1 and isinstance(n.args[0], ast.Starred) and not n.keywords
        # attributes attached along the class chain
        attached = set()
        for cls in ("variable_ndarray", "ge_polyhedron", "ge_polyhedron_config"):
            for fn in ("__new__", "__array_finalize__"):
                f = _find(tree, cls, fn)
                if f is None:
                    continue
                for n in ast.walk(f):
                    if isinstance(n, ast.Assign):
                        for t in n.targets:
                            if isinstance(t, ast.Attribute) and isinstance(t.value, ast.Name) and t.value.id in ("arr", "self"):
                                attached.add(t.attr)
        _, psrc = repo.sources["puan.logic.plog"]
        ptree = ast.parse(psrc)
        pe = _pickled_expr(_find(ptree, "AtLeast", "to_b64"))
        direct_to = isinstance(pe, ast.Name) and pe.id == "self"
        fb = _module_fn(ptree, "from_b64")
        direct_from = False
        for n in ast.walk(fb):
            if isinstance(n, ast.Return) and isinstance(n.value, ast.Call) and isinstance(n.value.func, ast.Attribute) \
                    and n.value.func.attr == "loads":
                direct_from = True
        return {"names": names, "params": params, "splat": splat, "attached": sorted(attached),
                "direct": True if (direct_to and direct_from) else None}

    def ensures(self, c, st, res):
        names, params = res["names"], res["params"]
        order_ok = len(names) == len(params) and names[0] == "<self>" and all(n == p for n, p in zip(names[1:], params[1:]))
        out = []
        out.append(("align.order", True if order_ok else FrameViolation(f"packed {names} vs __new__ parameters {params}")))
        out.append(("align.splat", True if res["splat"] else
                    (NotRecognised("from_b64: no constructor call ge_polyhedron_config(...) recognised") if res["splat"] is None
                     else FrameViolation("from_b64 does not call ge_polyhedron_config(*loaded)"))))
        missing = [a for a in res["attached"] if a not in names]
        out.append(("align.complete", True if not missing else FrameViolation(f"attached but not packed: {missing}")))
        # a body that is not literally `pickle.dumps(self)` / `return pickle.loads(...)` is merely not recognised: what
        # the functions do is then decided by the stand-in (the round trip itself)
        out.append(("align.direct", True if res["direct"] else
                    NotRecognised("AtLeast.to_b64 / plog.from_b64 are not of the form pickle.dumps(self) / return pickle.loads(...)")))
        return out


HARNESSES = [AlignH()]
