"""C04, rule-dictionary route: the real `Imply.from_cicJE` on concrete rule dictionaries, truth function against the documented
meaning of the rule for EVERY 0/1 assignment of the components (symbolic assignment, one obligation per dictionary).

Bounded in the shape of the dictionary (5 rule types x consequence groups of 1-3 components x no condition / one or two
sub-conditions of 1-2 components under ALL / ANY x with and without explicit group ids), unbounded in nothing else --
the components are boolean, so this is the whole statement for these shapes; what it adds over the stand-in's enumeration
is that the real function runs under the verifier (its comprehension/loop forms desugared, its callees the real
constructors and the real negate), and a failing dictionary is reported as a named obligation with a replayed assignment.
"""
import itertools
import z3
from pyvc.sym import SInt
from pyvc.nodes import band, bor, bnot, implies, ite
from pyvc.engine import Harness
from .common import _mv
from .specs import truth

RULE_TYPES = ("REQUIRES_ALL", "REQUIRES_ANY", "ONE_OR_NONE", "FORBIDS_ALL", "REQUIRES_EXCLUSIVELY")
CONDITIONS = (None, ("ALL", [("ALL", ["a", "b"])]), ("ANY", [("ANY", ["a", "b"])]), ("ALL", [("ALL", ["a"]), ("ANY", ["b", "c"])]),
              ("ANY", [("ANY", ["a", "c"]), ("ALL", ["b", "c"])]), ("ALL", [("ALL", ["a"])]), ("ANY", [("ANY", ["b"])]),
              ("ANY", [("ALL", ["a"]), ("ANY", ["b"])]))


def rule_dict(case):
    comps = lambda xs: [{"id": x} for x in xs]
    cons = ["x", "y", "z"][:case["n"]]
    data = {"consequence": {"ruleType": case["rule"], "components": comps(cons)}}
    if case["ids"]:
        data["consequence"]["id"] = "CONS"
        data["id"] = "RULE"
    cond = CONDITIONS[case["cond"]]
    if cond is not None:
        outer, subs = cond
        data["condition"] = {"relation": outer, "subConditions": [
            dict({"relation": r_, "components": comps(cs)}, **({"id": "SUB%d" % i} if case["ids"] else {})) for i, (r_, cs) in enumerate(subs)]}
        if case["ids"]:
            data["condition"]["id"] = "COND"
    return data, cons, cond


def _count(vals):
    s = 0
    for v in vals:
        s = s + v
    return s


def spec(case, env, concrete=False):
    """documented meaning: condition (if any) implies consequence"""
    _, cons, cond = rule_dict(case)
    vs = [env[k] for k in cons]
    n = _count(vs)
    rt = case["rule"]
    if concrete:
        c = {"REQUIRES_ALL": n == len(vs), "REQUIRES_ANY": n >= 1, "ONE_OR_NONE": n <= 1, "FORBIDS_ALL": n == 0,
             "REQUIRES_EXCLUSIVELY": n == 1}[rt]
        if cond is None:
            return int(c)
        outer, subs = cond
        parts = [(all if r_ == "ALL" else any)(env[k] == 1 for k in cs) for r_, cs in subs]
        return int((not (all if outer == "ALL" else any)(parts)) or c)
    c = {"REQUIRES_ALL": n == len(vs), "REQUIRES_ANY": n >= 1, "ONE_OR_NONE": n <= 1, "FORBIDS_ALL": n == 0,
         "REQUIRES_EXCLUSIVELY": n == 1}[rt]
    if cond is None:
        return ite(c, 1, 0)
    outer, subs = cond
    parts = []
    for r_, cs in subs:
        k = _count([env[x] for x in cs])
        parts.append(k == len(cs) if r_ == "ALL" else k >= 1)
    whole = parts[0]
    for p in parts[1:]:
        whole = band(whole, p) if outer == "ALL" else bor(whole, p)
    return ite(bor(bnot(whole), c), 1, 0)


class CicJEH(Harness):
    name = "Imply.from_cicJE(shapes)"
    function = "Imply.from_cicJE"
    module = "puan.logic.plog"
    functions = ["Imply.from_cicJE", "Imply.__init__", "All.__init__", "Any.__init__", "AtMost.__init__", "Xor.__init__", "AtLeast.negate"]

    def cases(self):
        out = []
        for rule in RULE_TYPES:
            for n in (1, 2, 3):
                for ci in range(len(CONDITIONS)):
                    for ids in (False, True):
                        out.append({"rule": rule, "n": n, "cond": ci, "ids": ids})
        return out

    def setup(self, c, case):
        data, cons, cond = rule_dict(case)
        used = sorted(set(cons) | ({k for _, cs in cond[1] for k in cs} if cond else set()))
        env = {k: SInt(z3.Int(f"x.{k}")) for k in used}
        for k in used:
            c.assume_global(z3.And(env[k].t >= 0, env[k].t <= 1))
        return {"data": data, "env": env}

    def run(self, c, st):
        return c.repo.plog.Imply.from_cicJE(st["data"])

    def ensures(self, c, st, res):
        return [("cicJE.truth", truth(res, st["env"]) == spec(c.state_case, st["env"]))]

    def concretise(self, case, k, model, c, st):
        return {"case": dict(case), "x": {k_: _mv(model, v.t) for k_, v in st["env"].items()}}

    def replay(self, w):
        import json
        import puan.logic.plog as pg
        data, cons, cond = rule_dict(w["case"])
        used = sorted(w["x"])
        first = {k: min(max(int(v), 0), 1) for k, v in w["x"].items()}
        pts = [first] + [dict(zip(used, bits)) for bits in itertools.product((0, 1), repeat=len(used))]
        for env in pts:
            m = pg.Imply.from_cicJE(json.loads(json.dumps(data)))
            got = m.evaluate(dict(env))
            want = spec(w["case"], env, concrete=True)
            if got.constant != want:
                return {"violated": ["cicJE.truth"], "detail": {"rule": data, "model": m.to_text(), "assignment": env,
                                                                 "evaluate": str(got), "documented": want}}
        return {"violated": [], "detail": {"rule": data}}


# ----------------------------------------------------------------------------------------------------------------------
# hand-written JSON records (not produced by to_json): plog.from_json against the documented connective
# ----------------------------------------------------------------------------------------------------------------------
JSON_TYPES = ("All", "Any", "AtLeast", "AtMost", "Xor", "XNor", "Imply", "Not")
CHILD_SETS = (["a"], ["a", "b"], ["a", "b", "c"], ["a", ("Any", ["b", "c"])], [("All", ["a", "b"]), ("Xor", ["b", "c"])])


def _child_record(ch):
    if isinstance(ch, str):
        return {"id": ch}
    return {"type": ch[0], "propositions": [{"id": x} for x in ch[1]]}


def _child_truth(ch, env, concrete):
    if isinstance(ch, str):
        return env[ch]
    n = _count([env[x] for x in ch[1]])
    c = {"Any": n >= 1, "All": n == len(ch[1]), "Xor": n == 1}[ch[0]]
    return int(c) if concrete else ite(c, 1, 0)


def json_record(case, k):
    kids = CHILD_SETS[case["kids"]]
    t = case["type"]
    if t == "Imply":
        rec = {"type": "Imply", "condition": _child_record(kids[0]), "consequence": _child_record(kids[-1])}
    elif t == "Not":
        rec = {"type": "Not", "proposition": _child_record(kids[-1])}
    else:
        rec = {"type": t, "propositions": [_child_record(x) for x in kids]}
        if t in ("AtLeast", "AtMost"):
            rec["value"] = k
    if case["id"] and t != "Not":
        rec["id"] = "TOP"
    return rec, kids


def json_spec(case, k, env, concrete=False):
    _, kids = json_record(case, k)
    t = case["type"]
    tv = [_child_truth(x, env, concrete) for x in kids]
    n = _count(tv)
    if t == "Imply":
        c = bor(tv[0] == 0, tv[-1] == 1) if not concrete else (tv[0] == 0 or tv[-1] == 1)
    elif t == "Not":
        c = tv[-1] == 0
    else:
        c = {"All": lambda: n == len(tv), "Any": lambda: n >= 1, "AtLeast": lambda: n >= k, "AtMost": lambda: n <= k,
             "Xor": lambda: n == 1, "XNor": lambda: bnot(n == 1) if not concrete else n != 1}[t]()
    return int(bool(c)) if concrete else ite(c, 1, 0)


class JsonRecordH(Harness):
    """plog.from_json on hand-written records of every type over 1-3 children (leaves, or nested Any / All / Xor records), with
    and without an explicit id; thresholds of AtLeast / AtMost are SYMBOLIC (at-least-k for k >= 1 -- k <= 0 selects the
    documented negative default sign --, at-most-k for every integer k incl. negative ones): the truth function of the model
    read is the documented connective for every 0/1 assignment."""
    name = "from_json(records)"
    function = "from_json"
    module = "puan.logic.plog"
    functions = ["from_json", "AtLeast.from_json", "AtMost.from_json", "All.from_json", "Any.from_json", "Xor.from_json",
                 "XNor.from_json", "Imply.from_json", "Not.from_json", ("puan", "variable.from_json")]

    def cases(self):
        out = []
        for t in JSON_TYPES:
            for ki in range(len(CHILD_SETS)):
                for wid in (False, True):
                    if t == "Not" and wid:
                        continue
                    out.append({"type": t, "kids": ki, "id": wid})
        return out

    def setup(self, c, case):
        k = SInt(z3.Int("k.value"))
        if case["type"] == "AtLeast":
            c.assume_global(k.t >= 1)
        rec, kids = json_record(case, k)
        used = sorted({x for ch in kids for x in ([ch] if isinstance(ch, str) else ch[1])})
        env = {x: SInt(z3.Int(f"x.{x}")) for x in used}
        for x in used:
            c.assume_global(z3.And(env[x].t >= 0, env[x].t <= 1))
        return {"rec": rec, "env": env, "k": k}

    def run(self, c, st):
        return c.repo.plog.from_json(st["rec"])

    def ensures(self, c, st, res):
        out = [("json.truth", truth(res, st["env"]) == json_spec(c.state_case, st["k"], st["env"]))]
        if c.state_case["id"]:
            out.append(("json.id", res.id == "TOP"))
        return out

    def concretise(self, case, k, model, c, st):
        return {"case": dict(case), "k": _mv(model, st["k"].t), "x": {k_: _mv(model, v.t) for k_, v in st["env"].items()}}

    def replay(self, w):
        import json
        import puan.logic.plog as pg
        k = int(w["k"])
        if w["case"]["type"] == "AtLeast":
            k = max(k, 1)
        rec, kids = json_record(w["case"], k)
        used = sorted(w["x"])
        first = {x: min(max(int(v), 0), 1) for x, v in w["x"].items()}
        violated, detail = [], {"record": rec}
        for env in [first] + [dict(zip(used, bits)) for bits in itertools.product((0, 1), repeat=len(used))]:
            m = pg.from_json(json.loads(json.dumps(rec)))
            got = m.evaluate(dict(env))
            want = json_spec(w["case"], k, env, concrete=True)
            if got.constant != want:
                violated.append("json.truth"); detail.update(model=m.to_text(), assignment=env, evaluate=str(got), documented=want)
                break
        if w["case"]["id"] and pg.from_json(json.loads(json.dumps(rec))).id != "TOP":
            violated.append("json.id")
        return {"violated": violated, "detail": detail}


HARNESSES = [CicJEH(), JsonRecordH()]
