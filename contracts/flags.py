"""C06 (second half): AtLeast._equation_mm / equation_bounds / is_tautology / is_contradiction under contract.

For every valuation v of the children inside their bounds:
   is_tautology      =>  sign * sum(v) >= value
   is_contradiction  =>  sign * sum(v) <  value
   equation_bounds   ==  (min, max) of sign*sum(v) - value over the box; both ends attained (v = lo / v = hi per sign)
"""
import z3
from pyvc.sym import SInt, ctx
from pyvc.nodes import band, bor, bnot, implies, fsum, ite
from pyvc.engine import Harness
from .common import new_base, new_family, child_invariants, mk_atleast, Bo, _mv, concretise_children, build_children


def valuation(c, fam):
    """an arbitrary valuation of the children inside their bounds: symbol v.X(i)"""
    i = fam.base.ivar
    v = fam.fn("v")(i)
    c.add_pointwise(i, z3.And(fam.fn("lo")(i) <= v, v <= fam.fn("hi")(i)))
    return lambda node: node.sym("v")


class FlagsH(Harness):
    xcheck = 2
    name = "AtLeast.flags"
    function = "AtLeast.is_tautology"
    functions = ["AtLeast._equation_mm", "AtLeast.equation_bounds", "AtLeast.is_tautology", "AtLeast.is_contradiction"]

    def cases(self):
        return [{"sign": 1}, {"sign": -1}]

    def setup(self, c, case):
        repo = c.repo
        base = new_base(c, "X")
        fam = new_family(c, "X", base)
        child_invariants(c, fam)
        val = valuation(c, fam)
        # the node's own variable may be fixed ((0,0) / (1,1)) or free: the flags describe the node's inequality over its
        # children's values, whatever its own variable says
        from .assume import own_bounds
        own = own_bounds(c)
        node = mk_atleast(c, repo, repo.plog.AtLeast, "self", fam, case["sign"], False, own_bounds=own)
        return {"self": node, "fam": fam, "val": val, "own": own}

    def run(self, c, st):
        n = st["self"]
        return {"eb": n.equation_bounds, "taut": n.is_tautology, "contra": n.is_contradiction}

    def ensures(self, c, st, res):
        n, val = st["self"], st["val"]
        s = fsum(n.propositions, val)
        lhs = n.sign * s
        lo_end = fsum(n.propositions, lambda x: x.sym("lo") if n.sign > 0 else x.sym("hi"))
        hi_end = fsum(n.propositions, lambda x: x.sym("hi") if n.sign > 0 else x.sym("lo"))
        eb = res["eb"]
        return [
            ("taut.sound", implies(res["taut"], lhs >= n.value)),
            ("contra.sound", implies(res["contra"], lhs < n.value)),
            ("eqb.contains", band(eb[0] <= lhs - n.value, lhs - n.value <= eb[1])),
            ("eqb.attained.min", eb[0] == n.sign * lo_end - n.value),
            ("eqb.attained.max", eb[1] == n.sign * hi_end - n.value),
            ("taut.complete", implies(bnot(res["taut"]), n.sign * lo_end < n.value)),
            ("contra.complete", implies(bnot(res["contra"]), n.sign * hi_end >= n.value)),
        ]

    def concretise(self, case, k, model, c, st):
        kids = concretise_children(model, st["fam"], k, None, extra_int=("v",))
        return {"value": _mv(model, st["self"].value.t), "sign": case["sign"], "children": kids,
                "own": [_mv(model, st["own"][0].t), _mv(model, st["own"][1].t)]}

    def replay(self, w):
        import puan.logic.plog as pg
        for k in w["children"]:
            k["tv"] = k.get("v", k["lo"])
        kids, env = build_children(w["children"])
        # a compound child takes part with its own 0/1 variable: its valuation is its v (0 or 1)
        import puan
        node = pg.AtLeast(w["value"], kids, variable=puan.variable("A", tuple(w.get("own", (0, 1)))), sign=w["sign"])
        vals = [k.get("v", k["lo"]) for k in w["children"]]
        lhs = w["sign"] * sum(vals)
        eb = node.equation_bounds
        violated = []
        if node.is_tautology and not lhs >= w["value"]:
            violated.append("taut.sound")
        if node.is_contradiction and not lhs < w["value"]:
            violated.append("contra.sound")
        if not (eb[0] <= lhs - w["value"] <= eb[1]):
            violated.append("eqb.contains")
        los = [k["lo"] if k["kind"] == "atom" else 0 for k in w["children"]]
        his = [k["hi"] if k["kind"] == "atom" else 1 for k in w["children"]]
        cands = [w["sign"] * sum(los) - w["value"], w["sign"] * sum(his) - w["value"]]
        if eb[0] != min(cands):
            violated.append("eqb.attained.min")
        if eb[1] != max(cands):
            violated.append("eqb.attained.max")
        if not node.is_tautology and not min(cands) < 0:
            violated.append("taut.complete")
        if not node.is_contradiction and not max(cands) >= 0:
            violated.append("contra.complete")
        return {"violated": violated, "detail": {"model": node.to_text(), "valuation": vals,
                                                  "equation_bounds": [int(x) for x in eb],
                                                  "is_tautology": bool(node.is_tautology),
                                                  "is_contradiction": bool(node.is_contradiction)}}


HARNESSES = [FlagsH()]
