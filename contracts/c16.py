"""C16 -- JSON round trip of every class in the JSON class map (real to_json / from_json source).

For a node x of class K built by the real constructor over an abstract child list:
    y = plog.from_json(x.to_json())
    rt.truth   truth(y, env) == truth(x, env)            for every in-bounds total env
    rt.id      an explicit id is kept; a generated id is not emitted ('id' not in the record)
Children: leaves run the real variable.to_json / variable.from_json; compound children use the `to_json` / `from_json`
contracts (the same two clauses as induction hypothesis).  json.dumps/json.loads is the identity on these records (assumed).
"""
import z3
from pyvc.sym import SInt, SId, ctx
from pyvc.folds import Seq, Gen, unwrap
from pyvc.nodes import Contract, Family, band, bor, bnot, implies, is_abs
from pyvc.models import AbsJson
from pyvc.engine import Harness
from .common import new_base, new_family, child_invariants, env_total_in_bounds, AbsEnv, Bo, concretise_children, build_children, _mv
from .specs import truth
from .c05 import negate_contract
from .c04 import single_node


def ens_rt_truth(self, result):
    env = ctx().env
    return truth(result, env) == truth(self, env)


def ens_rt_id(self, result):
    return implies(bnot(self.generated_id), result.id == self.id)


def ens_rt_bounds(self, result):
    return band(result.bounds.lower == self.bounds.lower, result.bounds.upper == self.bounds.upper)


def contracts():
    return {
        "negate": negate_contract(),
        "to_json": Contract("to_json", "value", [], arg_key=lambda: (), result_factory=lambda node: AbsJson(node)),
        "from_json": Contract("from_json", "compound", [ens_rt_truth, ens_rt_id], arg_key=lambda: ()),
    }


def int_children(c, name="X"):
    base = new_base(c, name, distinct=True)
    fam = new_family(c, name, base)
    child_invariants(c, fam)
    c.env = AbsEnv("e")
    env_total_in_bounds(c, fam, c.env)
    return fam, Seq([Gen(base, z3.BoolVal(True), fam.at(base.ivar))])


class _RT(Harness):
    xcheck = 2
    module = "puan.logic.plog"
    # "explicit-any": an explicitly given id about which nothing is known (symbolic): it may look like a generated one
    ids = (("explicit", "A"), ("generated", None), ("explicit-any", "<symbolic>"))

    def contracts(self, repo):
        return contracts()

    def cases(self):
        return [{"id": k} for k, _ in self.ids]

    def vid(self, case):
        v = dict(self.ids)[case["id"]]
        if v == "<symbolic>":
            from pyvc.sym import SId
            c = ctx()
            c.symbolic_ids = True
            g = z3.Int("given.id")
            fam = c.families.get("X")
            if fam is not None and fam.base is not None:
                c.add_pointwise(fam.base.ivar, fam.fn("id")(fam.base.ivar) != g)
            return SId(g)
        return v

    def setup(self, c, case):
        fam, xs = int_children(c)
        return {"xs": xs, "k": SInt(z3.Int("k"))}

    def run(self, c, st):
        x = self.build(c, st, self.vid(c.state_case))
        st["x"] = x
        js = x.to_json()
        st["js"] = js
        return c.repo.plog.from_json(js)

    def ensures(self, c, st, res):
        x, js = st["x"], st["js"]
        env = c.env
        out = [("rt.truth", truth(res, env) == truth(x, env))]
        if c.state_case["id"] in ("explicit", "explicit-any"):
            out.append(("rt.id-kept", res.id == x.id))
        else:
            out.append(("rt.no-generated-id-emitted", "id" not in js))
        return out

    # replay ----------------------------------------------------------------------------------------------------
    def concretise(self, case, k, model, c, st):
        w = {"case": dict(case)}
        if "xs" in st:
            w["children"] = concretise_children(model, c.families["X"], k, c.env)
        for nm in ("p", "q"):
            if nm in st:
                w[nm] = concretise_children(model, st[nm]._fam, 1, c.env)[0]
                w[nm]["id"] = nm + w[nm]["id"]
        w["k"] = _mv(model, st["k"].t) if "k" in st else None
        if case.get("id") == "explicit-any":
            from .common import concrete_id
            w["vid"] = concrete_id(c, model, z3.Int("given.id"), "G")
        return w

    def replay(self, w):
        """generated ids are sha256 digests of the child ids: which of two generated siblings sorts first is not
        determined by the counter-model, so a few renamings of the leaves are tried"""
        last = None
        for attempt in range(16):
            last = self._replay_once(w, attempt)
            if last["violated"]:
                return last
        return last

    def _replay_once(self, w, attempt):
        import json
        import copy
        import puan.logic.plog as pg
        descr = copy.deepcopy(list(w.get("children", [])) + [w[n] for n in ("p", "q") if n in w])
        if attempt:
            for d in descr:
                d["id"] = d["id"] + "_" * attempt if attempt % 2 else "r%d%s" % (attempt, d["id"])
        kids, env = build_children(descr)
        vid = w.get("vid", dict(self.ids)[w["case"]["id"]])
        x = self.build_native(pg, w, kids, vid)
        js = json.loads(json.dumps(x.to_json()))
        y = pg.from_json(js)
        a = self.build_native(pg, w, build_children(descr)[0], vid).evaluate(dict(env))
        b = y.evaluate(dict(env))
        violated = []
        if tuple(a.as_tuple()) != tuple(b.as_tuple()):
            violated.append("rt.truth")
        if vid is not None and y.id != x.id:
            violated.append("rt.id-kept")
        if vid is None and "id" in js:
            violated.append("rt.no-generated-id-emitted")
        return {"violated": violated, "detail": {"model": x.to_text(), "json": js, "interpretation": env,
                                                  "evaluate(original)": [int(t) for t in a.as_tuple()],
                                                  "evaluate(roundtrip)": [int(t) for t in b.as_tuple()],
                                                  "renaming_attempt": attempt}}


class AtLeastRT(_RT):
    name = "json:AtLeast"
    function = "AtLeast.to_json"
    functions = ["AtLeast.to_json", "AtLeast.from_json", "from_json", ("puan", "variable.to_json"), ("puan", "variable.from_json")]

    def cases(self):
        return [{"id": k, "sign": s} for k, _ in self.ids for s in (None, 1, -1)]

    def build(self, c, st, vid):
        return c.repo.plog.AtLeast(st["k"], st["xs"], variable=vid, sign=c.state_case["sign"])

    def build_native(self, pg, w, kids, vid):
        return pg.AtLeast(w["k"], kids, variable=vid, sign=w["case"]["sign"])


class AtMostRT(_RT):
    name = "json:AtMost"
    function = "AtMost.to_json"
    functions = ["AtMost.to_json", "AtMost.from_json"]

    def build(self, c, st, vid):
        return c.repo.plog.AtMost(st["k"], st["xs"], variable=vid)

    def build_native(self, pg, w, kids, vid):
        return pg.AtMost(w["k"], kids, variable=vid)


class AllRT(_RT):
    name = "json:All"
    function = "All.to_json"
    functions = ["All.to_json", "All.from_json"]

    def build(self, c, st, vid):
        return c.repo.plog.All(*st["xs"], variable=vid)

    def build_native(self, pg, w, kids, vid):
        return pg.All(*kids, variable=vid)


class AnyRT(_RT):
    name = "json:Any"
    function = "Any.to_json"
    functions = ["Any.to_json", "Any.from_json"]

    def build(self, c, st, vid):
        return c.repo.plog.Any(*st["xs"], variable=vid)

    def build_native(self, pg, w, kids, vid):
        return pg.Any(*kids, variable=vid)


class XorRT(_RT):
    name = "json:Xor"
    function = "Xor.to_json"
    functions = ["Xor.to_json", "Xor.from_json"]

    def build(self, c, st, vid):
        return c.repo.plog.Xor(*st["xs"], variable=vid)

    def build_native(self, pg, w, kids, vid):
        return pg.Xor(*kids, variable=vid)


class XNorRT(_RT):
    name = "json:XNor"
    function = "XNor.to_json"
    functions = ["XNor.to_json", "XNor.from_json", "XNor.__init__"]

    def build(self, c, st, vid):
        return c.repo.plog.XNor(*st["xs"], variable=vid)

    def build_native(self, pg, w, kids, vid):
        return pg.XNor(*kids, variable=vid)


class ImplyRT(_RT):
    name = "json:Imply"
    function = "Imply.to_json"
    functions = ["Imply.to_json", "Imply.from_json", "Imply.__init__"]

    def setup(self, c, case):
        c.env = AbsEnv("e")
        return {"p": single_node(c, "P"), "q": single_node(c, "Q")}

    def build(self, c, st, vid):
        return c.repo.plog.Imply(st["p"], st["q"], variable=vid)

    def build_native(self, pg, w, kids, vid):
        return pg.Imply(kids[0], kids[1], variable=vid)


class VariableRT(Harness):
    name = "json:variable"
    function = "variable.to_json"
    module = "puan"
    functions = [("puan", "variable.to_json"), ("puan", "variable.from_json")]

    def setup(self, c, case):
        from .common import mk_variable
        lo, hi = z3.Int("v.lo"), z3.Int("v.hi")
        c.assume_global(lo <= hi)
        return {"v": mk_variable(c.repo, SId(z3.Int("v.id")), SInt(lo), SInt(hi))}

    def run(self, c, st):
        return c.repo.plog.from_json(st["v"].to_json())

    def ensures(self, c, st, res):
        v = st["v"]
        return [("rt.leaf", band(res.id == v.id, res.bounds.lower == v.bounds.lower, res.bounds.upper == v.bounds.upper))]

    def concretise(self, case, k, model, c, st):
        v = st["v"]
        return {"lo": _mv(model, v.bounds.lower.t), "hi": _mv(model, v.bounds.upper.t)}

    def replay(self, w):
        import json
        import puan
        import puan.logic.plog as pg
        v = puan.variable("x", (w["lo"], w["hi"]))
        js = json.loads(json.dumps(v.to_json()))
        y = pg.from_json(js)
        ok = y.id == v.id and y.bounds.as_tuple() == v.bounds.as_tuple()
        return {"violated": [] if ok else ["rt.leaf"], "detail": {"variable": repr(v), "json": js, "roundtrip": repr(y)}}


HARNESSES = [VariableRT(), AtLeastRT(), AtMostRT(), AllRT(), AnyRT(), XorRT(), XNorRT(), ImplyRT()]


# ------------------------------------------------------------------------------------------------------------------
# configurator classes (defaults and therefore default priorities survive the round trip)
# ------------------------------------------------------------------------------------------------------------------

def cc_classes(repo):
    cc = repo.load("puan.modules.configurator")
    pg = repo.plog
    return cc, [repo.puan.variable, pg.AtLeast, pg.AtLeast, pg.AtMost, pg.All, cc.Any, cc.Xor, pg.Not, pg.XNor, pg.Imply]


def _tagged(node):
    """does the node carry the -2 tagged non-default branch (cc.Any restructuring)?"""
    props = node.propositions
    items = props if isinstance(props, list) else [s[1] for s in props.segs if type(s) is not Gen]
    return any(getattr(x, "prio", None) == -2 for x in items)


class CcAnyRT(_RT):
    name = "json:cc.Any"
    function = "Any.to_json"
    module = "puan.modules.configurator"
    functions = ["Any.to_json", "Any.from_json", "Any.__init__"]
    xcheck = 0

    def cases(self):
        # a default list of two entries, given in an order that is not the sorted one: the order is part of the record
        return [{"id": "explicit", "default": d} for d in (None, "d")] + [{"id": "explicit", "default": "e", "second": "d"}]

    @staticmethod
    def _defaults(case):
        d = case["default"]
        return None if not d else [d] + ([case["second"]] if case.get("second") else [])

    def setup(self, c, case):
        fam, xs = int_children(c)
        c.symbolic_ids = True
        # wf: child ids are pairwise distinct, so at most one child is the default
        from pyvc.nodes import fsum, ite
        for d in ("d", "e"):
            n_def = fsum(xs, lambda x: ite(band(x.atom_truth(), x.id == d), 1, 0))
            c.assume_global(n_def <= 1)
        return {"xs": xs}

    def run(self, c, st):
        cc, classes = cc_classes(c.repo)
        x = cc.Any(*st["xs"], default=self._defaults(c.state_case), variable="A")
        st["x"] = x
        js = x.to_json()
        st["js"] = js
        return c.repo.plog.from_json(js, classes)

    def ensures(self, c, st, res):
        x, env = st["x"], c.env
        out = [("rt.truth", truth(res, env) == truth(x, env)), ("rt.id-kept", res.id == x.id)]
        if c.state_case["default"]:
            out.append(("rt.default-kept", [v.id for v in getattr(res, "default", [])] == [v.id for v in x.default]))
            out.append(("rt.default-branch-tag-kept", _tagged(res) == _tagged(x)))
        return out

    cls_name = "Any"

    def concretise(self, case, k, model, c, st):
        from pyvc.sym import intern_id
        fam = c.families["X"]
        kids = concretise_children(model, fam, k, c.env)
        for j, d in enumerate(kids):
            if d["kind"] != "atom":
                continue
            for name in ("d", "e"):
                if z3.is_true(model.eval(fam.fn("id")(z3.IntVal(j)) == intern_id(name).t, model_completion=True)):
                    d["id"] = name
        return {"case": dict(case), "children": kids}

    def replay(self, w):
        import json
        import puan
        import puan.logic.plog as pg
        import puan.modules.configurator as cc
        classes = [puan.variable, pg.AtLeast, pg.AtLeast, pg.AtMost, pg.All, cc.Any, cc.Xor, pg.Not, pg.XNor, pg.Imply]
        defaults = self._defaults(w["case"])
        kids, env = build_children(w["children"])
        if len({k.id for k in kids}) != len(kids):
            return {"violated": [], "detail": {"note": "witness has two children with one id (outside the precondition)"}}
        mk = lambda ks: getattr(cc, self.cls_name)(*ks, default=list(defaults) if defaults else None, variable="A")
        x = mk(kids)
        js = json.loads(json.dumps(x.to_json()))
        y = pg.from_json(js, classes)
        violated, detail = [], {"model": x.to_text(), "json": js, "roundtrip": y.to_text() if hasattr(y, "to_text") else repr(y)}
        a = mk(build_children(w["children"])[0]).evaluate(dict(env))
        b = y.evaluate(dict(env))
        if tuple(a.as_tuple()) != tuple(b.as_tuple()):
            violated.append("rt.truth")
        if y.id != x.id:
            violated.append("rt.id-kept")
        if defaults:
            if [v.id for v in getattr(y, "default", [])] != [v.id for v in x.default]:
                violated.append("rt.default-kept")
                detail["default"] = [[str(v.id) for v in x.default], [str(v.id) for v in getattr(y, "default", [])]]
            tag = lambda n: sorted(str(t.id) for t in n.flatten() if getattr(t, "prio", None) == -2)
            if self.cls_name == "Any" and tag(x) != tag(y):
                violated.append("rt.default-branch-tag-kept")
        return {"violated": violated, "detail": detail}


class CcXorRT(CcAnyRT):
    name = "json:cc.Xor"
    cls_name = "Xor"
    function = "Xor.to_json"
    functions = ["Xor.to_json", "Xor.from_json", "Xor.__init__"]

    def run(self, c, st):
        cc, classes = cc_classes(c.repo)
        x = cc.Xor(*st["xs"], default=self._defaults(c.state_case), variable="A")
        st["x"] = x
        js = x.to_json()
        st["js"] = js
        return c.repo.plog.from_json(js, classes)

    def ensures(self, c, st, res):
        x, env = st["x"], c.env
        out = [("rt.truth", truth(res, env) == truth(x, env)), ("rt.id-kept", res.id == x.id)]
        if c.state_case["default"]:
            out.append(("rt.default-kept", [v.id for v in getattr(res, "default", [])] == [v.id for v in x.default]))
        return out


class StingyRT(_RT):
    name = "json:StingyConfigurator"
    function = "StingyConfigurator.to_json"
    module = "puan.modules.configurator"
    functions = ["StingyConfigurator.to_json", "StingyConfigurator.from_json", "StingyConfigurator.__init__"]
    xcheck = 0

    def cases(self):
        return [{"id": "explicit"}]

    def setup(self, c, case):
        fam, xs = int_children(c)
        return {"xs": xs}

    def run(self, c, st):
        cc, classes = cc_classes(c.repo)
        x = cc.StingyConfigurator(*st["xs"], id="cfg")
        st["x"] = x
        js = x.to_json()
        st["js"] = js
        return cc.StingyConfigurator.from_json(js)

    def ensures(self, c, st, res):
        x, env = st["x"], c.env
        cc, _ = cc_classes(c.repo)
        return [("rt.truth", truth(res, env) == truth(x, env)), ("rt.id-kept", res.id == x.id),
                ("rt.class", type(res) is cc.StingyConfigurator)]

    def concretise(self, case, k, model, c, st):
        return {"case": dict(case), "children": concretise_children(model, c.families["X"], k, c.env)}

    def replay(self, w):
        import json
        import puan.modules.configurator as cc
        kids, env = build_children(w["children"])
        if not kids or len({k.id for k in kids}) != len(kids):
            return {"violated": [], "detail": {"note": "witness outside the precondition"}}
        x = cc.StingyConfigurator(*kids, id="cfg")
        js = json.loads(json.dumps(x.to_json()))
        y = cc.StingyConfigurator.from_json(js)
        a = cc.StingyConfigurator(*build_children(w["children"])[0], id="cfg").evaluate(dict(env))
        b = y.evaluate(dict(env))
        violated = []
        if tuple(a.as_tuple()) != tuple(b.as_tuple()):
            violated.append("rt.truth")
        if y.id != x.id:
            violated.append("rt.id-kept")
        if type(y) is not cc.StingyConfigurator:
            violated.append("rt.class")
        return {"violated": violated, "detail": {"model": x.to_text(), "json": js, "roundtrip": y.to_text(), "interpretation": env}}


HARNESSES += [CcAnyRT(), CcXorRT(), StingyRT()]
