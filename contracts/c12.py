"""C12 (and the step functions of C11, C19, C20 that share the layer) -- ge_polyhedron numerics under contract.

The real method bodies of puan/ndarray/__init__.py run on pyvc.symnd arrays of a *fixed small shape* whose entries
(coefficients, right-hand sides, variable bounds, points) are symbolic integers: an obligation proved here holds for all
integer matrices / bound boxes / points of that shape (bounded in shape, unbounded in values).  Shapes: see SHAPES.
Assumptions S1 (int64 arithmetic mathematical) and S2 (`/` exact, floor exact: float rounding not modelled).
"""
import itertools
import z3
from pyvc.sym import SInt, SBool, ctx, lift, to_bterm, site
from pyvc.nodes import band, bor, bnot, implies
from pyvc.engine import Harness
from pyvc import symnd

SHAPES = [(1, 1), (1, 2), (2, 1), (2, 2)]
# wider shapes for the obligations that stay (piecewise) linear per entry: row bounds, never-widen, combination counts
WIDE = [(1, 3), (3, 1), (2, 3)]


# column ids deliberately not in sorted order (a seeded change iterated `sorted(variables)` in column_bounds: with ids
# v0, v1, ... it was invisible)
COL_IDS = ["q", "c", "m", "a", "x"]


def sym_polyhedron(c, rows, cols, coef=None, ids=None):
    """ge_polyhedron of the real class with symbolic entries; bounds lo_j <= hi_j inside the default integer range"""
    repo = c.repo
    pnd = repo.load("puan.ndarray")
    puan = repo.puan
    A = [[SInt(z3.Int(f"a{i}{j}")) if coef is None else coef[i][j] for j in range(cols)] for i in range(rows)]
    b = [SInt(z3.Int(f"b{i}")) for i in range(rows)]
    lo = [SInt(z3.Int(f"lo{j}")) for j in range(cols)]
    hi = [SInt(z3.Int(f"hi{j}")) for j in range(cols)]
    for j in range(cols):
        c.assume_global(z3.And(lo[j].t <= hi[j].t, lo[j].t >= -32768, hi[j].t <= 32767))
    from .common import mk_variable
    vs = [puan.variable(0, (1, 1))] + [mk_variable(repo, ids[j] if ids else f"v{j}", lo[j], hi[j]) for j in range(cols)]
    M = [[b[i]] + A[i] for i in range(rows)]
    p = pnd.ge_polyhedron(M, variables=vs, index=[puan.variable(f"r{i}") for i in range(rows)])
    return p, A, b, lo, hi


def point(c, cols, lo, hi, name="x"):
    x = [SInt(z3.Int(f"{name}{j}")) for j in range(cols)]
    for j in range(cols):
        c.assume_global(z3.And(lo[j].t <= x[j].t, x[j].t <= hi[j].t))
    return x


def dot(row, x):
    t = 0
    for a, v in zip(row, x):
        t = t + a * v
    return t


class _Arr(Harness):
    xcheck = 2
    module = "puan.ndarray"
    numpy_mode = "sym"

    def cases(self):
        return [{"rows": r, "cols": k} for r, k in SHAPES]

    def begin_call(self, c):
        c.nd_epoch = 1

    # -- replay on the real numpy-based code ------------------------------------------------------------------------
    def concretise(self, case, k, model, c, st):
        from .common import _mv
        g = lambda v: _mv(model, v.t) if hasattr(v, "t") else int(v)
        w = {"A": [[g(a) for a in row] for row in st["A"]], "lo": [g(v) for v in st["lo"]], "hi": [g(v) for v in st["hi"]]}
        if "b" in st:
            w["b"] = [g(v) for v in st["b"]]
        if "x" in st:
            w["x"] = [g(v) for v in st["x"]]
        return w

    col_ids = None          # C12's own harnesses: COL_IDS

    def build_native(self, w, b=None):
        import numpy as np
        import puan
        import puan.ndarray as pnd
        b = b if b is not None else w.get("b", [0] * len(w["A"]))
        M = np.array([[bi] + list(row) for bi, row in zip(b, w["A"])], dtype=np.int64)
        vs = [puan.variable(0, (1, 1))] + [puan.variable(self.col_ids[j] if self.col_ids else f"v{j}", (l, h)) for j, (l, h) in enumerate(zip(w["lo"], w["hi"]))]
        return pnd.ge_polyhedron(M, variables=vs, index=[puan.variable(f"r{i}") for i in range(len(w["A"]))])

    def native_violations(self, p, w):
        """names of the obligations of this harness that fail on the concrete polyhedron p (brute force over its box)"""
        raise NotImplementedError

    def replay(self, w):
        import itertools as it
        tried = []
        base_b = w.get("b", [0] * len(w["A"]))
        # the witness itself, then right-hand sides near it (the counter-model may rest on a value that numpy leaves
        # unspecified in the model, e.g. the result of a division by zero)
        cands = [base_b] + [[bi + d for bi in base_b] for d in (1, -1, 2, -2, 5, -5)]
        for b in cands:
            p = self.build_native(w, b)
            bad = self.native_violations(p, dict(w, b=b))
            tried.append({"b": b, "violated": bad})
            if bad:
                return {"violated": bad, "detail": {"matrix": p.tolist(), "bounds": list(zip(w["lo"], w["hi"])), "tried": tried}}
        return {"violated": [], "detail": {"tried": tried}}


def _box(w, limit=20000):
    """all integer points of the box when it is small; otherwise its corners, near-corner points and a random sample"""
    import random
    rngs = [range(l, h + 1) for l, h in zip(w["lo"], w["hi"])]
    size = 1
    for r_ in rngs:
        size *= len(r_)
    if size <= limit:
        return itertools.product(*rngs)
    rnd = random.Random(1)
    ends = [sorted({l, min(l + 1, h), max(h - 1, l), h, min(max(0, l), h)}) for l, h in zip(w["lo"], w["hi"])]
    pts = set(itertools.product(*ends))
    if "x" in w:
        pts.add(tuple(w["x"]))
    for _ in range(2000):
        pts.add(tuple(rnd.randint(l, h) for l, h in zip(w["lo"], w["hi"])))
    return sorted(pts)


class _WideArr(_Arr):
    col_ids = COL_IDS

    def cases(self):
        return [{"rows": r, "cols": k} for r, k in SHAPES + WIDE]


class RowBoundsH(_WideArr):
    name = "ge_polyhedron.row_bounds"
    function = "ge_polyhedron.row_bounds"
    functions = ["ge_polyhedron.row_bounds", "ge_polyhedron.column_bounds", "ge_polyhedron.A", "ge_polyhedron.b",
                 "variable_ndarray.__new__"]

    def setup(self, c, case):
        p, A, b, lo, hi = sym_polyhedron(c, case["rows"], case["cols"], ids=COL_IDS)
        return {"p": p, "A": A, "b": b, "lo": lo, "hi": hi, "x": point(c, case["cols"], lo, hi)}

    def native_violations(self, p, w):
        import numpy as np
        A, b = np.asarray(p.A), np.asarray(p.b)
        rb = np.asarray(p.row_bounds()).tolist()
        bad = set()
        for i in range(A.shape[0]):
            vals = [int(A[i].dot(np.array(pt))) - int(b[i]) for pt in _box(w)]
            if rb[i][0] > min(vals) or rb[i][1] < max(vals):
                bad.add(f"row_bounds.contains[{i}]")
            if rb[i][0] != min(vals) or rb[i][1] != max(vals):
                bad.add(f"row_bounds.attained[{i}]")
        return sorted(bad)

    def run(self, c, st):
        self.begin_call(c)
        return st["p"].row_bounds()

    def ensures(self, c, st, res):
        A, b, lo, hi, x = st["A"], st["b"], st["lo"], st["hi"], st["x"]
        out = []
        rb = res.tolist()
        for i in range(len(A)):
            val = dot(A[i], x) - b[i]
            vmin = dot(A[i], [site(A[i][j] >= 0, lo[j], hi[j]) for j in range(len(x))]) - b[i]
            vmax = dot(A[i], [site(A[i][j] >= 0, hi[j], lo[j]) for j in range(len(x))]) - b[i]
            out.append((f"row_bounds.contains[{i}]", band(rb[i][0] <= val, val <= rb[i][1])))
            out.append((f"row_bounds.attained[{i}]", band(rb[i][0] == vmin, rb[i][1] == vmax)))
        return out


def _tighten_native(p, w):
    import numpy as np
    A, b = np.asarray(p.A), np.asarray(p.b)
    lb, ub = [list(map(float, r)) for r in np.asarray(p.tighten_column_bounds(), dtype=float)]
    bad = set()
    pts = _box(w)
    for j in range(len(w["lo"])):
        if lb[j] < w["lo"][j] or ub[j] > w["hi"][j]:
            bad.add(f"tighten.no-widen[{j}]")
    for pt in pts:
        x = np.array(pt, dtype=np.int64)
        if (A.dot(x) >= b).all():
            for j in range(len(pt)):
                if not (lb[j] <= pt[j] <= ub[j]):
                    bad.add(f"tighten.sound[{j}]")
    return sorted(bad)


class TightenH(_Arr):
    col_ids = COL_IDS
    name = "ge_polyhedron.tighten_column_bounds"
    function = "ge_polyhedron.tighten_column_bounds"
    functions = ["ge_polyhedron.tighten_column_bounds", "ge_polyhedron.row_bounds", "ge_polyhedron.A_max", "ge_polyhedron.column_bounds"]

    def cases(self):
        return [{"rows": r, "cols": k} for r, k in SHAPES]

    def setup(self, c, case):
        p, A, b, lo, hi = sym_polyhedron(c, case["rows"], case["cols"], ids=COL_IDS)
        if "signs" in case:
            flat = [A[i][j] for i in range(case["rows"]) for j in range(case["cols"])]
            for a, sgn in zip(flat, case["signs"]):
                c.assume_global(a.t < 0 if sgn == "-" else (a.t == 0 if sgn == "0" else a.t > 0))
        x = point(c, case["cols"], lo, hi)
        for i in range(case["rows"]):
            c.assume_global(to_bterm(dot(A[i], x) >= b[i]))      # x is an in-bounds integer solution
        return {"p": p, "A": A, "b": b, "lo": lo, "hi": hi, "x": x}

    def native_violations(self, p, w):
        return _tighten_native(p, w)

    def run(self, c, st):
        self.begin_call(c)
        return st["p"].tighten_column_bounds()

    def ensures(self, c, st, res):
        lo, hi, x = st["lo"], st["hi"], st["x"]
        A, b = st["A"], st["b"]
        lb, ub = res.tolist()
        out = []
        # small non-linear lemmas first (each its own obligation; proved ones are assumed afterwards): a term of a row
        # is bounded by the extreme the code computes for it
        for i in range(len(A)):
            for k in range(len(x)):
                amax = site(A[i][k] > 0, hi[k] * A[i][k], site(A[i][k] < 0, lo[k] * A[i][k], 0))
                out.append((f"lemma:term-max[{i},{k}]", A[i][k] * x[k] <= amax))
        for i in range(len(A)):
            for j in range(len(x)):
                rest = 0
                for k in range(len(x)):
                    if k != j:
                        rest = rest + site(A[i][k] > 0, hi[k] * A[i][k], site(A[i][k] < 0, lo[k] * A[i][k], 0))
                out.append((f"lemma:isolate[{i},{j}]", A[i][j] * x[j] >= b[i] - rest))
        for j in range(len(x)):
            out.append((f"tighten.sound[{j}]", band(lb[j] <= x[j], x[j] <= ub[j])))
            out.append((f"tighten.no-widen[{j}]", band(lb[j] >= lo[j], ub[j] <= hi[j])))
        return out


class TightenNoWidenH(_WideArr):
    """never widens -- also when the polyhedron has no solution"""
    name = "ge_polyhedron.tighten_column_bounds/no-widen"
    function = "ge_polyhedron.tighten_column_bounds"

    def setup(self, c, case):
        p, A, b, lo, hi = sym_polyhedron(c, case["rows"], case["cols"], ids=COL_IDS)
        return {"p": p, "lo": lo, "hi": hi, "A": A, "b": b}

    def native_violations(self, p, w):
        return [v for v in _tighten_native(p, w) if "no-widen" in v]

    def run(self, c, st):
        self.begin_call(c)
        return st["p"].tighten_column_bounds()

    def ensures(self, c, st, res):
        lb, ub = res.tolist()
        return [(f"tighten.no-widen[{j}]", band(lb[j] >= st["lo"][j], ub[j] <= st["hi"][j])) for j in range(len(lb))]


class NRowCombH(_WideArr):
    name = "ge_polyhedron.n_row_combinations"
    function = "ge_polyhedron.n_row_combinations"

    def setup(self, c, case):
        p, A, b, lo, hi = sym_polyhedron(c, case["rows"], case["cols"], ids=COL_IDS)
        return {"p": p, "A": A, "lo": lo, "hi": hi}

    def native_violations(self, p, w):
        import numpy as np
        got = np.asarray(p.n_row_combinations).tolist()
        bad = []
        for i, row in enumerate(w["A"]):
            want = 1
            for a, l, h in zip(row, w["lo"], w["hi"]):
                if a != 0:
                    want *= (h - l + 1)
            if int(got[i]) != want:
                bad.append(f"n_row_combinations[{i}]")
        return bad

    def run(self, c, st):
        self.begin_call(c)
        return st["p"].n_row_combinations

    def ensures(self, c, st, res):
        A, lo, hi = st["A"], st["lo"], st["hi"]
        got = res.tolist()
        out = []
        for i in range(len(A)):
            want = 1
            for j in range(len(lo)):
                want = want * site(A[i][j] != 0, hi[j] - lo[j] + 1, 1)
            out.append((f"n_row_combinations[{i}]", got[i] == want))
        return out


HARNESSES = [RowBoundsH(), TightenH(), TightenNoWidenH(), NRowCombH()]
