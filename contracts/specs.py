"""Spec (ghost) functions of the contracts.  Plain Python over the pyvc.nodes helpers, so that the same text is
(1) executed symbolically on proxies by pyvc (unfolded one level; bottoming out in uninterpreted spec symbols on
abstract nodes) and (2) executed natively on real puan objects by the rt engine (replay, cross-check, bounded stand-ins).
"""
from pyvc.nodes import fsum, fall, fany, ite, band, bor, bnot, implies, is_abs
from pyvc.folds import unwrap

try:  # symbolic side
    from pyvc.sym import SInt
except Exception:  # pragma: no cover
    SInt = ()


def is_variable(node):
    """True for leaves (puan.variable and subclasses), decided by class like the library does"""
    cls = node.__class__
    return any(k.__name__ == "variable" and k.__module__ == "puan" for k in cls.__mro__)


def env_value(env, vid):
    """value of a leaf id under a total interpretation with int values"""
    if hasattr(env, "lo"):
        return env.lo(vid)
    v = env[vid]
    return v


def truth(node, env):
    """arithmetic truth function: leaves take env's value; a compound is 1 iff sign * sum(children) >= value"""
    node = unwrap(node)
    if is_abs(node):
        return node.sym("tv@" + env_name(env))
    if is_variable(node):
        return env_value(env, node.id)
    s = fsum(node.propositions, lambda c: truth(c, env))
    return ite(node.sign * s >= node.value, 1, 0)


def env_name(env):
    return getattr(env, "name", "env")


def solver_safe(node):
    """no compound child sits under a negatively signed parent (recursively)"""
    node = unwrap(node)
    if is_abs(node):
        return node.sym_bool("safe")
    if is_variable(node):
        return True
    kids_ok = fall(node.propositions, lambda c: band(solver_safe(c), bor(node.sign > 0, is_variable_t(c))))
    return kids_ok


def is_variable_t(node):
    """is_variable as a truth *term* (no forking on abstract nodes)"""
    node = unwrap(node)
    if is_abs(node):
        return node.atom_truth()
    return is_variable(node)


# ------------------------------------------------------------------------------------------------------------------
# interval semantics (C03, C06, C07)
# ------------------------------------------------------------------------------------------------------------------

def env_has(env, vid):
    if hasattr(env, "has"):
        return env.has(vid)
    return vid in env


def env_interval(env, vid):
    """(lo, hi) of the value stored under vid: int -> (v,v); tuple -> itself; Bounds -> as_tuple"""
    if hasattr(env, "lo"):
        return env.lo(vid), env.hi(vid)
    v = env[vid]
    if hasattr(v, "as_tuple"):
        return tuple(v.as_tuple())
    if isinstance(v, tuple):
        return (v[0], v[1])
    return (v, v)


def pair_ite(c, a, b):
    return ite(c, a[0], b[0]), ite(c, a[1], b[1])


def ival(node, d):
    """interval value of a node under a (partial, interval valued) interpretation d.

    leaf: d's entry if present, else its bounds.  compound: `own` = d's entry for its id if present else its own
    variable's bounds; if `own` is a constant the node takes it (C03's override clause); otherwise the 0/1 interval
    ([sign*sum >= value] at the children's lower ends, ... upper ends; ends swapped for a negative sign)."""
    node = unwrap(node)
    if is_abs(node):
        return node_ival_symbols(node, d)
    if is_variable(node):
        return pair_ite(env_has(d, node.id), env_interval(d, node.id) if _may_have(d, node.id) else (0, 0),
                        (node.bounds.lower, node.bounds.upper))
    own = pair_ite(env_has(d, node.id), env_interval(d, node.id) if _may_have(d, node.id) else (0, 0),
                   (node.bounds.lower, node.bounds.upper))
    slo = fsum(node.propositions, lambda c: ival(c, d)[0])
    shi = fsum(node.propositions, lambda c: ival(c, d)[1])
    if _is_true(node.sign > 0):
        comp = (ite(slo >= node.value, 1, 0), ite(shi >= node.value, 1, 0))
    else:
        comp = (ite(-shi >= node.value, 1, 0), ite(-slo >= node.value, 1, 0))
    return pair_ite(own[0] == own[1], own, comp)


def _is_true(x):
    return bool(x)


def _may_have(d, vid):
    """native dicts raise on missing keys; symbolic envs are total functions"""
    if hasattr(d, "has"):
        return True
    return vid in d


def node_ival_symbols(node, d):
    import z3
    from pyvc.sym import ctx, to_term
    lo, hi = node.sym("ilo@" + d.name), node.sym("ihi@" + d.name)
    atom = node.atom_term()
    vid = node._var().id
    has = d.has(vid)
    dlo, dhi = d.lo(vid), d.hi(vid)
    from pyvc.sym import to_bterm
    c = ctx()
    c.axiom(z3.Implies(atom, z3.And(
        lo.t == z3.If(to_bterm(has), dlo.t, to_term(node.sym("lo"))),
        hi.t == z3.If(to_bterm(has), dhi.t, to_term(node.sym("hi"))))))
    # lemma ival/wf (proved by the spec-level harness IvalWfLemma): lower end <= upper end
    c.axiom(lo.t <= hi.t)
    # by definition of ival on a compound node (one unfolding): it is the node's `own` interval if that is a constant,
    # and a 0/1 interval otherwise
    own_lo = z3.If(to_bterm(has), dlo.t, to_term(node.sym("lo")))
    own_hi = z3.If(to_bterm(has), dhi.t, to_term(node.sym("hi")))
    c.axiom(z3.Implies(z3.Not(atom), z3.If(own_lo == own_hi, z3.And(lo.t == own_lo, hi.t == own_lo),
                                           z3.And(lo.t >= 0, hi.t <= 1))))
    return lo, hi


def truth3(node, e, d=None):
    """C03's truth function with the override clause: leaves take their value from e (which fixes every leaf to an
    integer); a compound whose own id is given a constant by d (default: e), or whose own bounds are constant, takes
    that constant; otherwise the arithmetic truth function of its children."""
    node = unwrap(node)
    d = e if d is None else d
    if is_abs(node):
        return node.sym("t3@" + env_name(e) + ("" if d is e else "/" + env_name(d)))
    if is_variable(node):
        return env_interval(e, node.id)[0]
    own = pair_ite(env_has(d, node.id), env_interval(d, node.id) if _may_have(d, node.id) else (0, 0),
                   (node.bounds.lower, node.bounds.upper))
    s = fsum(node.propositions, lambda c: truth3(c, e, d))
    return ite(own[0] == own[1], own[0], ite(node.sign * s >= node.value, 1, 0))
