"""Spec (ghost) functions of the contracts.  Plain Python over the pyvc.nodes helpers, so that the same text is
(1) executed symbolically on proxies by pyvc (unfolded one level; bottoming out in uninterpreted spec symbols on
abstract nodes) and (2) executed natively on real puan objects by the rt engine (replay, cross-check, bounded stand-ins).
"""
from pyvc.nodes import fsum, fall, fany, ite, band, bor, bnot, implies, is_abs

try:  # symbolic side
    from pyvc.sym import SInt
except Exception:  # pragma: no cover
    SInt = ()


def is_variable(node):
    """True for leaves (puan.variable and subclasses), decided by class like the library does"""
    cls = node.__class__
    return any(k.__name__ == "variable" and k.__module__ == "puan" for k in cls.__mro__)


def env_value(env, vid):
    """value of a leaf id under a total interpretation with int values"""
    if hasattr(env, "lo"):
        return env.lo(vid)
    v = env[vid]
    return v


def truth(node, env):
    """arithmetic truth function: leaves take env's value; a compound is 1 iff sign * sum(children) >= value"""
    if is_abs(node):
        return node.sym("tv@" + env_name(env))
    if is_variable(node):
        return env_value(env, node.id)
    s = fsum(node.propositions, lambda c: truth(c, env))
    return ite(node.sign * s >= node.value, 1, 0)


def env_name(env):
    return getattr(env, "name", "env")


def solver_safe(node):
    """no compound child sits under a negatively signed parent (recursively)"""
    if is_abs(node):
        return node.sym_bool("safe")
    if is_variable(node):
        return True
    kids_ok = fall(node.propositions, lambda c: band(solver_safe(c), bor(node.sign > 0, is_variable_t(c))))
    return kids_ok


def is_variable_t(node):
    """is_variable as a truth *term* (no forking on abstract nodes)"""
    if is_abs(node):
        return node.atom_truth()
    return is_variable(node)
