"""C10 -- validation accepts exactly the well-defined models: the deductive part.

`AtLeast.errors()` is one `maz.compose` expression.  Its two ambivalence checks have the shape
    |{ key(x) : x in occurrences }|  ==  |{ id(x) : x in occurrences }|
and its duplicate-edge check counts `edge(parent, child)` keys.  By the Lean lemma `card_image_comp_iff`
(lean/Background.lean) such a check accepts exactly when every id has one key -- PROVIDED the key function identifies
two nodes exactly when they have the same id and the same definition.  That proviso is what this module proves, for all
ids, bounds, signs, values and child ids, on the key functions *extracted mechanically from the real source text* of
errors() on every run (ast pattern match; what is dropped: everything of errors() except the key expressions; if the
pattern is not found the obligations are UNSUPPORTED, never a violation):

  key.variable   key(a) == key(b)  <=>  a.id == b.id  and  a.bounds == b.bounds
  key.compound   key(a) == key(b)  <=>  ids, own bounds, sign, value and the tuples of child ids are equal
  key.edge       edge(x, y) == edge(x', y')  <=>  x.id == x'.id and y.id == y'.id
  id.projection  the right-hand side of each check projects exactly the id

The traversal (`_occurrences` lists every occurrence), the cycle check and the glue are covered by the bounded stand-in.
"""
import ast
import z3
from pyvc.sym import SInt, SId, SBool, ctx, lift, to_bterm, Unsupported
from pyvc.nodes import band, bor, bnot, implies
from pyvc.engine import Harness
from .common import mk_variable, mk_bounds, _mv


def extract(repo):
    """-> dict with compiled key functions from the real source of AtLeast.errors"""
    path, src = repo.sources["puan.logic.plog"]
    tree = ast.parse(src)
    fn = None
    for node in ast.walk(tree):
        if isinstance(node, ast.ClassDef) and node.name == "AtLeast":
            for ch in node.body:
                if isinstance(ch, ast.FunctionDef) and ch.name == "errors":
                    fn = ch
    if fn is None:
        raise Unsupported("AtLeast.errors not found")

    def is_attr(n, base, attr):
        return isinstance(n, ast.Attribute) and n.attr == attr and isinstance(n.value, ast.Name) and n.value.id == base

    def partial_map_arg(call):
        """functools.partial(map, K) -> K"""
        if isinstance(call, ast.Call) and is_attr(call.func, "functools", "partial") and len(call.args) == 2 \
                and isinstance(call.args[0], ast.Name) and call.args[0].id == "map":
            return call.args[1]
        return None

    def card_chain(call):
        """maz.compose(len, set, functools.partial(map, K), ...) -> K"""
        if isinstance(call, ast.Call) and is_attr(call.func, "maz", "compose") and len(call.args) >= 3:
            a = call.args
            if isinstance(a[0], ast.Name) and a[0].id == "len" and isinstance(a[1], ast.Name) and a[1].id == "set":
                return partial_map_arg(a[2])
        return None

    pairs = []
    edge = None
    for node in ast.walk(fn):
        if isinstance(node, ast.Call) and is_attr(node.func, "maz", "fnmap") and len(node.args) == 2:
            ka, kb = card_chain(node.args[0]), card_chain(node.args[1])
            if ka is not None and kb is not None:
                pairs.append((node.lineno, ka, kb))
        if isinstance(node, ast.Call) and is_attr(node.func, "maz", "compose") and node.args \
                and isinstance(node.args[0], ast.Name) and node.args[0].id == "any":
            for a in node.args:
                k = partial_map_arg(a)
                if isinstance(k, ast.Lambda) and isinstance(k.body, ast.Call):
                    edge = k
    pairs.sort(key=lambda t: t[0])
    ns = repo.plog.__dict__

    def comp(node):
        expr = ast.Expression(node)
        ast.fix_missing_locations(expr)
        return eval(compile(expr, path, "eval"), ns)

    class Found(dict):
        """what the pattern match found; a key function that was not found is reported when it is asked for, so the
        other obligations are still generated"""
        def __getitem__(self, k):
            if k not in self:
                raise Unsupported(f"errors(): the expression of `{k}` does not match the extraction pattern "
                                  f"(found {len(pairs)} cardinality checks and {'one' if edge is not None else 'no'} edge lister)")
            return dict.__getitem__(self, k)
    out = Found()
    if len(pairs) == 2:
        out.update({"var_key": comp(pairs[0][1]), "var_id": comp(pairs[0][2]), "comp_key": comp(pairs[1][1]),
                    "comp_id": comp(pairs[1][2])})
    if edge is not None:
        out["edge"] = comp(edge)
    return out


def sym_var(c, name):
    lo, hi = z3.Int(f"{name}.lo"), z3.Int(f"{name}.hi")
    c.assume_global(lo <= hi)
    return mk_variable(c.repo, SId(z3.Int(f"{name}.id")), SInt(lo), SInt(hi))


def sym_compound(c, name, sign, nchildren):
    repo = c.repo
    n = object.__new__(repo.plog.AtLeast)
    d = n.__dict__
    d["generated_id"] = False
    d["sign"] = sign
    d["value"] = SInt(z3.Int(f"{name}.value"))
    olo, ohi = z3.Int(f"{name}.lo"), z3.Int(f"{name}.hi")
    c.assume_global(z3.And(0 <= olo, olo <= ohi, ohi <= 1))
    d["variable"] = mk_variable(repo, SId(z3.Int(f"{name}.id")), SInt(olo), SInt(ohi))
    d["propositions"] = [sym_var(c, f"{name}.c{k}") for k in range(nchildren)]
    return n


def eq_term(x, y):
    """truth value of x == y as the running code would compute it (tuples compare natively, forking where needed)"""
    r = (x == y)
    return r


class VarKeyH(Harness):
    name = "errors.key.variable"
    function = "AtLeast.errors"

    def setup(self, c, case):
        c.symbolic_ids = True
        k = extract(c.repo)
        return {"k": k, "a": sym_var(c, "a"), "b": sym_var(c, "b")}

    def run(self, c, st):
        k, a, b = st["k"], st["a"], st["b"]
        return {"key": eq_term(k["var_key"](a), k["var_key"](b)), "id": eq_term(k["var_id"](a), k["var_id"](b))}

    def ensures(self, c, st, res):
        a, b = st["a"], st["b"]
        same_id = a.id == b.id
        same_def = band(same_id, a.bounds.lower == b.bounds.lower, a.bounds.upper == b.bounds.upper)
        return [("key.variable.sound", implies(res["key"], same_def)),
                ("key.variable.complete", implies(same_def, res["key"])),
                ("id.projection", band(implies(res["id"], same_id), implies(same_id, res["id"])))]

    def refute_hints(self, c, st):
        return [st["a"].id == st["b"].id]

    def concretise(self, case, k, model, c, st):
        a, b = st["a"], st["b"]
        ida, idb = _mv(model, a.id.t), _mv(model, b.id.t)
        return {"a": ["v", [_mv(model, a.bounds.lower.t), _mv(model, a.bounds.upper.t)]],
                "b": ["v" if ida == idb else "w", [_mv(model, b.bounds.lower.t), _mv(model, b.bounds.upper.t)]]}

    def replay(self, w):
        """two leaves with these definitions under different parents: errors() must flag them iff ids equal and
        definitions differ"""
        import puan
        import puan.logic.plog as pg
        a = puan.variable(w["a"][0], tuple(w["a"][1]))
        b = puan.variable(w["b"][0], tuple(w["b"][1]))
        m = pg.All(pg.Any(a, "u", variable="U"), pg.Any(b, "t", variable="T"), variable="TOP")
        errs = m.errors()
        ill = (a.id == b.id and a.bounds.as_tuple() != b.bounds.as_tuple())
        bad = (errs == []) == ill
        return {"violated": ["key.variable.sound", "key.variable.complete"] if bad else [],
                "detail": {"model": m.to_text(), "errors": [str(e) for e in errs], "ill_defined": ill}}


class CompKeyH(Harness):
    name = "errors.key.compound"
    function = "AtLeast.errors"

    def cases(self):
        return [{"sa": sa, "sb": sb, "na": na, "nb": nb} for sa in (1, -1) for sb in (1, -1) for na, nb in ((1, 1), (1, 2), (2, 2))]

    def setup(self, c, case):
        c.symbolic_ids = True
        k = extract(c.repo)
        return {"k": k, "a": sym_compound(c, "a", case["sa"], case["na"]), "b": sym_compound(c, "b", case["sb"], case["nb"])}

    def run(self, c, st):
        k, a, b = st["k"], st["a"], st["b"]
        return {"key": eq_term(k["comp_key"](a), k["comp_key"](b)), "id": eq_term(k["comp_id"](a), k["comp_id"](b))}

    def ensures(self, c, st, res):
        a, b = st["a"], st["b"]
        same_id = a.id == b.id
        kids = len(a.propositions) == len(b.propositions)
        same_kids = band(*[x.id == y.id for x, y in zip(a.propositions, b.propositions)]) if kids else False
        same_def = band(same_id, a.bounds.lower == b.bounds.lower, a.bounds.upper == b.bounds.upper, a.sign == b.sign,
                        a.value == b.value, same_kids)
        return [("key.compound.sound", implies(res["key"], same_def)),
                ("key.compound.complete", implies(same_def, res["key"])),
                ("id.projection", band(implies(res["id"], same_id), implies(same_id, res["id"])))]


class EdgeKeyH(Harness):
    name = "errors.key.edge"
    function = "AtLeast.errors"

    def setup(self, c, case):
        c.symbolic_ids = True
        k = extract(c.repo)
        return {"k": k, "a": sym_compound(c, "a", 1, 1), "b": sym_compound(c, "b", 1, 1)}

    def run(self, c, st):
        k, a, b = st["k"], st["a"], st["b"]
        ea, eb = list(k["edge"](a)), list(k["edge"](b))
        if len(ea) != 1 or len(eb) != 1:
            raise Unsupported("edge lister does not yield one key per child")
        return {"key": eq_term(ea[0], eb[0])}

    def ensures(self, c, st, res):
        a, b = st["a"], st["b"]
        same = band(a.id == b.id, a.propositions[0].id == b.propositions[0].id)
        return [("key.edge.sound", implies(res["key"], same)), ("key.edge.complete", implies(same, res["key"]))]


HARNESSES = [VarKeyH(), CompKeyH(), EdgeKeyH()]
