"""C08 -- AtLeast.reduce under contract.

  post.bounds    result.bounds == ival(self, {})                (what the node's own variable may still be)
  post.meaning   for every interpretation e of leaves inside their bounds:  ival(result, e) == ival(self, e)
                 (leaves / sub-propositions with constant bounds take their constants: that is what ival does)
  post.noconst   the result is a bare variable, or a compound with non-constant bounds none of whose children has
                 constant bounds (recursively: spec symbol `noconst` on abstract children)
  post.id, post.inv
"""
import z3
from pyvc.sym import SInt, SId, ctx
from pyvc.nodes import Contract, AbsEnv, is_abs, band, bor, bnot, implies, fall
from pyvc.folds import unwrap
from pyvc.engine import Harness
from .common import new_base, new_family, child_invariants, mk_atleast, Bo, _mv, ints
from .specs import ival, is_variable, is_variable_t
from .assume import bounds_eq, pair_eq, own_bounds


class EmptyEnv(AbsEnv):
    def __init__(self):
        AbsEnv.__init__(self, "0", ("int",))

    def _wf(self, k):
        AbsEnv._wf(self, k)
        ctx().axiom(z3.Not(self.f_has(k)))


_NATIVE = {}


def envs():
    from pyvc.sym import have_ctx
    if have_ctx():
        c = ctx()
        return c.empty, c.e
    return {}, _NATIVE["e"]


def noconst(node):
    node = unwrap(node)
    if is_abs(node):
        return bor(node.atom_truth(), node.sym_bool("noconst"))
    if is_variable(node):
        return True
    b = node.bounds
    return band(b.lower != b.upper,
                fall(node.propositions, lambda ch: band(unwrap(ch).bounds.lower != unwrap(ch).bounds.upper, noconst(ch))))


def ens_bounds(self, result):
    empty, e = envs()
    return bounds_eq(result.bounds, ival(self, empty))


def ens_meaning(self, result):
    empty, e = envs()
    return pair_eq(ival(result, e), ival(self, e))


def ens_noconst(self, result):
    return noconst(result)


def ens_id(self, result):
    return result.id == self.id


def ens_inv(self, result):
    b = result.bounds
    return band(b.lower <= b.upper, bor(is_variable_t(result), band(b.lower >= 0, b.upper <= 1)))


REDUCE_ENSURES = [("post.bounds", ens_bounds), ("post.meaning", ens_meaning), ("post.noconst", ens_noconst),
                  ("post.id", ens_id), ("post.inv", ens_inv)]


def reduce_contract():
    return Contract("reduce", "node", [e for _, e in REDUCE_ENSURES], arg_key=lambda: ())


def setup_reduce_envs(c, node, fam):
    c.empty = EmptyEnv()
    c.e = AbsEnv("e", ("int", "tuple", "bounds"))
    i = fam.base.ivar
    e = c.e
    atom = fam.fn("atom", Bo)(i)
    vid = fam.fn("id")(i)
    # e mentions leaves only, with values they can take
    c.assume_global(z3.Not(e.f_has(node.variable.id.t)))
    c.add_pointwise(i, z3.Implies(z3.Not(atom), z3.Not(e.f_has(vid))))
    c.add_pointwise(i, z3.Implies(z3.And(atom, e.f_has(vid)),
                                  z3.And(fam.fn("lo")(i) <= e.f_lo(vid), e.f_hi(vid) <= fam.fn("hi")(i))))
    # lemma.refine (contracts.assume.RefineLemma, instance d = {}): ival(X, e) is inside ival(X, {})
    c.add_pointwise(i, z3.Implies(z3.Not(atom), z3.And(fam.fn("ilo@0")(i) <= fam.fn("ilo@e")(i),
                                                       fam.fn("ihi@e")(i) <= fam.fn("ihi@0")(i))))
    c.add_pointwise(i, vid != node.variable.id.t)


class ReduceH(Harness):
    xcheck = 2
    name = "AtLeast.reduce"
    function = "AtLeast.reduce"

    def cases(self):
        return [{"sign": 1}, {"sign": -1}]

    def contracts(self, repo):
        return {"reduce": reduce_contract()}

    def setup(self, c, case):
        repo = c.repo
        base = new_base(c, "X")
        fam = new_family(c, "X", base)
        child_invariants(c, fam)
        own = own_bounds(c)
        node = mk_atleast(c, repo, repo.plog.AtLeast, "self", fam, case["sign"], False, own_bounds=own)
        setup_reduce_envs(c, node, fam)
        return {"self": node, "fam": fam, "own": own}

    def run(self, c, st):
        return st["self"].reduce()

    def ensures(self, c, st, res):
        return [(n, e(st["self"], res)) for n, e in REDUCE_ENSURES]

    def concretise(self, case, k, model, c, st):
        fam, node = st["fam"], st["self"]
        kids = []
        for j in range(k):
            J = z3.IntVal(j)
            atom = _mv(model, fam.fn("atom", Bo)(J))
            vid = model.eval(fam.fn("id")(J), model_completion=True)
            d = {"kind": "atom" if atom else "compound", "id": ("x%d" if atom else "C%d") % j,
                 "lo": _mv(model, fam.fn("lo")(J)), "hi": _mv(model, fam.fn("hi")(J))}
            if atom:
                if _mv(model, c.e.f_has(vid)):
                    d["e"] = [_mv(model, c.e.f_lo(vid)), _mv(model, c.e.f_hi(vid))]
            else:
                d["ival_0"] = [_mv(model, fam.fn("ilo@0")(J)), _mv(model, fam.fn("ihi@0")(J))]
                d["ival_e"] = [_mv(model, fam.fn("ilo@e")(J)), _mv(model, fam.fn("ihi@e")(J))]
            kids.append(d)
        return {"value": _mv(model, node.value.t), "sign": case["sign"],
                "own": [_mv(model, st["own"][0].t), _mv(model, st["own"][1].t)], "children": kids}

    @staticmethod
    def build(w):
        import puan
        import puan.logic.plog as pg
        kids, e = [], {}
        for k in w["children"]:
            if k["kind"] == "atom":
                kids.append(puan.variable(k["id"], (k["lo"], k["hi"])))
                if "e" in k:
                    e[k["id"]] = tuple(k["e"]) if k["e"][0] != k["e"][1] else k["e"][0]
            else:
                # a compound child over one leaf whose bounds realise ival under {} and whose value under e realises ival_e
                i0, ie = k.get("ival_0", [0, 1]), k.get("ival_e", [0, 1])
                leaf = "l" + k["id"]
                lb = (i0[0], i0[1]) if i0[0] in (0, 1) and i0[1] in (0, 1) and i0[0] <= i0[1] else (0, 1)
                kids.append(pg.AtLeast(1, [puan.variable(leaf, lb)], variable=puan.variable(k["id"], (k["lo"], k["hi"]))))
                if ie[0] == ie[1] and lb[0] != lb[1]:
                    e[leaf] = ie[0]
        node = pg.AtLeast(w["value"], kids, variable=puan.variable("A", tuple(w["own"])), sign=w["sign"])
        return node, e

    def replay(self, w):
        node, e = self.build(w)
        _NATIVE["e"] = e
        res = node.reduce()
        fresh = self.build(w)[0]
        violated, detail = [], {"model": fresh.to_text(), "interpretation": e,
                                "reduced": res.to_text() if hasattr(res, "to_text") else repr(res)}
        for name, pred in REDUCE_ENSURES:
            ok = bool(pred(fresh, res))
            detail[name] = ok
            if not ok:
                violated.append(name)
        lhs = self.build(w)[0].reduce().evaluate(dict(e))
        rhs = self.build(w)[0].evaluate(dict(e))
        detail["reduce().evaluate(e)"] = ints(lhs)
        detail["evaluate(e)"] = ints(rhs)
        if "post.meaning" in violated and tuple(lhs.as_tuple()) == tuple(rhs.as_tuple()):
            violated.remove("post.meaning")
            violated.append("MISMATCH:post.meaning")
        return {"violated": violated, "detail": detail}


HARNESSES = [ReduceH()]
