"""C04 -- connectives have their documented truth functions (direct constructors).

Every constructor is the real code, called with an abstract, duplicate-free list of children whose truth values are
0/1 (boolean leaves or sub-propositions); the truth function of the constructed node (spec `truth`, unfolded over the
real objects that the constructor builds) is compared with the documented connective.
Imply / Not / XNor go through negate(): on compound arguments by negate's contract (proved in C05).
"""
import z3
from pyvc.sym import SInt, SId, ctx
from pyvc.folds import Seq, Gen
from pyvc.nodes import Family, AbsNode, band, bor, bnot, implies, fsum, fall, fany, ite
from pyvc.engine import Harness
from .common import (ints, new_base, new_family, child_invariants, env_total_in_bounds, AbsEnv, Bo, cur_env,
                     concretise_children, build_children, _mv)
from .specs import truth
from .c05 import negate_contract


def boolean_children(c, name="X"):
    base = new_base(c, name, distinct=True)      # wf: a node does not list the same child twice
    fam = new_family(c, name, base)
    child_invariants(c, fam)
    c.env = AbsEnv("e")
    tv = env_total_in_bounds(c, fam, c.env)
    i = base.ivar
    c.add_pointwise(i, z3.And(tv >= 0, tv <= 1))
    c.add_pointwise(i, z3.Implies(fam.fn("atom", Bo)(i), z3.And(fam.fn("lo")(i) == 0, fam.fn("hi")(i) == 1)))
    return fam, Seq([Gen(base, z3.BoolVal(True), fam.at(i))])


def single_node(c, name):
    fam = Family(name, None, "node")
    c.families[name] = fam
    n = fam.at(z3.IntVal(0))
    J = z3.IntVal(0)
    atom = fam.fn("atom", Bo)(J)
    lo, hi, vid = fam.fn("lo")(J), fam.fn("hi")(J), fam.fn("id")(J)
    env = c.env
    tv = fam.fn(f"tv@{env.name}")(J)
    c.assume_global(z3.And(lo <= hi, tv >= 0, tv <= 1))
    c.assume_global(z3.Implies(atom, z3.And(lo == 0, hi == 1, env.f_has(vid), env.f_lo(vid) == tv, env.f_hi(vid) == tv,
                                            env.f_form(vid) == 0)))
    c.assume_global(z3.Implies(z3.Not(atom), z3.And(lo >= 0, hi <= 1)))
    return n


class _Conn(Harness):
    xcheck = 2
    module = "puan.logic.plog"
    goal = None          # name of the single obligation
    connective = None    # python spec: list of child truth values (and k) -> 0/1

    def contracts(self, repo):
        return {"negate": negate_contract()}

    # -- replay on the real code ----------------------------------------------------------------------------------
    def concretise(self, case, k, model, c, st):
        w = {"case": {a: b for a, b in case.items()}}
        if "xs" in st:
            fam = c.families["X"]
            w["children"] = concretise_children(model, fam, k, c.env)
        for nm in ("p", "q"):
            if nm in st:
                fam = st[nm]._fam
                w[nm] = concretise_children(model, fam, 1, c.env)[0]
                w[nm]["id"] = nm + w[nm]["id"]
        if "k" in st:
            w["k"] = _mv(model, st["k"].t)
        return w

    def construct(self, pg, w, kids):
        raise NotImplementedError

    def replay(self, w):
        import puan.logic.plog as pg
        descr = list(w.get("children", [])) + [w[n] for n in ("p", "q") if n in w]
        for d in descr:
            if d["kind"] == "atom":
                d["lo"], d["hi"] = 0, 1
        kids, env = build_children(descr)
        tvs = [d["tv"] for d in descr]
        node = self.construct(pg, w, kids)
        got = node.evaluate(dict(env))
        exp = self.connective(tvs, w)
        ok = got.constant is not None and int(got.constant) == exp
        return {"violated": [] if ok else [self.goal],
                "detail": {"model": node.to_text(), "interpretation": env, "evaluate": ints(got),
                           "documented_connective_value": exp, "children_truth_values": tvs}}


class AllH(_Conn):
    name = "All.__init__"
    function = "All.__init__"
    functions = ["All.__init__", "AtLeast.__init__"]

    def setup(self, c, case):
        fam, xs = boolean_children(c)
        return {"xs": xs}

    goal = "truth.conjunction"
    connective = staticmethod(lambda tvs, w: int(all(t == 1 for t in tvs)))

    def construct(self, pg, w, kids):
        return pg.All(*kids, variable="A")

    def run(self, c, st):
        return c.repo.plog.All(*st["xs"], variable="A")

    def ensures(self, c, st, res):
        env = c.env
        return [("truth.conjunction", truth(res, env) == ite(fall(st["xs"], lambda x: truth(x, env) == 1), 1, 0))]


class AnyH(_Conn):
    name = "Any.__init__"
    function = "Any.__init__"

    def setup(self, c, case):
        fam, xs = boolean_children(c)
        return {"xs": xs}

    goal = "truth.disjunction"
    connective = staticmethod(lambda tvs, w: int(any(t == 1 for t in tvs)))

    def construct(self, pg, w, kids):
        return pg.Any(*kids, variable="A")

    def run(self, c, st):
        return c.repo.plog.Any(*st["xs"], variable="A")

    def ensures(self, c, st, res):
        env = c.env
        return [("truth.disjunction", truth(res, env) == ite(fany(st["xs"], lambda x: truth(x, env) == 1), 1, 0))]


class AtLeastKH(_Conn):
    name = "AtLeast.__init__"
    function = "AtLeast.__init__"

    def cases(self):
        return [{"sign": None}, {"sign": 1}, {"sign": -1}]

    def setup(self, c, case):
        fam, xs = boolean_children(c)
        return {"xs": xs, "k": SInt(z3.Int("k"))}

    goal = "truth.at_least"

    @staticmethod
    def connective(tvs, w):
        sign = w["case"]["sign"]
        if sign is None:
            sign = 1 if w["k"] > 0 else -1
        return int(sign * sum(tvs) >= w["k"])

    def construct(self, pg, w, kids):
        return pg.AtLeast(w["k"], kids, variable="A", sign=w["case"]["sign"])

    def run(self, c, st):
        case = c.state_case
        return c.repo.plog.AtLeast(st["k"], st["xs"], variable="A", sign=case["sign"])

    def ensures(self, c, st, res):
        env = c.env
        s = fsum(st["xs"], lambda x: truth(x, env))
        sign = c.state_case["sign"]
        if sign is None:
            # documented default: positive if value > 0 else negative
            spec = ite(st["k"] > 0, ite(s >= st["k"], 1, 0), ite(-s >= st["k"], 1, 0))
        else:
            spec = ite(sign * s >= st["k"], 1, 0)
        return [("truth.at_least", truth(res, env) == spec)]


class AtMostH(_Conn):
    name = "AtMost.__init__"
    function = "AtMost.__init__"

    def setup(self, c, case):
        fam, xs = boolean_children(c)
        return {"xs": xs, "k": SInt(z3.Int("k"))}

    goal = "truth.at_most"
    connective = staticmethod(lambda tvs, w: int(sum(tvs) <= w["k"]))

    def construct(self, pg, w, kids):
        return pg.AtMost(w["k"], kids, variable="A")

    def run(self, c, st):
        return c.repo.plog.AtMost(st["k"], st["xs"], variable="A")

    def ensures(self, c, st, res):
        env = c.env
        s = fsum(st["xs"], lambda x: truth(x, env))
        return [("truth.at_most", truth(res, env) == ite(s <= st["k"], 1, 0))]


class IterArgH(_Conn):
    """AtLeast / AtMost built from a one-shot ITERATOR (generator, map object) that mixes proposition objects and
    string ids: the truth function is the same as for a list (every child is kept).  The iterator is modelled by
    pyvc.shim.OneShot: what one consumer exhausts is gone for the next."""
    name = "AtLeast.__init__(iterator)"
    function = "AtLeast.__init__"
    functions = ["AtLeast.__init__", "AtMost.__init__"]
    goal = "truth.iterator-argument"

    def cases(self):
        return [{"cls": "AtLeast", "sign": 1}, {"cls": "AtLeast", "sign": -1}, {"cls": "AtMost", "sign": None}]

    def setup(self, c, case):
        from pyvc.sym import intern_id
        from pyvc.shim import OneShot
        fam, xs = boolean_children(c)
        env = c.env
        zid = intern_id("zz").t
        tvz = z3.Int("tv.zz")
        c.assume_global(z3.And(tvz >= 0, tvz <= 1, env.f_has(zid), env.f_lo(zid) == tvz, env.f_hi(zid) == tvz,
                               env.f_form(zid) == 0))
        c.add_pointwise(fam.base.ivar, fam.fn("id")(fam.base.ivar) != zid)
        arg = OneShot(Seq([s for s in xs.segs if type(s) is Gen] + ["zz"]))
        return {"xs": xs, "arg": arg, "k": SInt(z3.Int("k")), "tvz": SInt(tvz)}

    @staticmethod
    def connective(tvs, w):
        tot = sum(tvs) + w["tvz"]
        if w["case"]["cls"] == "AtMost":
            return int(tot <= w["k"])
        return int(w["case"]["sign"] * tot >= w["k"])

    def construct(self, pg, w, kids):
        it = iter(list(kids) + ["zz"])
        if w["case"]["cls"] == "AtMost":
            return pg.AtMost(w["k"], it, variable="A")
        return pg.AtLeast(w["k"], it, variable="A", sign=w["case"]["sign"])

    def run(self, c, st):
        case = c.state_case
        pg = c.repo.plog
        if case["cls"] == "AtMost":
            return pg.AtMost(st["k"], st["arg"], variable="A")
        return pg.AtLeast(st["k"], st["arg"], variable="A", sign=case["sign"])

    def ensures(self, c, st, res):
        env = c.env
        s = fsum(st["xs"], lambda x: truth(x, env)) + st["tvz"]
        case = c.state_case
        spec = ite(s <= st["k"], 1, 0) if case["cls"] == "AtMost" else ite(case["sign"] * s >= st["k"], 1, 0)
        return [("truth.iterator-argument", truth(res, env) == spec)]

    def concretise(self, case, k, model, c, st):
        w = _Conn.concretise(self, case, k, model, c, st)
        w["tvz"] = _mv(model, st["tvz"].t)
        return w

    def replay(self, w):
        import puan.logic.plog as pg
        descr = list(w.get("children", []))
        for d in descr:
            if d["kind"] == "atom":
                d["lo"], d["hi"] = 0, 1
        kids, env = build_children(descr)
        env = dict(env)
        env["zz"] = w["tvz"]
        tvs = [d["tv"] for d in descr]
        node = self.construct(pg, w, kids)
        got = node.evaluate(dict(env))
        exp = self.connective(tvs, w)
        ok = got.constant is not None and int(got.constant) == exp
        return {"violated": [] if ok else [self.goal],
                "detail": {"model": node.to_text(), "interpretation": env, "evaluate": ints(got),
                           "documented_connective_value": exp, "children_truth_values": tvs + [w["tvz"]]}}


class XorH(_Conn):
    name = "Xor.__init__"
    function = "Xor.__init__"

    def setup(self, c, case):
        fam, xs = boolean_children(c)
        return {"xs": xs}

    goal = "truth.exactly_one"
    connective = staticmethod(lambda tvs, w: int(sum(tvs) == 1))

    def construct(self, pg, w, kids):
        return pg.Xor(*kids, variable="A")

    def run(self, c, st):
        return c.repo.plog.Xor(*st["xs"], variable="A")

    def ensures(self, c, st, res):
        env = c.env
        s = fsum(st["xs"], lambda x: truth(x, env))
        return [("truth.exactly_one", truth(res, env) == ite(s == 1, 1, 0))]


class XNorH(_Conn):
    name = "XNor.__init__"
    function = "XNor.__init__"

    def setup(self, c, case):
        fam, xs = boolean_children(c)
        return {"xs": xs}

    goal = "truth.not_exactly_one"
    connective = staticmethod(lambda tvs, w: int(sum(tvs) != 1))

    def construct(self, pg, w, kids):
        return pg.XNor(*kids, variable="A")

    def run(self, c, st):
        return c.repo.plog.XNor(*st["xs"], variable="A")

    def ensures(self, c, st, res):
        env = c.env
        s = fsum(st["xs"], lambda x: truth(x, env))
        return [("truth.not_exactly_one", truth(res, env) == ite(s == 1, 0, 1))]


class ImplyH(_Conn):
    name = "Imply.__init__"
    function = "Imply.__init__"

    def setup(self, c, case):
        c.env = AbsEnv("e")
        p = single_node(c, "P")
        q = single_node(c, "Q")
        return {"p": p, "q": q}

    goal = "truth.implication"
    connective = staticmethod(lambda tvs, w: int(tvs[0] == 0 or tvs[1] == 1))

    def construct(self, pg, w, kids):
        return pg.Imply(kids[0], kids[1], variable="A")

    def run(self, c, st):
        return c.repo.plog.Imply(st["p"], st["q"], variable="A")

    def ensures(self, c, st, res):
        env = c.env
        tp, tq = truth(st["p"], env), truth(st["q"], env)
        return [("truth.implication", truth(res, env) == ite(bor(tp == 0, tq == 1), 1, 0))]


class NotH(_Conn):
    name = "Not.__new__"
    function = "Not.__new__"

    def setup(self, c, case):
        c.env = AbsEnv("e")
        return {"p": single_node(c, "P")}

    goal = "truth.negation"
    connective = staticmethod(lambda tvs, w: 1 - tvs[0])

    def construct(self, pg, w, kids):
        return pg.Not(kids[0])

    def run(self, c, st):
        return c.repo.plog.Not(st["p"])

    def ensures(self, c, st, res):
        env = c.env
        return [("truth.negation", truth(res, env) == 1 - truth(st["p"], env))]


HARNESSES = [AllH(), AnyH(), AtLeastKH(), AtMostH(), XorH(), XNorH(), ImplyH(), NotH(), IterArgH()]
