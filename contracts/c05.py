"""C05 -- Negation is the exact complement and stays in solver-safe form.

Function under contract: puan.logic.plog.AtLeast.negate (real source, executed symbolically), Not.__new__.
"""
import z3
from pyvc.sym import SInt, ctx, lift
from pyvc.nodes import Contract, is_abs, band, bor, bnot, implies, fall
from pyvc.engine import Harness
from pyvc.folds import unwrap
from .common import (new_base, new_family, child_invariants, env_total_in_bounds, mk_atleast, cur_env, AbsEnv, Bo,
                     concretise_children, build_children, set_native_env, _mv)
from .specs import truth, solver_safe, is_variable, is_variable_t


def boolean_leaves(node):
    node = unwrap(node)
    if is_abs(node):
        atom = node.atom_truth()
        return bor(band(atom, node.sym("lo") == 0, node.sym("hi") == 1), band(bnot(atom), node.sym_bool("boolleaves")))
    if is_variable(node):
        return band(node.bounds.lower == 0, node.bounds.upper == 1)
    return fall(node.propositions, boolean_leaves)


# postconditions of negate, transcribed from the property statement ------------------------------------------------
def ens_complement(self, result):
    env = cur_env()
    return truth(result, env) == 1 - truth(self, env)


def ens_safe(self, result):
    return implies(band(solver_safe(self), boolean_leaves(self)), band(solver_safe(result), boolean_leaves(result)))


def ens_id(self, result):
    return implies(bnot(self.generated_id), result.id == self.id)


NEGATE_ENSURES = [("post.complement", ens_complement), ("post.safe", ens_safe), ("post.id", ens_id)]


def negate_contract():
    return Contract("negate", "compound", [e for _, e in NEGATE_ENSURES], arg_key=lambda: ())


class NegateH(Harness):
    xcheck = 2
    name = "AtLeast.negate"
    function = "AtLeast.negate"

    def cases(self):
        return [{"sign": s, "generated_id": g} for s in (1, -1) for g in (False, True)]

    def contracts(self, repo):
        return {"negate": negate_contract()}

    def setup(self, c, case):
        repo = c.repo
        base = new_base(c, "X")
        fam = new_family(c, "X", base)
        child_invariants(c, fam)
        c.env = AbsEnv("e")
        env_total_in_bounds(c, fam, c.env)
        node = mk_atleast(c, repo, repo.plog.AtLeast, "self", fam, case["sign"], case["generated_id"])
        return {"self": node, "fam": fam}

    def run(self, c, st):
        return st["self"].negate()

    def ensures(self, c, st, res):
        out = [(n, e(st["self"], res)) for n, e in NEGATE_ENSURES]
        out.append(("inv.sign", bor(res.sign == 1, res.sign == -1)))
        return out


    def concretise(self, case, k, model, c, st):
        kids = concretise_children(model, st["fam"], k, c.env, extra_bool=("safe", "boolleaves"))
        return {"value": _mv(model, st["self"].value.t), "sign": case["sign"], "generated_id": case["generated_id"],
                "children": kids}

    @staticmethod
    def build(w):
        import puan.logic.plog as pg
        kids, env = build_children(w["children"])
        node = pg.AtLeast(w["value"], kids, variable=None if w["generated_id"] else "A", sign=w["sign"])
        return node, env

    def replay(self, w):
        """run the real negate() on the concretised witness; evaluate the contract predicates natively and the
        property as stated (through the real evaluate())"""
        node, env = self.build(w)
        set_native_env(env)
        neg = node.negate()
        violated, detail = [], {}
        for name, pred in NEGATE_ENSURES:
            ok = bool(pred(node, neg))
            detail[name] = ok
            if not ok:
                violated.append(name)
        a = self.build(w)[0].evaluate(dict(env))
        b = self.build(w)[0].negate().evaluate(dict(env))
        detail["evaluate(original)"] = list(a.as_tuple())
        detail["evaluate(negated)"] = list(b.as_tuple())
        detail["model"] = self.build(w)[0].to_text()
        detail["negated_model"] = neg.to_text()
        detail["interpretation"] = env
        if "post.complement" in violated and not (a.constant is not None and b.constant is not None
                                                 and a.constant + b.constant != 1):
            detail["note"] = "spec-level complement failed but real evaluate() does not show it"
            violated.remove("post.complement")
            violated.append("MISMATCH:post.complement")
        return {"violated": violated, "detail": detail}


HARNESSES = [NegateH()]
