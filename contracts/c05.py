"""C05 -- Negation is the exact complement and stays in solver-safe form.

Function under contract: puan.logic.plog.AtLeast.negate (real source, executed symbolically), Not.__new__.
"""
import z3
from pyvc.sym import SInt, ctx, lift
from pyvc.nodes import Contract, is_abs, band, bor, bnot, implies, fall
from pyvc.engine import Harness
from .common import (new_base, new_family, child_invariants, env_total_in_bounds, mk_atleast, cur_env, AbsEnv, Bo)
from .specs import truth, solver_safe, is_variable, is_variable_t


def boolean_leaves(node):
    if is_abs(node):
        atom = node.atom_truth()
        return bor(band(atom, node.sym("lo") == 0, node.sym("hi") == 1), band(bnot(atom), node.sym_bool("boolleaves")))
    if is_variable(node):
        return band(node.bounds.lower == 0, node.bounds.upper == 1)
    return fall(node.propositions, boolean_leaves)


# postconditions of negate, transcribed from the property statement ------------------------------------------------
def ens_complement(self, result):
    env = cur_env()
    return truth(result, env) == 1 - truth(self, env)


def ens_safe(self, result):
    return implies(band(solver_safe(self), boolean_leaves(self)), band(solver_safe(result), boolean_leaves(result)))


def ens_id(self, result):
    return implies(bnot(self.generated_id), result.id == self.id)


NEGATE_ENSURES = [("post.complement", ens_complement), ("post.safe", ens_safe), ("post.id", ens_id)]


def negate_contract():
    return Contract("negate", "compound", [e for _, e in NEGATE_ENSURES], arg_key=lambda: ())


class NegateH(Harness):
    name = "AtLeast.negate"
    function = "AtLeast.negate"

    def cases(self):
        return [{"sign": s, "generated_id": g} for s in (1, -1) for g in (False, True)]

    def contracts(self, repo):
        return {"negate": negate_contract()}

    def setup(self, c, case):
        repo = c.repo
        base = new_base(c, "X")
        fam = new_family(c, "X", base)
        child_invariants(c, fam)
        c.env = AbsEnv("e")
        env_total_in_bounds(c, fam, c.env)
        node = mk_atleast(c, repo, repo.plog.AtLeast, "self", fam, case["sign"], case["generated_id"])
        return {"self": node, "fam": fam}

    def run(self, c, st):
        return st["self"].negate()

    def ensures(self, c, st, res):
        out = [(n, e(st["self"], res)) for n, e in NEGATE_ENSURES]
        out.append(("inv.sign", bor(res.sign == 1, res.sign == -1)))
        return out


HARNESSES = [NegateH()]
