"""C15 -- solver bridge: objectives, solutions and ids stay aligned (real source of AtLeast.solve (custom-solver
branch), ge_polyhedron_config.select, StingyConfigurator.select on the symbolic ndarray layer).

The polyhedron handed over comes from to_ge_polyhedron / _vectors_from_prios, which are under contract elsewhere (C01,
C13/C14); here they are replaced on the receiver by stubs that return a prepared polyhedron / objective matrix with
symbolic entries, and the solver is a recording stub returning a symbolic vector and None.

  solve/poly        the solver receives exactly the polyhedron of to_ge_polyhedron(active=True, reduced=try_reduce_before)
  solve/objective   entry j of each objective vector == weights.get(id of column j of A, 0)
  solve/result      {id_j: solution_j} over the columns of A, compounds with generated ids omitted unless asked for;
                    None -> {}; objective value and status code passed through
  select/*          likewise for ge_polyhedron_config.select (objectives = _vectors_from_prios(prios) row by row)
  select/exception  an exception raised by the solver leaves as InfeasibleError
  stingy/only_leafs StingyConfigurator.select keeps exactly the leaf ids when only_leafs is set, everything otherwise
"""
import itertools
import z3
from pyvc.sym import SInt, SBool, ctx, lift, to_bterm, site
from pyvc.nodes import band, bor, bnot, implies
from pyvc.engine import Harness
from pyvc import symnd
from .common import mk_variable


class _B(Harness):
    numpy_mode = "sym"

    def begin_call(self, c):
        c.nd_epoch = 1


def _columns(c, k_vars, k_comp):
    """column objects: plain variables and compound propositions (generated_id symbolic)"""
    repo = c.repo
    cols = []
    for j in range(k_vars):
        lo, hi = z3.Int(f"lo{j}"), z3.Int(f"hi{j}")
        c.assume_global(lo <= hi)
        cols.append(mk_variable(repo, f"x{j}", SInt(lo), SInt(hi)))       # arbitrary (also non-boolean) bounds
    gens = []
    for j in range(k_comp):
        n = object.__new__(repo.plog.AtLeast)
        g = lift(z3.Bool(f"gen{j}"))
        n.__dict__.update(generated_id=g, value=1, sign=1, propositions=[], variable=repo.puan.variable(f"C{j}"))
        cols.append(n)
        gens.append(g)
    return cols, gens


class SolveH(_B):
    name = "AtLeast.solve"
    function = "AtLeast.solve"
    module = "puan.logic.plog"

    def cases(self):
        return [{"vars": v, "comp": k, "virtual": iv, "reduce": rb} for v, k in ((1, 0), (2, 1), (1, 2))
                for iv in (False, True) for rb in (False, True)]

    def setup(self, c, case):
        repo = c.repo
        pnd = repo.load("puan.ndarray")
        cols, gens = _columns(c, case["vars"], case["comp"])
        k = len(cols)
        M = [[SInt(z3.Int(f"m{j}")) for j in range(k + 1)]]
        poly = pnd.ge_polyhedron(M, variables=[repo.puan.variable(0, (1, 1))] + cols, index=[repo.puan.variable("r")])
        model = object.__new__(repo.plog.AtLeast)
        model.__dict__.update(generated_id=False, value=1, sign=1, propositions=[], variable=repo.puan.variable("TOP"))
        rec = {}

        def to_ge_polyhedron(active=False, reduced=False):
            rec["tgp"] = (active, reduced)
            return poly
        model.__dict__["to_ge_polyhedron"] = to_ge_polyhedron
        weights = {}
        for j, col in enumerate(cols):
            if j % 2 == 0:
                weights[col.id] = SInt(z3.Int(f"w{j}"))
        weights["not-a-column"] = SInt(z3.Int("wz"))
        sol = [SInt(z3.Int(f"s{j}")) for j in range(k)]

        def solver(p, objs):
            rec["poly"] = p
            rec["objs"] = [o.tolist() if hasattr(o, "tolist") else list(o) for o in objs]
            return [(symnd.nd(sol), SInt(z3.Int("ov")), 5), (None, 0, 4)]
        return {"model": model, "poly": poly, "cols": cols, "gens": gens, "weights": weights, "sol": sol, "rec": rec,
                "solver": solver}

    def run(self, c, st):
        self.begin_call(c)
        case = c.state_case
        return list(st["model"].solve([dict(st["weights"]), {}], st["solver"], try_reduce_before=case["reduce"],
                                      include_virtual_variables=case["virtual"]))

    def concretise(self, case, k, model, c, st):
        from .common import _mv
        cols = st["cols"]
        return {"case": dict(case),
                "bounds": [[_mv(model, x.bounds.lower.t), _mv(model, x.bounds.upper.t)] for x in cols[:case["vars"]]],
                "gen": [bool(_mv(model, g.t)) if hasattr(g, "t") else bool(g) for g in st["gens"]],
                "weights": {str(kk): _mv(model, vv.t) for kk, vv in st["weights"].items()}}

    def replay(self, w):
        """the same clauses on a real model through the real to_ge_polyhedron, with a recording solver"""
        import numpy as np
        import puan
        import puan.logic.plog as pg
        case = w["case"]
        leaves = [puan.variable(f"x{j}", (b[0], max(b))) for j, b in enumerate(w["bounds"])]
        comps = [pg.Any(f"c{j}a", f"c{j}b", variable=None if g else f"C{j}") for j, g in enumerate(w["gen"])]
        model = pg.All(*leaves, *comps, variable="TOP")
        rec = {}

        def solver(p, objs):
            rec["p"], rec["objs"] = p, [list(map(int, o)) for o in objs]
            return [(np.arange(100, 100 + p.A.shape[1]), 9, 5), (None, 0, 4)]
        weights = {k_: v for k_, v in w["weights"].items()}
        out = list(model.solve([dict(weights), {}], solver, include_virtual_variables=case["virtual"]))
        cols = list(rec["p"].A.variables)
        bad = []
        for j, col in enumerate(cols):
            if rec["objs"][0][j] != weights.get(col.id, 0) or rec["objs"][1][j] != 0:
                bad.append(f"solve/objective[{j}]")
        want = {cc.id: 100 + j for j, cc in enumerate(cols)
                if isinstance(cc, puan.variable) or case["virtual"] or not getattr(cc, "generated_id", False)}
        if out[0][0] != want:
            bad += ["solve/result.key[0]", "solve/result.value[0]"]
        if out[1][0] != {}:
            bad.append("solve/result.none")
        return {"violated": bad, "detail": {"model": model.to_text(), "objective": rec["objs"], "result": str(out[0][0])}}

    def ensures(self, c, st, res):
        case, rec, cols, gens, w, sol = c.state_case, st["rec"], st["cols"], st["gens"], st["weights"], st["sol"]
        out = [("solve/poly", rec.get("poly") is st["poly"] and rec.get("tgp") == (True, case["reduce"]))]
        objs = rec.get("objs", [])
        ok = len(objs) == 2 and all(len(o) == len(cols) for o in objs)
        out.append(("solve/objective.shape", ok))
        if ok:
            for j, col in enumerate(cols):
                out.append((f"solve/objective[{j}]", band(objs[0][j] == w.get(col.id, 0), objs[1][j] == 0)))
        out.append(("solve/result.count", len(res) == 2))
        if len(res) == 2:
            d0 = res[0][0]
            for j, col in enumerate(cols):
                is_comp = j >= case["vars"]
                keep = True if not is_comp else bor(bnot(gens[j - case["vars"]]), case["virtual"])
                present = col.id in d0
                out.append((f"solve/result.key[{j}]", present == keep))
                if present:
                    out.append((f"solve/result.value[{j}]", d0[col.id] == sol[j]))
            out.append(("solve/result.no-extra-keys", all(k in [cc.id for cc in cols] for k in d0)))
            out.append(("solve/result.passthrough", band(res[0][1] == SInt(z3.Int("ov")), res[0][2] == 5)))
            out.append(("solve/result.none", res[1][0] == {} and res[1][1] == 0 and res[1][2] == 4))
        return out


class SelectH(_B):
    name = "ge_polyhedron_config.select"
    function = "ge_polyhedron_config.select"
    module = "puan.ndarray"

    def cases(self):
        return [{"k": 1, "boom": False}, {"k": 3, "boom": False}, {"k": 2, "boom": True}]

    def setup(self, c, case):
        repo = c.repo
        pnd = repo.load("puan.ndarray")
        k = case["k"]
        cols = [repo.puan.variable(f"x{j}") for j in range(k)]
        M = [[SInt(z3.Int(f"m{j}")) for j in range(k + 1)]]
        cfg = pnd.ge_polyhedron_config(M, default_prio_vector=symnd.nd([-1] * k),
                                       variables=[repo.puan.variable(0, (1, 1))] + cols, index=[repo.puan.variable("r")])
        rec = {}
        objrows = [[SInt(z3.Int(f"o{i}{j}")) for j in range(k)] for i in range(3)]

        def vfp(prios):
            rec["prios"] = list(prios)
            return symnd.nd(objrows)
        cfg._vectors_from_prios = vfp
        sol = [SInt(z3.Int(f"s{j}")) for j in range(k)]
        sol2 = [SInt(z3.Int(f"t{j}")) for j in range(k)]

        def solver(p, objs):
            if case["boom"]:
                raise RuntimeError("solver down")
            rec["poly"] = p
            rec["objs"] = [o.tolist() if hasattr(o, "tolist") else list(o) for o in objs]
            # one answer per request: a solution, no solution, another solution
            return [(symnd.nd(sol), SInt(z3.Int("ov")), 5), (None, 0, 4), (symnd.nd(sol2), SInt(z3.Int("ov2")), 5)]
        return {"cfg": cfg, "cols": cols, "rec": rec, "solver": solver, "sol": sol, "sol2": sol2, "objrows": objrows,
                "p1": {"x0": 1}, "p2": {}, "p3": {"x0": -1}, "InfeasibleError": pnd.InfeasibleError}

    expected_raises = (Exception,)

    def run(self, c, st):
        self.begin_call(c)
        return list(st["cfg"].select(st["p1"], st["p2"], st["p3"], solver=st["solver"]))

    def ensures(self, c, st, res):
        case, rec, cols, sol = c.state_case, st["rec"], st["cols"], st["sol"]
        if case["boom"]:
            return [("select/exception", False)]          # must have raised
        out = [("select/poly", rec.get("poly") is st["cfg"]),
               ("select/prios", rec.get("prios") == [st["p1"], st["p2"], st["p3"]])]
        objs = rec.get("objs", [])
        ok = len(objs) == 3 and all(len(o) == len(cols) for o in objs)
        out.append(("select/objective.shape", ok))
        if ok:
            out.append(("select/objective", band(*[objs[i][j] == st["objrows"][i][j] for i in range(3) for j in range(len(cols))])))
        out.append(("select/result.count", len(res) == 3))
        if len(res) == 3:
            for which, vals in ((0, sol), (2, st["sol2"])):
                d0 = res[which][0]
                out.append((f"select/result.keys[{which}]", sorted(d0.keys()) == sorted(cc.id for cc in cols)))
                for j, col in enumerate(cols):
                    if col.id in d0:
                        out.append((f"select/result.value[{which},{j}]", d0[col.id] == vals[j]))
            out.append(("select/result.none", res[1][0] == {}))
        return out

    def ensures_raise(self, c, st, exc):
        if c.state_case["boom"]:
            return [("select/exception", isinstance(exc, st["InfeasibleError"]))]
        return [("no-raise[%s]" % type(exc).__name__, False)]


def _select_concretise(self, case, k, model, c, st):
    from .common import _mv
    g = lambda v: _mv(model, v.t) if hasattr(v, "t") else int(v)
    return {"k": case["k"], "boom": case["boom"], "sol": [g(v) for v in st["sol"]], "sol2": [g(v) for v in st["sol2"]]}


def _select_replay(self, w):
    """the real select() with a solver that answers (solution, None, solution) to three requests"""
    import numpy as np
    import puan
    import puan.ndarray as pnd
    k = w["k"]
    cols = [puan.variable(f"x{j}") for j in range(k)]
    cfg = pnd.ge_polyhedron_config([[0] + [1] * k], default_prio_vector=np.array([-1] * k),
                                   variables=[puan.variable(0, (1, 1))] + cols, index=[puan.variable("r")])

    def solver(p, objs):
        if w["boom"]:
            raise RuntimeError("solver down")
        return [(np.array(w["sol"]), 0, 5), (None, 0, 4), (np.array(w["sol2"]), 0, 5)]
    violated = []
    try:
        res = list(cfg.select({"x0": 1}, {}, {"x0": -1}, solver=solver))
    except Exception as e:
        return {"violated": [] if w["boom"] and isinstance(e, pnd.InfeasibleError) else ["select/exception"], "detail": {"raised": repr(e)}}
    if len(res) != 3:
        violated.append("select/result.count")
    else:
        for which, vals in ((0, w["sol"]), (2, w["sol2"])):
            d0 = res[which][0]
            if sorted(d0.keys()) != sorted(cc.id for cc in cols):
                violated.append(f"select/result.keys[{which}]")
            for j, col in enumerate(cols):
                if col.id in d0 and int(d0[col.id]) != vals[j]:
                    violated.append(f"select/result.value[{which},{j}]")
        if res[1][0] != {}:
            violated.append("select/result.none")
    return {"violated": violated, "detail": {"answers": [str(r_[0]) for r_ in res]}}


SelectH.concretise = _select_concretise
SelectH.replay = _select_replay


class StingySelectH(_B):
    name = "StingyConfigurator.select"
    function = "StingyConfigurator.select"
    module = "puan.modules.configurator"

    def cases(self):
        return [{"only_leafs": False}, {"only_leafs": True}]

    def setup(self, c, case):
        repo = c.repo
        cc = repo.load("puan.modules.configurator")
        cfg = object.__new__(cc.StingyConfigurator)
        leaves = [repo.puan.variable("a"), repo.puan.variable("b")]
        cfg.__dict__.update(generated_id=False, value=1, sign=1, propositions=[], variable=repo.puan.variable("cfg"))
        rec = {}
        vals = {k: SInt(z3.Int(f"v.{k}")) for k in ("a", "b", "R", "VARx")}

        class Poly:
            def select(self_, *prios, solver=None):
                rec["prios"], rec["solver"] = list(prios), solver
                return iter([(dict(vals), SInt(z3.Int("ov")), 5), ({}, 0, 4)])
        cfg.__dict__["_ge_polyhedron"] = Poly()          # the per-instance memo (DESIGN 3.4) holds the polyhedron
        cfg.__dict__["_leafs"] = leaves
        return {"cfg": cfg, "rec": rec, "vals": vals, "solver": object()}

    def run(self, c, st):
        self.begin_call(c)
        return list(st["cfg"].select({"a": 1}, solver=st["solver"], only_leafs=c.state_case["only_leafs"]))

    def ensures(self, c, st, res):
        rec, vals = st["rec"], st["vals"]
        out = [("stingy/forward", rec.get("prios") == [{"a": 1}] and rec.get("solver") is st["solver"]),
               ("stingy/count", len(res) == 2)]
        if len(res) != 2:
            return out
        if c.state_case["only_leafs"]:
            d0 = res[0]
            out.append(("stingy/only_leafs.keys", sorted(d0.keys()) == ["a", "b"]))
            out.append(("stingy/only_leafs.values", band(d0.get("a") == vals["a"], d0.get("b") == vals["b"])))
            out.append(("stingy/only_leafs.none", res[1] == {}))
        else:
            d0 = res[0][0]
            out.append(("stingy/all.keys", sorted(d0.keys()) == sorted(vals.keys())))
            out.append(("stingy/all.values", band(*[d0[k] == vals[k] for k in vals if k in d0])))
        return out


HARNESSES = [SolveH(), SelectH(), StingySelectH()]
