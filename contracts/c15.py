"""C15 -- solver bridge: objectives, solutions and ids stay aligned (real source of AtLeast.solve (custom-solver
branch), ge_polyhedron_config.select, StingyConfigurator.select on the symbolic ndarray layer).

The polyhedron handed over comes from to_ge_polyhedron / _vectors_from_prios, which are under contract elsewhere (C01,
C13/C14); here they are replaced on the receiver by stubs that return a prepared polyhedron / objective matrix with
symbolic entries, and the solver is a recording stub returning a symbolic vector and None.

  solve/poly        the solver receives exactly the polyhedron of to_ge_polyhedron(active=True, reduced=try_reduce_before)
  solve/objective   entry j of each objective vector == weights.get(id of column j of A, 0)
  solve/result      {id_j: solution_j} over the columns of A, compounds with generated ids omitted unless asked for;
                    None -> {}; objective value and status code passed through
  select/*          likewise for ge_polyhedron_config.select (objectives = _vectors_from_prios(prios) row by row)
  select/exception  an exception raised by the solver leaves as InfeasibleError
  stingy/only_leafs StingyConfigurator.select keeps exactly the leaf ids when only_leafs is set, everything otherwise
"""
import itertools
import z3
from pyvc.sym import SInt, SBool, ctx, lift, to_bterm, site
from pyvc.nodes import band, bor, bnot, implies
from pyvc.engine import Harness, NotRecognised
from pyvc import symnd
from .common import mk_variable


class _B(Harness):
    numpy_mode = "sym"

    def begin_call(self, c):
        c.nd_epoch = 1


def _columns(c, k_vars, k_comp):
    """column objects: plain variables and compound propositions (generated_id symbolic)"""
    repo = c.repo
    cols = []
    for j in range(k_vars):
        lo, hi = z3.Int(f"lo{j}"), z3.Int(f"hi{j}")
        c.assume_global(lo <= hi)
        cols.append(mk_variable(repo, f"x{j}", SInt(lo), SInt(hi)))       # arbitrary (also non-boolean) bounds
    gens = []
    for j in range(k_comp):
        n = object.__new__(repo.plog.AtLeast)
        g = lift(z3.Bool(f"gen{j}"))
        n.__dict__.update(generated_id=g, value=1, sign=1, propositions=[], variable=repo.puan.variable(f"C{j}"))
        cols.append(n)
        gens.append(g)
    return cols, gens


class SolveH(_B):
    name = "AtLeast.solve"
    function = "AtLeast.solve"
    module = "puan.logic.plog"

    def cases(self):
        return [{"vars": v, "comp": k, "virtual": iv, "reduce": rb} for v, k in ((1, 0), (2, 1), (1, 2))
                for iv in (False, True) for rb in (False, True)]

    def setup(self, c, case):
        repo = c.repo
        pnd = repo.load("puan.ndarray")
        cols, gens = _columns(c, case["vars"], case["comp"])
        k = len(cols)
        M = [[SInt(z3.Int(f"m{j}")) for j in range(k + 1)]]
        poly = pnd.ge_polyhedron(M, variables=[repo.puan.variable(0, (1, 1))] + cols, index=[repo.puan.variable("r")])
        model = object.__new__(repo.plog.AtLeast)
        model.__dict__.update(generated_id=False, value=1, sign=1, propositions=[], variable=repo.puan.variable("TOP"))
        rec = {}

        def to_ge_polyhedron(active=False, reduced=False):
            rec["tgp"] = (active, reduced)
            return poly
        model.__dict__["to_ge_polyhedron"] = to_ge_polyhedron
        weights = {}
        for j, col in enumerate(cols):
            if j % 2 == 0:
                weights[col.id] = SInt(z3.Int(f"w{j}"))
        weights["not-a-column"] = SInt(z3.Int("wz"))
        sol = [SInt(z3.Int(f"s{j}")) for j in range(k)]

        def solver(p, objs):
            rec["poly"] = p
            rec["objs"] = [o.tolist() if hasattr(o, "tolist") else list(o) for o in objs]
            return [(symnd.nd(sol), SInt(z3.Int("ov")), 5), (None, 0, 4)]
        return {"model": model, "poly": poly, "cols": cols, "gens": gens, "weights": weights, "sol": sol, "rec": rec,
                "solver": solver}

    def run(self, c, st):
        self.begin_call(c)
        case = c.state_case
        return list(st["model"].solve([dict(st["weights"]), {}], st["solver"], try_reduce_before=case["reduce"],
                                      include_virtual_variables=case["virtual"]))

    def concretise(self, case, k, model, c, st):
        from .common import _mv
        cols = st["cols"]
        return {"case": dict(case),
                "bounds": [[_mv(model, x.bounds.lower.t), _mv(model, x.bounds.upper.t)] for x in cols[:case["vars"]]],
                "gen": [bool(_mv(model, g.t)) if hasattr(g, "t") else bool(g) for g in st["gens"]],
                "weights": {str(kk): _mv(model, vv.t) for kk, vv in st["weights"].items()}}

    def replay(self, w):
        """the same clauses on a real model through the real to_ge_polyhedron, with a recording solver"""
        import numpy as np
        import puan
        import puan.logic.plog as pg
        case = w["case"]
        leaves = [puan.variable(f"x{j}", (b[0], max(b))) for j, b in enumerate(w["bounds"])]
        comps = [pg.Any(f"c{j}a", f"c{j}b", variable=None if g else f"C{j}") for j, g in enumerate(w["gen"])]
        model = pg.All(*leaves, *comps, variable="TOP")
        rec = {}

        def solver(p, objs):
            rec["p"], rec["objs"] = p, [list(map(int, o)) for o in objs]
            return [(np.arange(100, 100 + p.A.shape[1]), 9, 5), (None, 0, 4)]
        weights = {k_: v for k_, v in w["weights"].items()}
        out = list(model.solve([dict(weights), {}], solver, include_virtual_variables=case["virtual"]))
        cols = list(rec["p"].A.variables)
        bad = []
        for j, col in enumerate(cols):
            if rec["objs"][0][j] != weights.get(col.id, 0) or rec["objs"][1][j] != 0:
                bad.append(f"solve/objective[{j}]")
        want = {cc.id: 100 + j for j, cc in enumerate(cols)
                if isinstance(cc, puan.variable) or case["virtual"] or not getattr(cc, "generated_id", False)}
        if out[0][0] != want:
            bad += ["solve/result.key[0]", "solve/result.value[0]"]
        if out[1][0] != {}:
            bad.append("solve/result.none")
        return {"violated": bad, "detail": {"model": model.to_text(), "objective": rec["objs"], "result": str(out[0][0])}}

    def ensures(self, c, st, res):
        case, rec, cols, gens, w, sol = c.state_case, st["rec"], st["cols"], st["gens"], st["weights"], st["sol"]
        out = [("solve/poly", rec.get("poly") is st["poly"] and rec.get("tgp") == (True, case["reduce"]))]
        objs = rec.get("objs", [])
        ok = len(objs) == 2 and all(len(o) == len(cols) for o in objs)
        out.append(("solve/objective.shape", ok))
        if ok:
            for j, col in enumerate(cols):
                out.append((f"solve/objective[{j}]", band(objs[0][j] == w.get(col.id, 0), objs[1][j] == 0)))
        out.append(("solve/result.count", len(res) == 2))
        if len(res) == 2:
            d0 = res[0][0]
            for j, col in enumerate(cols):
                is_comp = j >= case["vars"]
                keep = True if not is_comp else bor(bnot(gens[j - case["vars"]]), case["virtual"])
                present = col.id in d0
                out.append((f"solve/result.key[{j}]", present == keep))
                if present:
                    out.append((f"solve/result.value[{j}]", d0[col.id] == sol[j]))
            out.append(("solve/result.no-extra-keys", all(k in [cc.id for cc in cols] for k in d0)))
            out.append(("solve/result.passthrough", band(res[0][1] == SInt(z3.Int("ov")), res[0][2] == 5)))
            out.append(("solve/result.none", res[1][0] == {} and res[1][1] == 0 and res[1][2] == 4))
        return out


class SelectH(_B):
    name = "ge_polyhedron_config.select"
    function = "ge_polyhedron_config.select"
    module = "puan.ndarray"

    def cases(self):
        return [{"k": 1, "boom": False}, {"k": 3, "boom": False}, {"k": 2, "boom": True}]

    def setup(self, c, case):
        repo = c.repo
        pnd = repo.load("puan.ndarray")
        k = case["k"]
        cols = [repo.puan.variable(f"x{j}") for j in range(k)]
        M = [[SInt(z3.Int(f"m{j}")) for j in range(k + 1)]]
        cfg = pnd.ge_polyhedron_config(M, default_prio_vector=symnd.nd([-1] * k),
                                       variables=[repo.puan.variable(0, (1, 1))] + cols, index=[repo.puan.variable("r")])
        rec = {}
        objrows = [[SInt(z3.Int(f"o{i}{j}")) for j in range(k)] for i in range(3)]

        def vfp(prios):
            rec["prios"] = list(prios)
            return symnd.nd(objrows)
        cfg._vectors_from_prios = vfp
        sol = [SInt(z3.Int(f"s{j}")) for j in range(k)]
        sol2 = [SInt(z3.Int(f"t{j}")) for j in range(k)]

        def solver(p, objs):
            if case["boom"]:
                raise RuntimeError("solver down")
            rec["poly"] = p
            rec["objs"] = [o.tolist() if hasattr(o, "tolist") else list(o) for o in objs]
            # one answer per request: a solution, no solution, another solution
            return [(symnd.nd(sol), SInt(z3.Int("ov")), 5), (None, 0, 4), (symnd.nd(sol2), SInt(z3.Int("ov2")), 5)]
        return {"cfg": cfg, "cols": cols, "rec": rec, "solver": solver, "sol": sol, "sol2": sol2, "objrows": objrows,
                "p1": {"x0": 1}, "p2": {}, "p3": {"x0": -1}, "InfeasibleError": pnd.InfeasibleError}

    expected_raises = (Exception,)

    def run(self, c, st):
        self.begin_call(c)
        return list(st["cfg"].select(st["p1"], st["p2"], st["p3"], solver=st["solver"]))

    def ensures(self, c, st, res):
        case, rec, cols, sol = c.state_case, st["rec"], st["cols"], st["sol"]
        if case["boom"]:
            return [("select/exception", False)]          # must have raised
        out = [("select/poly", rec.get("poly") is st["cfg"]),
               ("select/prios", rec.get("prios") == [st["p1"], st["p2"], st["p3"]])]
        objs = rec.get("objs", [])
        ok = len(objs) == 3 and all(len(o) == len(cols) for o in objs)
        out.append(("select/objective.shape", ok))
        if ok:
            out.append(("select/objective", band(*[objs[i][j] == st["objrows"][i][j] for i in range(3) for j in range(len(cols))])))
        out.append(("select/result.count", len(res) == 3))
        if len(res) == 3:
            for which, vals in ((0, sol), (2, st["sol2"])):
                d0 = res[which][0]
                out.append((f"select/result.keys[{which}]", sorted(d0.keys()) == sorted(cc.id for cc in cols)))
                for j, col in enumerate(cols):
                    if col.id in d0:
                        out.append((f"select/result.value[{which},{j}]", d0[col.id] == vals[j]))
            out.append(("select/result.none", res[1][0] == {}))
        return out

    def ensures_raise(self, c, st, exc):
        if c.state_case["boom"]:
            return [("select/exception", isinstance(exc, st["InfeasibleError"]))]
        return [("no-raise[%s]" % type(exc).__name__, False)]


def _select_concretise(self, case, k, model, c, st):
    from .common import _mv
    g = lambda v: _mv(model, v.t) if hasattr(v, "t") else int(v)
    return {"k": case["k"], "boom": case["boom"], "sol": [g(v) for v in st["sol"]], "sol2": [g(v) for v in st["sol2"]]}


def _select_replay(self, w):
    """the real select() with a solver that answers (solution, None, solution) to three requests"""
    import numpy as np
    import puan
    import puan.ndarray as pnd
    k = w["k"]
    cols = [puan.variable(f"x{j}") for j in range(k)]
    cfg = pnd.ge_polyhedron_config([[0] + [1] * k], default_prio_vector=np.array([-1] * k),
                                   variables=[puan.variable(0, (1, 1))] + cols, index=[puan.variable("r")])

    def solver(p, objs):
        if w["boom"]:
            raise RuntimeError("solver down")
        return [(np.array(w["sol"]), 0, 5), (None, 0, 4), (np.array(w["sol2"]), 0, 5)]
    violated = []
    try:
        res = list(cfg.select({"x0": 1}, {}, {"x0": -1}, solver=solver))
    except Exception as e:
        return {"violated": [] if w["boom"] and isinstance(e, pnd.InfeasibleError) else ["select/exception"], "detail": {"raised": repr(e)}}
    if len(res) != 3:
        violated.append("select/result.count")
    else:
        for which, vals in ((0, w["sol"]), (2, w["sol2"])):
            d0 = res[which][0]
            if sorted(d0.keys()) != sorted(cc.id for cc in cols):
                violated.append(f"select/result.keys[{which}]")
            for j, col in enumerate(cols):
                if col.id in d0 and int(d0[col.id]) != vals[j]:
                    violated.append(f"select/result.value[{which},{j}]")
        if res[1][0] != {}:
            violated.append("select/result.none")
    return {"violated": violated, "detail": {"answers": [str(r_[0]) for r_ in res]}}


SelectH.concretise = _select_concretise
SelectH.replay = _select_replay


class StingySelectH(_B):
    name = "StingyConfigurator.select"
    function = "StingyConfigurator.select"
    module = "puan.modules.configurator"

    def cases(self):
        return [{"only_leafs": False}, {"only_leafs": True}]

    def setup(self, c, case):
        repo = c.repo
        cc = repo.load("puan.modules.configurator")
        cfg = object.__new__(cc.StingyConfigurator)
        leaves = [repo.puan.variable("a"), repo.puan.variable("b")]
        cfg.__dict__.update(generated_id=False, value=1, sign=1, propositions=[], variable=repo.puan.variable("cfg"))
        rec = {}
        vals = {k: SInt(z3.Int(f"v.{k}")) for k in ("a", "b", "R", "VARx")}

        class Poly:
            def select(self_, *prios, solver=None):
                rec["prios"], rec["solver"] = list(prios), solver
                return iter([(dict(vals), SInt(z3.Int("ov")), 5), ({}, 0, 4)])
        cfg.__dict__["_ge_polyhedron"] = Poly()          # the per-instance memo (DESIGN 3.4) holds the polyhedron
        cfg.__dict__["_leafs"] = leaves
        return {"cfg": cfg, "rec": rec, "vals": vals, "solver": object()}

    def run(self, c, st):
        self.begin_call(c)
        # the request names a leaf AND a named sub-proposition (an ordinary column of the polyhedron)
        return list(st["cfg"].select({"a": 1, "R": 2}, solver=st["solver"], only_leafs=c.state_case["only_leafs"]))

    def ensures(self, c, st, res):
        rec, vals = st["rec"], st["vals"]
        out = [("stingy/forward", rec.get("prios") == [{"a": 1, "R": 2}] and rec.get("solver") is st["solver"]),
               ("stingy/count", len(res) == 2)]
        if len(res) != 2:
            return out
        if c.state_case["only_leafs"]:
            d0 = res[0]
            out.append(("stingy/only_leafs.keys", sorted(d0.keys()) == ["a", "b"]))
            out.append(("stingy/only_leafs.values", band(d0.get("a") == vals["a"], d0.get("b") == vals["b"])))
            out.append(("stingy/only_leafs.none", res[1] == {}))
        else:
            d0 = res[0][0]
            out.append(("stingy/all.keys", sorted(d0.keys()) == sorted(vals.keys())))
            out.append(("stingy/all.values", band(*[d0[k] == vals[k] for k in vals if k in d0])))
        return out

    def concretise(self, case, k, model, c, st):
        from .common import _mv
        return {"case": dict(case), "vals": {k_: _mv(model, v.t) for k_, v in st["vals"].items()}}

    def replay(self, w):
        """a real configurator (leaves a, b under a named rule R and a rule with a generated id) with a recording solver that
        answers (vector, None): the same clauses"""
        import numpy as np
        import puan.logic.plog as pg
        import puan.modules.configurator as cc
        cfg = cc.StingyConfigurator(pg.Any("a", "b", variable="R"), pg.AtMost(1, ["a", "b"]), id="cfg")
        rec = {}

        def solver(p, objs):
            rec["calls"] = rec.get("calls", 0) + 1
            rec["cols"] = [v.id for v in p.A.variables]
            rec["objs"] = [[int(t) for t in o] for o in objs]
            return [(np.arange(100, 100 + p.A.shape[1]), 7, 5), (None, 0, 4)][: len(objs)] if len(objs) <= 2 else \
                [(np.arange(100, 100 + p.A.shape[1]), 7, 5)] * len(objs)
        only = w["case"]["only_leafs"]
        res = list(cfg.select({"a": 1, "R": 2}, {"b": 1}, solver=solver, only_leafs=only))
        violated, detail = [], {"columns": [str(x) for x in rec.get("cols", [])], "objectives": rec.get("objs")}
        # forwarded unchanged: one solver call, and every id named in the request (leaf or named sub-proposition) carries weight
        fwd = rec.get("calls") == 1
        if fwd:
            o0 = dict(zip(rec["cols"], rec["objs"][0]))
            fwd = o0.get("a", 0) > 0 and o0.get("R", 0) > o0.get("a", 0)
        if not fwd:
            violated.append("stingy/forward")
        if len(res) != 2:
            violated.append("stingy/count")
            return {"violated": violated, "detail": detail}
        val = {cid: 100 + j for j, cid in enumerate(rec["cols"])}
        if only:
            if sorted(res[0].keys()) != ["a", "b"]:
                violated.append("stingy/only_leafs.keys")
            elif any(int(res[0][k]) != val[k] for k in ("a", "b")):
                violated.append("stingy/only_leafs.values")
            if res[1] != {}:
                violated.append("stingy/only_leafs.none")
            detail["answers"] = [str(r_) for r_ in res]
        else:
            d0 = res[0][0]
            if sorted(map(str, d0.keys())) != sorted(map(str, val.keys())):
                violated.append("stingy/all.keys")
            elif any(int(d0[k]) != val[k] for k in val):
                violated.append("stingy/all.values")
        return {"violated": violated, "detail": detail}



class SolveBuiltinH(Harness):
    """AtLeast.solve WITHOUT a solver callable (the branch that hands the model to the compiled solver): the real
    `_to_pyrs_theory` (real flatten, index map, StatementPy / AtLeastPy construction) and the real objective / solution
    translation, against `pyvc.rsmodel.TheoryPy.solve` as an OPEN contract (records its arguments, answers with fresh symbolic
    values -- nothing is assumed about what the compiled solver computes).  Bounded in shape (c01glue shapes), unbounded in
    thresholds, leaf bounds and weights.  The statement of a node is identified independently of the map the code builds: a
    leaf by its (symbolic) bounds, a compound by the statements of its children.

      builtin/objective   the dictionary handed over for a request maps the statement index of every id named in the
                          request to exactly the weight given for that id, and has no other entry
      builtin/result      the reported dictionary maps every leaf id and every explicitly named sub-proposition id to the
                          value the solver gave the statement of that id (generated ids only when asked for), and names
                          nothing else; objective value and status code are passed through
    C15 as stated is about a supplied solver callable; this harness carries the same alignment clauses over to the
    built-in route (it shares `_to_pyrs_theory` with C01's glue)."""
    name = "AtLeast.solve(built-in)"
    function = "AtLeast.solve"
    module = "puan.logic.plog"
    functions = ["AtLeast.solve", "AtLeast._to_pyrs_theory", "AtLeast.flatten"]
    numpy_mode = "sym"
    rs_model = True

    def cases(self):
        from .c01glue import SHAPES
        out = []
        for shape in ("flat", "nested"):
            comps = sorted(SHAPES[shape])
            for sg in itertools.product((1, -1), repeat=len(comps)):
                for virtual in (False, True):
                    out.append({"shape": shape, "signs": dict(zip(comps, sg)), "virtual": virtual})
        return out

    def setup(self, c, case):
        from .c01glue import build, SHAPES
        top, objs, leaves, lo, hi, vals = build(c, c.repo, case["shape"], case["signs"])
        names = sorted(objs)
        # weights for every second id (in sorted order) plus the top; an objective may name any id of the model
        w = {}
        for j, n in enumerate(names):
            if j % 2 == 0 or n == "T":
                w[n] = SInt(z3.Int(f"w.{n}"))
        return {"top": top, "objs": objs, "leaves": leaves, "lo": lo, "hi": hi, "weights": w, "tree": SHAPES[case["shape"]]}

    def run(self, c, st):
        c.nd_epoch = 1
        # the ids are plain strings here; the order of the request's keys is the insertion order above and reversed
        w = st["weights"]
        first = dict(w)
        second = dict(reversed(list(w.items())))
        c.repo.load("puan.logic.plog").pr.TheoryPy.last_solve = None
        return list(st["top"].solve([first, second, {}], include_virtual_variables=c.state_case["virtual"]))

    @staticmethod
    def _index_of(theory, st):
        """statement index of every node, from the statements themselves"""
        tree, lo, hi = st["tree"], st["lo"], st["hi"]
        idx = {}
        for l in st["leaves"]:
            hits = [s.variable for s in theory.statements if s.expression is None and hasattr(s.bounds[0], "t")
                    and hasattr(s.bounds[1], "t") and z3.eq(s.bounds[0].t, lo[l].t) and z3.eq(s.bounds[1].t, hi[l].t)]
            if len(hits) != 1:
                return None
            idx[l] = hits[0]
        pending = [n for n in tree]
        for _ in range(len(pending) + 1):
            for n in list(pending):
                if all(k in idx for k in tree[n]):
                    want = sorted(idx[k] for k in tree[n])
                    hits = [s.variable for s in theory.statements if s.expression is not None and sorted(s.expression.ids) == want]
                    if len(hits) != 1:
                        return None
                    idx[n] = hits[0]
                    pending.remove(n)
        return idx if not pending else None

    def ensures(self, c, st, res):
        rs = c.repo.load("puan.logic.plog").pr
        last = getattr(rs.TheoryPy, "last_solve", None)
        out = [("builtin/solver-called-once", last is not None and len(getattr(last[0], "solve_calls", [])) == 1)]
        if last is None:
            return out
        theory, handed, _ = last
        idx = self._index_of(theory, st)
        if idx is None:
            # the harness's own way of telling which statement belongs to which node (leaf bounds, child sets) does not apply
            # to these statements: nothing can be stated -- out of reach, not a verdict
            out.append(("builtin/statements-identify-the-nodes", NotRecognised("statements cannot be matched to the model's nodes by bounds / child sets")))
            return out
        out.append(("builtin/three-requests-handed-over", len(handed) == 3))
        if len(handed) != 3:
            return out
        w = st["weights"]
        for q in (0, 1):
            ok = len(handed[q]) == len(w)
            for n, wn in w.items():
                ok = band(ok, (handed[q][idx[n]] == wn) if idx[n] in handed[q] else False)
            out.append((f"builtin/objective[{q}]", ok))
        out.append(("builtin/objective[empty]", len(handed[2]) == 0))
        answers = theory.solve_answers
        out.append(("builtin/result.count", len(res) == 3))
        if len(res) == 3:
            for q in range(3):
                d, ov, status = res[q]
                sol, ov0, st0 = answers[q]
                ok = band(ov == ov0, status == st0)
                for n, i in idx.items():
                    explicit = True            # every id of these shapes is explicitly given (generated_id False)
                    ok = band(ok, (d[n] == sol[i]) if n in d else False)
                ok = band(ok, len(d) == len(idx))
                out.append((f"builtin/result[{q}]", ok))
        return out

    def concretise(self, case, k, model, c, st):
        from .common import _mv
        g = lambda v: _mv(model, v.t)
        return {"case": dict(case), "lo": {l: g(v) for l, v in st["lo"].items()}, "hi": {l: g(v) for l, v in st["hi"].items()},
                "values": {n: _mv(model, z3.Int(f"value.{n}")) for n in st["tree"]},
                "weights": {n: g(v) for n, v in st["weights"].items()}}

    def replay(self, w):
        """the real branch with the compiled TheoryPy wrapped by a recording proxy (the compiled solver still answers)"""
        import puan
        import puan.logic.plog as pg
        from .shapes import _Shape
        top, tree = _Shape.native(w)
        real_theory = pg.pr.TheoryPy
        rec = {}

        real_statement = pg.pr.StatementPy

        class RecStatement:
            def __init__(self, variable, bounds, expression):
                self.variable, self.bounds, self.expression = variable, tuple(bounds), expression
                self.inner = real_statement(variable, bounds, expression)

        class Proxy:
            def __init__(self, statements):
                self.statements = list(statements)
                self.inner = real_theory([s_.inner for s_ in self.statements])

            def solve(self, objectives, reduced):
                rec["objectives"] = [dict(o) for o in objectives]
                rec["statements"] = self.statements
                rec["answers"] = self.inner.solve(objectives, reduced)
                return rec["answers"]

            def __getattr__(self, n):
                return getattr(self.inner, n)
        weights = dict(w["weights"])
        pg.pr.TheoryPy, pg.pr.StatementPy = Proxy, RecStatement
        try:
            res = list(top.solve([dict(weights), dict(reversed(list(weights.items()))), {}],
                                 include_virtual_variables=w["case"]["virtual"]))
        finally:
            pg.pr.TheoryPy, pg.pr.StatementPy = real_theory, real_statement
        violated, detail = [], {"model": top.to_text(), "weights": weights}
        # statement index of each id, from the statements: leaves by bounds where unique, else by the order of flatten()
        ids = [x.id for x in top.flatten()]
        if len(rec.get("statements", [])) != len(ids):
            return {"violated": ["builtin/statements-identify-the-nodes"], "detail": detail}
        idx = {}
        by_kids = {}
        for n in tree:
            by_kids[n] = None
        flat = {x.id: x for x in top.flatten()}
        stm = rec["statements"]
        # leaves: a statement without expression; match by bounds, ties broken by the only consistent assignment of parents
        import itertools as it
        leaf_ids = [i for i in ids if i not in tree]
        leaf_st = [s.variable for s in stm if s.expression is None]
        found = None
        for perm in it.permutations(leaf_st, len(leaf_ids)):
            cand = dict(zip(leaf_ids, perm))
            okb = all(tuple(next(s for s in stm if s.variable == cand[l]).bounds) == tuple(flat[l].bounds.as_tuple()) for l in leaf_ids)
            if not okb:
                continue
            full = dict(cand)
            pend = list(tree)
            good = True
            for _ in range(len(pend) + 1):
                for n in list(pend):
                    if all(k in full for k in tree[n]):
                        hits = [s.variable for s in stm if s.expression is not None and sorted(s.expression.ids) == sorted(full[k] for k in tree[n])]
                        if len(hits) != 1:
                            good = False
                        else:
                            full[n] = hits[0]
                        pend.remove(n)
            if good and not pend:
                found = full
                break
        if found is None:
            return {"violated": ["builtin/statements-identify-the-nodes"], "detail": detail}
        for q, req in enumerate([weights, dict(reversed(list(weights.items())))]):
            want = {found[n]: v for n, v in req.items()}
            if rec["objectives"][q] != want:
                violated.append(f"builtin/objective[{q}]"); detail[f"handed[{q}]"] = {str(a): b for a, b in rec["objectives"][q].items()}
                detail[f"expected[{q}]"] = {str(a): b for a, b in want.items()}
        if rec["objectives"][2] != {}:
            violated.append("builtin/objective[empty]")
        for q in range(3):
            sol = rec["answers"][q][0]
            want = {n: sol[i] for n, i in found.items() if i in sol}      # the compiled solver leaves the asserted top out
            if dict(res[q][0]) != want:
                violated.append(f"builtin/result[{q}]"); detail[f"reported[{q}]"] = {str(a): int(b) for a, b in res[q][0].items()}
        return {"violated": violated, "detail": detail}


HARNESSES = [SolveH(), SelectH(), StingySelectH(), SolveBuiltinH()]
