"""C11 -- polyhedron reduction preserves the integer solution set: the step functions (and, for tiny shapes, the
fix-point loop) of puan/ndarray/__init__.py run on pyvc.symnd arrays with symbolic entries (see contracts/c12.py).

  reducable_rows/sound          a row reported reducible holds at every point of the box
  reducable_columns/sound       a column reported with value v has x_j = v in every in-bounds integer solution
  reduce_columns/post           rows of the result at x' hold  <=>  rows of the original hold at x' with the forced values
                                re-inserted; variables follow the kept columns; row index unchanged
  reduce_rows/post              exactly the rows not flagged are kept, in order, with their index entries; columns unchanged
  reducable_rows_and_columns    (shapes up to 2x2; the while loop is unrolled by path enumeration -- bounded by the shape)
                                every forced column is forced in every solution; reducing with the result gives, over the
                                kept columns, a system that holds at x' iff the original holds at x' + forced values
"""
import itertools
import math
import z3
from pyvc.sym import SInt, SBool, ctx, lift, to_bterm, site, Unsupported
from pyvc.nodes import band, bor, bnot, implies
from pyvc.engine import Harness
from pyvc import symnd
from .c12 import _Arr, sym_polyhedron, point, dot, SHAPES, _box


def _rows_hold(A, b, x):
    return band(*[dot(A[i], x) >= b[i] for i in range(len(A))]) if A else True


class ReducableRowsH(_Arr):
    name = "ge_polyhedron.reducable_rows"
    function = "ge_polyhedron.reducable_rows"
    functions = ["ge_polyhedron.reducable_rows", "ge_polyhedron.A_min"]

    def setup(self, c, case):
        p, A, b, lo, hi = sym_polyhedron(c, case["rows"], case["cols"])
        return {"p": p, "A": A, "b": b, "lo": lo, "hi": hi, "x": point(c, case["cols"], lo, hi)}

    def run(self, c, st):
        self.begin_call(c)
        return st["p"].reducable_rows()

    def ensures(self, c, st, res):
        A, b, x, lo, hi = st["A"], st["b"], st["x"], st["lo"], st["hi"]
        rr = res.tolist()
        out = []
        for i in range(len(A)):
            for k in range(len(x)):
                amin = site(A[i][k] > 0, lo[k] * A[i][k], site(A[i][k] < 0, hi[k] * A[i][k], 0))
                out.append((f"lemma:term-min[{i},{k}]", A[i][k] * x[k] >= amin))
            out.append((f"reducable_rows.sound[{i}]", implies(rr[i], dot(A[i], x) >= b[i])))
            # exactness: not flagged => some box point violates it (the minimum vertex)
            vmin = dot(A[i], [site(A[i][j] >= 0, lo[j], hi[j]) for j in range(len(x))])
            out.append((f"reducable_rows.exact[{i}]", implies(bnot(rr[i]), vmin < b[i])))
        return out

    def native_violations(self, p, w):
        import numpy as np
        A, b = np.asarray(p.A), np.asarray(p.b)
        rr = np.asarray(p.reducable_rows()).tolist()
        bad = set()
        for i in range(A.shape[0]):
            vals = [int(A[i].dot(np.array(pt))) for pt in _box(w)]
            if rr[i] and min(vals) < b[i]:
                bad.add(f"reducable_rows.sound[{i}]")
            if not rr[i] and min(vals) >= b[i]:
                bad.add(f"reducable_rows.exact[{i}]")
        return sorted(bad)


class ReducableColumnsH(_Arr):
    name = "ge_polyhedron.reducable_columns_approx"
    function = "ge_polyhedron.reducable_columns_approx"
    functions = ["ge_polyhedron.reducable_columns_approx", "ge_polyhedron.tighten_column_bounds"]

    def setup(self, c, case):
        p, A, b, lo, hi = sym_polyhedron(c, case["rows"], case["cols"])
        x = point(c, case["cols"], lo, hi)
        for i in range(case["rows"]):
            c.assume_global(to_bterm(dot(A[i], x) >= b[i]))
        return {"p": p, "A": A, "b": b, "lo": lo, "hi": hi, "x": x}

    def run(self, c, st):
        self.begin_call(c)
        return st["p"].reducable_columns_approx()

    def ensures(self, c, st, res):
        lo, hi, x, A, b = st["lo"], st["hi"], st["x"], st["A"], st["b"]
        out = []
        for i in range(len(A)):
            for k in range(len(x)):
                amax = site(A[i][k] > 0, hi[k] * A[i][k], site(A[i][k] < 0, lo[k] * A[i][k], 0))
                out.append((f"lemma:term-max[{i},{k}]", A[i][k] * x[k] <= amax))
        for i in range(len(A)):
            for j in range(len(x)):
                rest = 0
                for k in range(len(x)):
                    if k != j:
                        rest = rest + site(A[i][k] > 0, hi[k] * A[i][k], site(A[i][k] < 0, lo[k] * A[i][k], 0))
                out.append((f"lemma:isolate[{i},{j}]", A[i][j] * x[j] >= b[i] - rest))
        vals = res.tolist()
        for j, v in enumerate(vals):
            if type(v) is symnd.MaybeNaN:
                forced = lift(z3.Not(v.nan))
                out.append((f"reducable_columns.sound[{j}]", implies(forced, x[j] == v.value)))
                out.append((f"reducable_columns.in-box[{j}]", implies(forced, band(lo[j] <= v.value, v.value <= hi[j]))))
            elif type(v) is float and math.isnan(v):
                out.append((f"reducable_columns.sound[{j}]", True))
            else:
                out.append((f"reducable_columns.sound[{j}]", x[j] == v))
        return out

    def native_violations(self, p, w):
        import numpy as np
        A, b = np.asarray(p.A), np.asarray(p.b)
        rc = np.asarray(p.reducable_columns_approx(), dtype=float).tolist()
        bad = set()
        for pt in _box(w):
            xx = np.array(pt, dtype=np.int64)
            if (A.dot(xx) >= b).all():
                for j, v in enumerate(rc):
                    if not math.isnan(v) and pt[j] != int(v):
                        bad.add(f"reducable_columns.sound[{j}]")
        return sorted(bad)


class ReduceColumnsH(_Arr):
    name = "ge_polyhedron.reduce_columns"
    function = "ge_polyhedron.reduce_columns"

    def cases(self):
        out = []
        for r, k in SHAPES + [(2, 3)]:
            for pat in itertools.product((0, 1), repeat=k):      # 1 = column is forced (value symbolic), 0 = NaN
                out.append({"rows": r, "cols": k, "forced": "".join(map(str, pat))})
        return out

    def setup(self, c, case):
        p, A, b, lo, hi = sym_polyhedron(c, case["rows"], case["cols"])
        forced = [ch == "1" for ch in case["forced"]]
        v = [SInt(z3.Int(f"v{j}")) if f else float("nan") for j, f in enumerate(forced)]
        xs = [SInt(z3.Int(f"xk{j}")) for j in range(case["cols"])]        # arbitrary integer values for the kept columns
        return {"p": p, "A": A, "b": b, "lo": lo, "hi": hi, "forced": forced, "v": v, "xs": xs}

    def run(self, c, st):
        self.begin_call(c)
        return st["p"].reduce_columns(symnd.nd(st["v"]))

    def ensures(self, c, st, res):
        A, b, forced, v, xs = st["A"], st["b"], st["forced"], st["v"], st["xs"]
        full = [v[j] if forced[j] else xs[j] for j in range(len(forced))]
        kept = [xs[j] for j in range(len(forced)) if not forced[j]]
        R = res.tolist()
        out = [("reduce_columns.shape", res.shape == (len(A), 1 + len(kept)))]
        if res.shape == (len(A), 1 + len(kept)):
            for i in range(len(A)):
                lhs_red = dot(R[i][1:], kept) >= R[i][0]
                lhs_org = dot(A[i], full) >= b[i]
                out.append((f"reduce_columns.row-equivalent[{i}]", lhs_red == lhs_org))
        ids = [getattr(x, "id", None) for x in res.variables.tolist()]
        want = [0] + [f"v{j}" for j in range(len(forced)) if not forced[j]]
        out.append(("reduce_columns.variables-follow", ids == want))
        out.append(("reduce_columns.index-kept", [x.id for x in res.index.tolist()] == [f"r{i}" for i in range(len(A))]))
        return out

    def concretise(self, case, k, model, c, st):
        w = _Arr.concretise(self, case, k, model, c, st)
        from .common import _mv
        w["v"] = [(_mv(model, x.t) if hasattr(x, "t") else None) for x in st["v"]]
        w["xs"] = [_mv(model, x.t) for x in st["xs"]]
        return w

    def native_violations(self, p, w):
        import numpy as np
        cv = np.array([float("nan") if x is None else float(x) for x in w["v"]])
        red = p.reduce_columns(cv)
        A, b = np.asarray(p.A), np.asarray(p.b)
        keep = [j for j, x in enumerate(w["v"]) if x is None]
        bad = set()
        R = np.asarray(red)
        for xs in itertools.product(range(-3, 4), repeat=len(keep)):
            full = [w["v"][j] if w["v"][j] is not None else xs[keep.index(j)] for j in range(len(w["v"]))]
            for i in range(A.shape[0]):
                org = int(A[i].dot(np.array(full))) >= int(b[i])
                rd = int(R[i][1:].dot(np.array(xs, dtype=np.int64))) >= int(R[i][0]) if keep else 0 >= int(R[i][0])
                if org != rd:
                    bad.add(f"reduce_columns.row-equivalent[{i}]")
        if [v.id for v in red.variables] != [0] + [f"v{j}" for j in keep]:
            bad.add("reduce_columns.variables-follow")
        return sorted(bad)


class ReduceRowsH(_Arr):
    name = "ge_polyhedron.reduce_rows"
    function = "ge_polyhedron.reduce_rows"

    def cases(self):
        out = []
        for r, k in [(1, 2), (2, 2), (3, 2)]:
            for pat in itertools.product((0, 1), repeat=r):
                out.append({"rows": r, "cols": k, "flag": "".join(map(str, pat))})
        return out

    def setup(self, c, case):
        p, A, b, lo, hi = sym_polyhedron(c, case["rows"], case["cols"])
        return {"p": p, "A": A, "b": b, "lo": lo, "hi": hi, "flag": [int(ch) for ch in case["flag"]]}

    def run(self, c, st):
        self.begin_call(c)
        pnd = c.repo.load("puan.ndarray")
        return st["p"].reduce_rows(pnd.boolean_ndarray(st["flag"]))

    def ensures(self, c, st, res):
        A, b, flag = st["A"], st["b"], st["flag"]
        keep = [i for i, f in enumerate(flag) if not f]
        R = res.tolist()
        ok_shape = len(R) == len(keep)
        out = [("reduce_rows.shape", ok_shape)]
        if ok_shape:
            for n, i in enumerate(keep):
                out.append((f"reduce_rows.row[{i}]", band(R[n][0] == b[i], *[R[n][1 + j] == A[i][j] for j in range(len(A[i]))])))
        out.append(("reduce_rows.index", [x.id for x in res.index.tolist()] == [f"r{i}" for i in keep]))
        out.append(("reduce_rows.variables", [getattr(x, "id", None) for x in res.variables.tolist()] ==
                    [0] + [f"v{j}" for j in range(len(A[0]))]))
        return out

    def concretise(self, case, k, model, c, st):
        w = _Arr.concretise(self, case, k, model, c, st)
        w["flag"] = st["flag"]
        return w

    def native_violations(self, p, w):
        import numpy as np
        import puan.ndarray as pnd
        red = p.reduce_rows(pnd.boolean_ndarray(np.array(w["flag"])))
        keep = [i for i, f in enumerate(w["flag"]) if not f]
        M = np.asarray(p).tolist()
        bad = []
        if np.asarray(red).tolist() != [M[i] for i in keep]:
            bad.append("reduce_rows.shape")
        if [x.id for x in red.index] != [f"r{i}" for i in keep]:
            bad.append("reduce_rows.index")
        return bad


class FixpointH(_Arr):
    name = "ge_polyhedron.reducable_rows_and_columns"
    function = "ge_polyhedron.reducable_rows_and_columns"
    functions = ["ge_polyhedron.reducable_rows_and_columns", "ge_polyhedron.reduce", "ge_polyhedron.reduce_columns",
                 "ge_polyhedron.reduce_rows", "ge_polyhedron.reducable_rows", "ge_polyhedron.reducable_columns_approx"]

    def cases(self):
        import os
        out = [{"rows": 1, "cols": 1}]
        # two rows, one column: with both coefficients symbolic the obligations are non-linear and z3's answer was seen to
        # flip between proved / proved-on-retry / unknown from run to run; the coefficient pair is enumerated instead
        # (bounds, constants and the point stay symbolic, every query is linear)
        for a0 in (-3, -1, 0, 1, 2):
            for a1 in (-3, -1, 0, 1, 2):
                out.append({"rows": 2, "cols": 1, "coef": [[a0], [a1]]})
        if os.environ.get("PYVC_TIER") == "thorough":
            # one row, two columns: the coefficient pair is enumerated over a small set (symbolic coefficients make the
            # obligations non-linear in two unknowns and the solver's answer load-dependent); bounds and constant stay symbolic
            for a0 in (-3, -1, 0, 1, 2):
                for a1 in (-3, -1, 0, 1, 2):
                    out.append({"rows": 1, "cols": 2, "coef": [[a0, a1]]})
        return out

    def setup(self, c, case):
        p, A, b, lo, hi = sym_polyhedron(c, case["rows"], case["cols"], coef=case.get("coef"))
        x = point(c, case["cols"], lo, hi)
        return {"p": p, "A": A, "b": b, "lo": lo, "hi": hi, "x": x}

    def run(self, c, st):
        self.begin_call(c)
        return st["p"].reducable_rows_and_columns()

    def ensures(self, c, st, res):
        A, b, x, lo, hi = st["A"], st["b"], st["x"], st["lo"], st["hi"]
        fr, fc = res
        fr, fc = fr.tolist(), fc.tolist()
        sol = _rows_hold(A, b, x)
        out = []
        for i in range(len(A)):
            for k in range(len(x)):
                amax = site(A[i][k] > 0, hi[k] * A[i][k], site(A[i][k] < 0, lo[k] * A[i][k], 0))
                amin = site(A[i][k] > 0, lo[k] * A[i][k], site(A[i][k] < 0, hi[k] * A[i][k], 0))
                out.append((f"lemma:term-range[{i},{k}]", band(A[i][k] * x[k] <= amax, A[i][k] * x[k] >= amin)))
        forced_ok = True
        for j, v in enumerate(fc):
            if type(v) is symnd.MaybeNaN:
                fj = implies(band(sol, lift(z3.Not(v.nan))), x[j] == v.value)
            elif type(v) is float and math.isnan(v):
                fj = True
            else:
                fj = implies(sol, x[j] == v)
            out.append((f"fixpoint.forced-column[{j}]", fj))
        # a row flagged reducible holds at every in-box point that agrees with the forced columns
        for i in range(len(A)):
            agree = True
            for j, v in enumerate(fc):
                if type(v) is symnd.MaybeNaN:
                    agree = band(agree, implies(lift(z3.Not(v.nan)), x[j] == v.value))
                elif not (type(v) is float and math.isnan(v)):
                    agree = band(agree, x[j] == v)
            out.append((f"fixpoint.reducible-row[{i}]", implies(band(fr[i] == 1, agree), dot(A[i], x) >= b[i])))
        return out

    def native_violations(self, p, w):
        import numpy as np
        A, b = np.asarray(p.A), np.asarray(p.b)
        fr, fc = p.reducable_rows_and_columns()
        fr, fc = np.asarray(fr).tolist(), np.asarray(fc, dtype=float).tolist()
        bad = set()
        for pt in _box(w):
            xx = np.array(pt, dtype=np.int64)
            sat = (A.dot(xx) >= b)
            if sat.all():
                for j, v in enumerate(fc):
                    if not math.isnan(v) and pt[j] != int(v):
                        bad.add(f"fixpoint.forced-column[{j}]")
            if all(math.isnan(v) or pt[j] == int(v) for j, v in enumerate(fc)):
                for i in range(A.shape[0]):
                    if fr[i] and not sat[i]:
                        bad.add(f"fixpoint.reducible-row[{i}]")
        return sorted(bad)


HARNESSES = [ReducableRowsH(), ReducableColumnsH(), ReduceColumnsH(), ReduceRowsH(), FixpointH()]
