"""C14's default level end to end on concrete configurators: the real cc.Xor / cc.Any constructors (default lists of one and
of two entries), the real StingyConfigurator constructor, the real flatten, default_prios and ge_polyhedron (real
to_ge_polyhedron glue over the executable A-rs1, real variable_ndarray.construct) -- with the plain rule's threshold symbolic
and both signs.  What C14 needs from this layer, stated without reading the `prio` tags the code itself sets:

  shape.defaults.structure   a defaulted rule over items I with default list [d1, ...] has exactly two children: the leaf d1 and
                             one branch whose children are exactly I - {d1}  (the FIRST listed default is the default)
  shape.defaults.vector      in the configurator polyhedron's default priority vector the column of every such non-default
                             branch holds -2 and every other column holds -1 (so a non-default branch costs more than any
                             number of plain selections, and every plain selection costs something)
  shape.defaults.dict        default_prios has the same numbers under the column ids

Bounded in shape (three rules, ids chosen so that an item, a rule or the configurator itself comes first in flatten()),
unbounded in the plain rule's threshold.
"""
import z3
from pyvc.sym import SInt
from pyvc.nodes import band
from pyvc.engine import Harness
from .common import _mv
from .c18shape import _rule

CFG_IDS = ("main", "0", "zz")        # sorts in the middle / first / last among the ids of the model
RULES = (("Xor", "X", ["Apple", "b", "c"], ["b"]), ("Any", "y", ["c", "d", "e"], ["e", "c"]))


class DefaultsShapeH(Harness):
    name = "StingyConfigurator.defaults(shapes)"
    function = "StingyConfigurator.default_prios"
    module = "puan.modules.configurator"
    functions = ["StingyConfigurator.default_prios", "StingyConfigurator.ge_polyhedron", "StingyConfigurator.__init__",
                 "Any.__init__", "Xor.__init__", ("puan.logic.plog", "AtLeast.to_ge_polyhedron"), ("puan.logic.plog", "AtLeast.flatten"),
                 ("puan.ndarray", "variable_ndarray.construct")]
    numpy_mode = "sym"
    rs_model = True
    memo_fields = ("_ge_polyhedron", "_leafs")      # per-instance memos, not part of the configurator's definition (__getstate__)

    def cases(self):
        return [{"cfg": i, "sign": s} for i in CFG_IDS for s in (1, -1)]

    def setup(self, c, case):
        repo = c.repo
        cc = repo.load("puan.modules.configurator")
        b, d = repo.puan.variable("b"), repo.puan.variable("d")
        plain = _rule(c, repo, "Zrule", [b, d], case["sign"])
        # a named sub-proposition the caller owns: it is the ONLY non-default alternative of the third rule, and it may be used
        # elsewhere as well -- building a rule around it must not write to it
        shared = repo.plog.All("p", "q", variable="S")
        return {"plain": plain, "shared": shared, "cc": cc}

    def run(self, c, st):
        c.nd_epoch = 1
        cc = st["cc"]
        rules = []
        for kind, vid, items, default in RULES:
            rules.append(getattr(cc, kind)(*items, default=list(default), variable=vid))
        rules.append(cc.Any("e2", st["shared"], default=["e2"], variable="w"))
        cfg = cc.StingyConfigurator(*rules, st["plain"], id=c.state_case["cfg"])
        return {"dp": cfg.default_prios, "poly": cfg.ge_polyhedron, "rules": rules, "shared_tag": getattr(st["shared"], "prio", None)}

    def ensures(self, c, st, res):
        out = []
        branches = set()
        structure = True
        def walk(n, acc):
            acc.append(n)
            for k in getattr(n, "propositions", None) or []:
                walk(k, acc)
            return acc
        out.append(("shape.defaults.caller's-proposition-untagged", res["shared_tag"] is None))
        for (kind, vid, items, default), rule in zip(RULES + (("Any", "w", ["e2", "S"], ["e2"]),), res["rules"]):
            found = None
            for n in walk(rule, []):
                kids = list(getattr(n, "propositions", None) or [])
                if len(kids) == 2:
                    leaf = [k for k in kids if str(k.id) == default[0] and not hasattr(k, "propositions")]
                    rest = [k for k in kids if hasattr(k, "propositions")]
                    if len(leaf) == 1 and len(rest) == 1 and \
                            sorted(str(x.id) for x in rest[0].propositions) == sorted(set(items) - {default[0]}):
                        found = rest[0]
            structure = structure and found is not None
            if found is not None:
                branches.add(str(found.id))
        out.append(("shape.defaults.structure", structure))
        poly, dp = res["poly"], res["dp"]
        cols = [str(v.id) for v in poly.variables]
        vec = list(poly.default_prio_vector)
        okv = len(vec) == len(cols) - 1 or len(vec) == len(cols)
        off = len(cols) - len(vec)
        v_ok, d_ok = okv, True
        if okv:
            for j, x in enumerate(vec):
                cid = cols[j + off]
                want = -2 if cid in branches else -1
                v_ok = band(v_ok, x == want)
                d_ok = band(d_ok, (cid in dp) and dp[cid] == want) if cid in dp else False
        out.append(("shape.defaults.vector", v_ok))
        out.append(("shape.defaults.dict", d_ok))
        return out

    def concretise(self, case, k, model, c, st):
        return {"case": dict(case), "value": _mv(model, z3.Int("value.Zrule"))}

    def replay(self, w):
        import puan
        import puan.logic.plog as pg
        import puan.modules.configurator as cc
        rules, branches, violated, detail = [], set(), [], {}
        for kind, vid, items, default in RULES:
            rule = getattr(cc, kind)(*items, default=list(default), variable=vid)
            rules.append(rule)
            found = None
            for n in rule.flatten():
                kids = getattr(n, "propositions", None)
                if kids and len(kids) == 2:
                    leaf = [k for k in kids if k.id == default[0] and not hasattr(k, "propositions")]
                    rest = [k for k in kids if hasattr(k, "propositions")]
                    if leaf and rest and sorted(x.id for x in rest[0].propositions) == sorted(set(items) - {default[0]}):
                        found = rest[0].id
            if found is None:
                violated.append("shape.defaults.structure"); detail[vid] = rule.to_text()
            else:
                branches.add(found)
        shared = pg.All("p", "q", variable="S")
        rule = cc.Any("e2", shared, default=["e2"], variable="w")
        rules.append(rule)
        found = None
        for n in rule.flatten():
            kids = getattr(n, "propositions", None)
            if kids and len(kids) == 2 and any(k.id == "e2" for k in kids) and any(hasattr(k, "propositions") and [x.id for x in k.propositions] == ["S"] for k in kids):
                found = [k for k in kids if hasattr(k, "propositions")][0].id
        if found is None:
            violated.append("shape.defaults.structure"); detail["w"] = rule.to_text()
        else:
            branches.add(found)
        if getattr(shared, "prio", None) is not None:
            violated.append("shape.defaults.caller's-proposition-untagged"); detail["S.prio"] = shared.prio
        plain = pg.AtLeast(w.get("value", 1), [puan.variable("b"), puan.variable("d")], variable="Zrule", sign=w["case"]["sign"])
        cfg = cc.StingyConfigurator(*rules, plain, id=w["case"]["cfg"])
        poly, dp = cfg.ge_polyhedron, cfg.default_prios
        cols = [v.id for v in poly.A.variables]
        vec = [int(x) for x in poly.default_prio_vector]
        for cid, x in zip(cols, vec):
            want = -2 if cid in branches else -1
            if x != want and "shape.defaults.vector" not in violated:
                violated.append("shape.defaults.vector"); detail["column"] = str(cid); detail["got"] = x; detail["want"] = want
            if dp.get(cid) != want and "shape.defaults.dict" not in violated:
                violated.append("shape.defaults.dict"); detail["key"] = str(cid); detail["dict_value"] = dp.get(cid)
        return {"violated": sorted(set(violated)), "detail": detail}


HARNESSES = [DefaultsShapeH()]
