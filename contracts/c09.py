"""C09 -- queries are pure: frame obligations (`modifies nothing that existed before the call`) for every method under
contract, decided per path by a heap snapshot around the symbolic execution of the real code (every feasible path of
the method is enumerated, so a store on any path is found; no solver is involved: the obligation kind is input-free).

Covered stores: attributes of the receiver and of every object reachable from the arguments, in-place mutation of
their lists, and the mutable module-level / class-level containers of the repository modules (process-wide caches).
"""
import z3
from pyvc.engine import Harness
from .c05 import NegateH
from .assume import AssumeH, VariableAssumeH, VariableEvaluateH
from .reduce import ReduceH
from .flags import FlagsH
from .c04 import AllH, AnyH, XorH, XNorH, ImplyH, NotH, AtMostH, AtLeastKH
from .c18 import AddH
from .c14 import DefaultPriosH


def framed(cls, name=None):
    class F(cls):
        frame = True
        frame_only = True
    F.__name__ = "Frame" + cls.__name__
    obj = F()
    obj.name = "frame:" + (name or cls.name)
    return obj


class ToShortH(Harness):
    """to_short / to_json / __repr__-free serialisers of a node with abstract children"""
    name = "frame:AtLeast.to_json,to_short"
    function = "AtLeast.to_json"
    frame = True
    frame_only = True

    def cases(self):
        return [{"sign": 1, "generated_id": False}, {"sign": -1, "generated_id": True}]

    def contracts(self, repo):
        from pyvc.nodes import Contract
        return {"to_json": Contract("to_json", "value", [], arg_key=lambda: (), result_factory=lambda node: {"abs": node})}

    def setup(self, c, case):
        from .common import new_base, new_family, child_invariants, mk_atleast
        base = new_base(c, "X")
        fam = new_family(c, "X", base)
        child_invariants(c, fam)
        node = mk_atleast(c, c.repo, c.repo.plog.AtLeast, "self", fam, case["sign"], case["generated_id"])
        return {"self": node}

    def run(self, c, st):
        n = st["self"]
        return (n.to_short(), n.to_json())


def framed_shape(cls, shapes=("flat", "nested")):
    """frame obligation around an END-TO-END run of the real recursive code on tree shapes (contracts/shapes.py)"""
    class F(cls):
        frame = True
        frame_only = True
        quick_shapes = list(shapes)
        thorough_shapes = list(shapes) + ["shared-leaf"]
    F.__name__ = "Frame" + cls.__name__
    obj = F()
    obj.name = "frame:" + cls.name
    return obj


HARNESSES = [framed(NegateH), framed(AssumeH), framed(VariableAssumeH), framed(VariableEvaluateH), framed(ReduceH),
             framed(FlagsH), framed(AllH), framed(AnyH), framed(XorH), framed(XNorH), framed(ImplyH), framed(NotH),
             framed(AtMostH), framed(AtLeastKH), ToShortH(), framed(AddH), framed(DefaultPriosH)]

from .shapes import ShapeEvaluateH, ShapeNegateH, ShapeReduceH, ShapeJsonH
from .c10shape import ErrorsShapeH
from .c01glue import GlueH
HARNESSES += [framed_shape(ShapeEvaluateH), framed_shape(ShapeNegateH), framed_shape(ShapeReduceH), framed_shape(ShapeJsonH),
              framed(ErrorsShapeH), framed(GlueH)]

# readers / writers / solver routes: nothing reachable from the arguments and no module-level container, class-level container
# or mutable default argument of the repository's modules may change (a class list extended in place by one reader changes
# what every later reader sees)
from .c16 import StingyRT, CcAnyRT, CcXorRT
from .c04rules import CicJEH, JsonRecordH
from .c14shape import DefaultsShapeH
from .c15 import SolveBuiltinH
from .c01glue import GlueReducedH
HARNESSES += [framed(StingyRT), framed(CcAnyRT), framed(CcXorRT), framed(CicJEH), framed(JsonRecordH), framed(DefaultsShapeH),
              framed(SolveBuiltinH), framed(GlueReducedH)]


# ------------------------------------------------------------------------------------------------------------------
# process-wide caches: key soundness (DESIGN 3.5: input-free obligation kind `cache-key`)
# ------------------------------------------------------------------------------------------------------------------
import ast
from pyvc.engine import FrameViolation, NotRecognised
from pyvc.sym import Unsupported


class CacheKeyH(Harness):
    """Every function of the repository that is wrapped in functools.lru_cache / functools.cache is keyed by its
    arguments' (__hash__, __eq__).  For methods the key contains `self`.  Obligation per cached method of a proposition
    class:  a == b and hash(a) == hash(b)  =>  a and b have the same definition  -- decided by executing the real
    __eq__/__hash__ of AtLeast on two symbolic nodes (see the lemma harness KeyCollisionLemma).  On this code base the
    implication does NOT hold (__eq__ compares id, value and equation bounds only; Bounds hash to a sum), so every such
    cache is reported; there is none on the unchanged tree."""
    name = "cache-key"
    function = "AtLeast.__eq__"
    functions = ["AtLeast.__eq__", "AtLeast.__hash__", ("puan", "variable.__hash__"), ("puan", "Bounds.__hash__")]

    def setup(self, c, case):
        repo = c.repo
        for m in ("puan.ndarray", "puan.modules.configurator"):
            repo.load(m)
        return {}

    def run(self, c, st):
        found = []
        for mname, (path, src) in c.repo.sources.items():
            if mname == "maz":
                continue
            tree = ast.parse(src)
            for cls in [n for n in ast.walk(tree) if isinstance(n, ast.ClassDef)] + [tree]:
                for fn in [n for n in getattr(cls, "body", []) if isinstance(n, ast.FunctionDef)]:
                    for dec in fn.decorator_list:
                        txt = ast.unparse(dec)
                        if "lru_cache" in txt or txt.endswith("functools.cache") or txt == "cache":
                            first = fn.args.args[0].arg if fn.args.args else None
                            is_method = isinstance(cls, ast.ClassDef) and first == "self" and \
                                not any(ast.unparse(d) in ("staticmethod", "classmethod") for d in fn.decorator_list)
                            keyed_by_proposition = is_method and mname in ("puan", "puan.logic.plog", "puan.modules.configurator")
                            found.append((mname, getattr(cls, "name", "<module>"), fn.name, fn.lineno, txt, keyed_by_proposition))
        return found

    def ensures(self, c, st, res):
        out = [("cache-key.scan", True)]
        for mname, cls, fn, line, txt, keyed in res:
            if keyed:
                out.append((f"cache-key[{mname}:{cls}.{fn}]",
                            FrameViolation(f"{txt} at {mname}:{line}: the key is the receiver's (__hash__, __eq__), which identify "
                                           f"differently defined propositions (lemma key_collision: refuted)")))
            else:
                # a memoised function whose key is not a proposition / configurator receiver: whether the key determines
                # the result cannot be read off the source; the history stand-ins decide
                out.append((f"cache-key[{mname}:{cls}.{fn}]",
                            NotRecognised(f"{txt} at {mname}:{line}: memoised function not keyed by a proposition receiver")))
        return out


class KeyCollisionLemma(Harness):
    """must be REFUTED on this code base: equal under AtLeast.__eq__ and equal hash => same leaf bounds"""
    name = "canary.key_collision"
    function = "AtLeast.__eq__"

    def setup(self, c, case):
        from .c10 import sym_compound
        c.symbolic_ids = True
        a, b = sym_compound(c, "a", 1, 2), sym_compound(c, "b", 1, 2)
        return {"a": a, "b": b}

    def run(self, c, st):
        from pyvc.shim import hash_
        a, b = st["a"], st["b"]
        return {"eq": a == b, "heq": hash_(a) == hash_(b)}

    def ensures(self, c, st, res):
        a, b = st["a"], st["b"]
        same_ids = band(*[x.id == y.id for x, y in zip(a.propositions, b.propositions)])
        same_leaves = band(*[band(x.bounds.lower == y.bounds.lower, x.bounds.upper == y.bounds.upper)
                             for x, y in zip(a.propositions, b.propositions)])
        return [("must-fail", implies(band(res["eq"], res["heq"], same_ids), same_leaves))]


from pyvc.nodes import band, implies
HARNESSES.append(CacheKeyH())
CANARIES = [KeyCollisionLemma()]
