"""C09 -- queries are pure: frame obligations (`modifies nothing that existed before the call`) for every method under
contract, decided per path by a heap snapshot around the symbolic execution of the real code (every feasible path of
the method is enumerated, so a store on any path is found; no solver is involved: the obligation kind is input-free).

Covered stores: attributes of the receiver and of every object reachable from the arguments, in-place mutation of
their lists, and the mutable module-level / class-level containers of the repository modules (process-wide caches).
"""
import z3
from pyvc.engine import Harness
from .c05 import NegateH
from .assume import AssumeH, VariableAssumeH, VariableEvaluateH
from .reduce import ReduceH
from .flags import FlagsH
from .c04 import AllH, AnyH, XorH, XNorH, ImplyH, NotH, AtMostH, AtLeastKH


def framed(cls, name=None):
    class F(cls):
        frame = True
        frame_only = True
    F.__name__ = "Frame" + cls.__name__
    obj = F()
    obj.name = "frame:" + (name or cls.name)
    return obj


class ToShortH(Harness):
    """to_short / to_json / __repr__-free serialisers of a node with abstract children"""
    name = "frame:AtLeast.to_json,to_short"
    function = "AtLeast.to_json"
    frame = True
    frame_only = True

    def cases(self):
        return [{"sign": 1, "generated_id": False}, {"sign": -1, "generated_id": True}]

    def contracts(self, repo):
        from pyvc.nodes import Contract
        return {"to_json": Contract("to_json", "value", [], arg_key=lambda: (), result_factory=lambda node: {"abs": node})}

    def setup(self, c, case):
        from .common import new_base, new_family, child_invariants, mk_atleast
        base = new_base(c, "X")
        fam = new_family(c, "X", base)
        child_invariants(c, fam)
        node = mk_atleast(c, c.repo, c.repo.plog.AtLeast, "self", fam, case["sign"], case["generated_id"])
        return {"self": node}

    def run(self, c, st):
        n = st["self"]
        return (n.to_short(), n.to_json())


HARNESSES = [framed(NegateH), framed(AssumeH), framed(VariableAssumeH), framed(VariableEvaluateH), framed(ReduceH),
             framed(FlagsH), framed(AllH), framed(AnyH), framed(XorH), framed(XNorH), framed(ImplyH), framed(NotH),
             framed(AtMostH), framed(AtLeastKH), ToShortH()]
