"""Which harnesses / stand-ins decide which property."""

S_ALL = [
    "S1 Python int is a mathematical integer (true in CPython)",
    "S3 attribute lookup follows the classes built by executing the real source; no monkey patching at run time",
    "S5/S7 sorted() returns a permutation; a child list is treated as a bag once it has an abstract segment",
    "S6 hash(int)=int for |x|<2^61-1 except hash(-1)=-2; str hashes uninterpreted; A-hash: tuple hashes collide only when the component hashes coincide",
    "S8 map()/filter() over an abstract sequence are one-shot iterators whose consumers run one after the other",
    "ids are modelled as totally ordered opaque values (==, <, hash; startswith/endswith/in as uninterpreted predicates fixed on concrete and generated ids)",
    "comprehensions and for-loops of the module text are desugared mechanically before compilation (pyvc.desugar); loops over an abstract sequence are executed once on the generic element with append / integer accumulation / early exit turned into folds",
    "A-sha: AtLeast._id_generator is replaced by its assumed contract (result is a function of child ids, value, sign) when its arguments are symbolic",
    "maz.filter_map_concat is replaced by its assumed contract on abstract sequences (the real maz source runs otherwise)",
]

def only(*names):
    return lambda h: h.name in names


PROPERTIES = {
    "C01": {
        "harness_modules": ["contracts.c01", "contracts.c01glue"],
        "harness_filter": only("lemma.enc_sound", "AtLeast.to_ge_polyhedron(glue)", "AtLeast.to_ge_polyhedron(reduced transport)"),
        "rt": ["rt.logic:a_rs1_rows", "rt.logic:c01_encoding", "rt.logic:c01_reduced_transport"],
        "level": "other",
        "assumptions": S_ALL + ["A-rs1 (assumed contract of the compiled extension puan_rspy.TheoryPy.to_ge_polyhedron: one big-M row per compound, "
                                "e_k = sum min(s*lo, s*hi), m_k = e_k - value, asserted top row without own column); validated at run "
                                "time row by row together with the Python glue of AtLeast.to_ge_polyhedron, not proved"],
        "explanation": "deductive: lemma.enc_sound -- given the rows of A-rs1, for a node with any number of children, both signs, all "
                       "bounds and thresholds, the row holds at (leaf assignment in bounds, truth values of sub-propositions) and the "
                       "asserted top row holds iff the node is true (induction on height). bounded stand-ins: (1) the matrix "
                       "returned by the real to_ge_polyhedron equals the rows A-rs1 predicts, row for row, with the model's ids and "
                       "bounds on the columns (this covers the Python statement building and column re-attachment); (2) end to end "
                       "A x >= b <=> evaluate on random models incl. wide bounds and near-identical variants in sequence. ADDED: contracts.c01glue -- the real to_ge_polyhedron glue against the executable A-rs1 model (pyvc.rsmodel) for 4 tree shapes x all sign assignments, symbolic thresholds and leaf bounds: columns carry ids and bounds, rows hold at truth values iff the model is true (active) / always (inactive). reduced=True: the reduction happens inside the compiled extension and is outside every contract here (natively it was seen to lose solutions, DESIGN 8); only the glue's TRANSPORT of the extension's answer is under contract (open contract: fresh symbolic matrix) -- column 0 its right-hand side, the rest its matrix, columns labelled by statement index behind the support variable -- plus the stand-in rt.c01_reduced_transport against the compiled extension.",
    },
    "C02": {
        "harness_modules": ["contracts.c01", "contracts.c01glue", "contracts.c05"],
        "rt": ["rt.logic:a_rs1_rows", "rt.logic:c02_solutions"],
        "level": "other",
        "assumptions": S_ALL + ["A-rs1 (see C01)"],
        "explanation": "deductive: lemma.enc_sound (completeness: a satisfying assignment extends to a point, X := truth values) and "
                       "lemma.sound_safe (for a node with no compound child under a negative sign, every in-bounds integer point of "
                       "its row has X_k <= truth(k); an asserted top row gives truth = 1), any number of children, induction on "
                       "height; negation re-establishes the safe form: AtLeast.negate (real source, the harness of C05 -- complement, safe form over boolean leaves, id) is part of this check as well, since Imply / XNor / Not are built from it. bounded stand-ins: A-rs1 row validation; all "
                       "integer points of small polyhedra; sampled points for wide bounds; unsafe models as reachability canaries. ADDED: contracts.c01glue glue.c02.converse -- for solver-safe sign assignments every in-bounds integer point of the asserted polyhedron produced by the real glue over the A-rs1 model has a leaf part that makes the model true (bounded in shape, unbounded in values).",
    },
    "C03": {
        "harness_modules": ["contracts.assume", "contracts.c03", "contracts.shapes"],
        "harness_filter": only("AtLeast.assume", "variable.assume", "variable.evaluate", "lemma.ival_wf", "lemma.total_const",
                               "AtLeast.evaluate", "shape.evaluate", "shape.fixed-node"),
        "rt": ["rt.logic:c03_evaluate_glue", "rt.logic:history_sequences"],
        "level": "other",
        "assumptions": S_ALL,
        "explanation": "deductive: assume/post.bounds (the bounds assume() returns are ival, for every child count and value form), "
                       "variable.assume/evaluate, lemma.total_const (total interpretation => ival == truth function with the "
                       "override clause); evaluate()/evaluate_propositions() (real source) against the contracts of assume and "
                       "flatten: evaluate(d) == top entry == ival(self, d). ASSUMED: the flatten contract (the list contains the "
                       "node itself; in the assumed model every node with that id has its bounds). bounded stand-ins: the "
                       "same glue end to end incl. overrides of sub-proposition ids, and repeated queries on one object END TO END (contracts.shapes): the real recursive code on concrete tree shapes (flat, nested, shared leaf[, depth 3]) x all sign assignments with symbolic thresholds, leaf bounds and interpretations, no callee contracts: evaluate(e) and the top entry of evaluate_propositions(e) equal the truth value; shape.fixed-node: the same with one compound node (the model's own id or an inner one) fixed to a symbolic constant as int / (k,k) / Bounds(k,k).",
    },
    "C04": {
        "harness_modules": ["contracts.c04", "contracts.c05", "contracts.c16", "contracts.c04rules"],
        "harness_filter": lambda h: type(h).__module__ in ("contracts.c04", "contracts.c05", "contracts.c04rules") or h.name in (
            "json:AtLeast", "json:AtMost", "json:All", "json:Any", "json:Xor", "json:XNor", "json:Imply"),
        "rt": ["rt.logic:c04_json_and_rules"],
        "level": "other",
        "assumptions": S_ALL + ["children of a node are pairwise distinct under (hash, ==) (validated models: no node lists a child twice)"],
        "explanation": "deductive: All/Any/AtLeast/AtMost/Xor/XNor/Imply/Not constructors (real source) over an abstract duplicate-free "
                       "child list with 0/1 truth values: truth function of the built node == documented connective; nesting by "
                       "the modular argument (negate's contract from C05 for Imply/Not/XNor). JSON route: the round-trip obligations of "
                       "C16 (json:<class>: from_json(to_json(K(children, k))) has K's truth function, every child count, symbolic "
                       "threshold) composed with the constructor obligations above -- a record some constructor can emit is read "
                       "back with the documented meaning. Rule dictionaries (contracts.c04rules): the real Imply.from_cicJE on 240 concrete rule dictionaries (5 rule types x groups of 1-3 components x "
                       "no condition / 1-2 sub-conditions under ALL/ANY x with/without group ids), truth function == documented meaning for every "
                       "0/1 assignment (symbolic); from_json(records): plog.from_json on hand-written records of all 8 types over leaves and nested records, "
                       "symbolic thresholds (at-least-k for k >= 1, at-most-k for every integer k), with/without id. bounded stand-in: random hand-written JSON records and the "
                       "same rule dictionaries natively.",
    },
    "C05": {
        "harness_modules": ["contracts.c05", "contracts.shapes"],
        "harness_filter": only("AtLeast.negate", "shape.negate"),
        "rt": ["rt.logic:c05_negation_e2e"],
        "level": "proof",
        "assumptions": S_ALL,
        "explanation": "AtLeast.negate (real source) executed symbolically per path x sign x generated_id over an abstract "
                       "child list of any length; postconditions complement/safe/id proved with the callee contract as "
                       "induction hypothesis on compound children. (An end-to-end runtime check through evaluate() runs as well.) END TO END (contracts.shapes): the real recursive code on concrete tree shapes (flat, nested, shared leaf[, depth 3]) x all sign assignments with symbolic thresholds, leaf bounds and interpretations, no callee contracts: negate() evaluates to the complement and keeps the id.",
    },
    "C06": {
        "harness_modules": ["contracts.assume", "contracts.flags", "contracts.shapes"],
        "harness_filter": only("AtLeast.assume", "variable.assume", "variable.evaluate", "lemma.ival_wf", "lemma.sound",
                               "AtLeast.flags", "shape.partial"),
        "rt": ["rt.logic:c06_partial_soundness", "rt.logic:history_sequences"],
        "level": "proof",
        "assumptions": S_ALL,
        "explanation": "assume/post.bounds (the reported bounds are ival) + lemma.sound (ival contains the value under every "
                       "completion) + is_tautology / is_contradiction / equation_bounds soundness and exactness. END TO END (contracts.shapes): the real recursive code on concrete tree shapes (flat, nested, shared leaf[, depth 3]) x all sign assignments with symbolic thresholds, leaf bounds and interpretations, no callee contracts: evaluate(partial) contains the truth value of every in-bounds completion.",
    },
    "C07": {
        "harness_modules": ["contracts.assume", "contracts.shapes"],
        "harness_filter": only("AtLeast.assume", "variable.assume", "lemma.ival_wf", "lemma.refine", "shape.assume", "shape.own-range"),
        "rt": ["rt.logic:c07_assume_compose", "rt.logic:history_sequences"],
        "level": "proof",
        "assumptions": S_ALL,
        "explanation": "AtLeast.assume / variable.assume (real source) against post.c07: for every further interpretation e of "
                       "the remaining leaves, ival(assume(d), e) == ival(self, d|e); plus the spec lemmas it uses. ADDED stand-in: rt.c07_assume_compose checks the property as stated (assume(a).evaluate(r) == evaluate(a|r)) for int / range / Bounds / constant-tuple values and sub-proposition ids. END TO END (contracts.shapes): the real recursive code on concrete tree shapes (flat, nested, shared leaf[, depth 3]) x all sign assignments with symbolic thresholds, leaf bounds and interpretations, no callee contracts: assume(a).evaluate(r) == evaluate(a|r) for every split of the leaves.",
    },
    "C08": {
        "harness_modules": ["contracts.reduce", "contracts.shapes"],
        "harness_filter": only("AtLeast.reduce", "shape.reduce"),
        "rt": ["rt.logic:c08_reduce_e2e", "rt.logic:history_sequences"],
        "level": "proof",
        "assumptions": S_ALL + ["lemma.refine (proved in contracts.assume) is used as a fact about compound children"],
        "explanation": "AtLeast.reduce (real source): post.bounds / post.meaning (ival(reduce(self), e) == ival(self, e) for every "
                       "in-bounds interpretation e of leaves) / post.noconst / id / invariant, for every child count. END TO END (contracts.shapes): the real recursive code on concrete tree shapes (flat, nested, shared leaf[, depth 3]) x all sign assignments with symbolic thresholds, leaf bounds and interpretations, no callee contracts: reduce().evaluate(e) == evaluate(e).",
    },
    "C09": {
        "harness_modules": ["contracts.c09"],
        "rt": ["rt.config:c09_purity", "rt.config:c09_configurator_purity", "rt.config:c09_configurator_cache", "rt.logic:history_sequences"],
        "level": "other",
        "assumptions": S_ALL,
        "explanation": "deductive (input-free) frame obligations: every feasible path of negate / assume / variable.assume / "
                       "variable.evaluate / reduce / equation_bounds,is_tautology,is_contradiction / the connective constructors / "
                       "to_short,to_json is executed symbolically and a heap snapshot shows that no pre-existing object, list or "
                       "module-level container is written. bounded stand-ins: deep snapshots around sequences of public calls "
                       "(all public methods incl. evaluate/to_ge_polyhedron/solve), two-configurator cache scenario ADDED: frame obligations for StingyConfigurator.add and default_prios; stand-in rt.c09_configurator_purity (sequences of configurator calls incl. add/select). ADDED: frame obligations around the end-to-end shape runs (evaluate, evaluate_propositions, negate, reduce, JSON round trip, errors, to_ge_polyhedron glue). ADDED: frame obligations around the readers/writers and solver routes (StingyConfigurator / cc.Any / cc.Xor to_json+from_json, plog.from_json on hand-written records, Imply.from_cicJE, default_prios/ge_polyhedron of a concrete configurator, the built-in solve route, reduced transport); the snapshot covers module-level and class-level containers AND mutable default arguments of the repository's functions; the stand-in probes OTHER objects (readers, constructors) after every call against their answers at process start.",
    },
    "C10": {
        "harness_modules": ["contracts.c10", "contracts.c10shape"],
        "lean": True,
        "rt": ["rt.logic:c10_validation"],
        "level": "other",
        "assumptions": S_ALL,
        "explanation": "deductive: the key functions of errors()'s two ambivalence checks and of its duplicate-edge check, extracted "
                       "from the real source on every run, identify two nodes exactly when id and definition agree (all ids, bounds, "
                       "signs, values, child ids); with Lean's card_image_comp_iff this makes each cardinality check accept "
                       "exactly the single-definition models. bounded stand-in: traversal (_occurrences), cycle check, glue, both "
                       "directions on adversarial id/bounds palettes. ADDED: contracts.c10shape -- the real errors() (with _occurrences, _dependencies, flatten, graphlib) on tree shapes with symbolic bounds of a repeated leaf id / symbolic thresholds and signs of a repeated sub-proposition id (explicit and generated): accepted iff one definition; cycle, repeated child, differing children or own bounds rejected; tree and shared sub-proposition accepted.",
    },
    "C11": {"harness_modules": ["contracts.c11"], "rt": ["rt.arrays:poly_same_object", "rt.arrays:c11_reduce"], "level": "other",
            "assumptions": S_ALL + ["S2 (exact division/floor, see C12)", "variable bounds within the 16-bit default range"],
            "explanation": "deductive, bounded in shape and unbounded in values (symbolic coefficients, right-hand sides, bounds, forced "
                           "values): reducable_rows sound and exact; reducable_columns_approx: a reported value is taken by every "
                           "in-bounds integer solution and lies in the box; reduce_columns (shapes up to 2x3, every forced/NaN "
                           "pattern): each row of the result is equivalent to the original row with the forced values re-inserted, "
                           "variables follow the kept columns, index kept; reduce_rows (up to 3 rows, every flag pattern): kept rows, "
                           "index and variables; the fix-point loop reducable_rows_and_columns for shapes 1x1 and 2x1 (1x2 in the "
                           "thorough tier): forced columns are forced in every solution and flagged rows hold wherever the forced "
                           "columns agree (the while loop is enumerated path by path, bounded by the shape). bounded stand-in: "
                           "matrices up to 3x3 against brute-force solution sets, incl. the projection property end to end."},
    "C12": {"harness_modules": ["contracts.c12"], "rt": ["rt.arrays:poly_same_object", "rt.arrays:c12_tighten"], "level": "other",
            "assumptions": S_ALL + ["S2: `/` is exact real division and floor the real floor (float rounding of numpy is NOT modelled; "
                                    "the stand-in sweeps coefficient magnitudes up to 130 with exact quotients for that)",
                                    "variable bounds lie within the library's default 16-bit range (precondition of the property)"],
            "explanation": "deductive, bounded in shape (1x1, 1x2, 2x1, 2x2; row_bounds, never-widen and n_row_combinations also 1x3, 3x1, 2x3; column ids in non-sorted order) and unbounded in values: the real bodies of row_bounds, "
                           "tighten_column_bounds, n_row_combinations (with column_bounds, A, b, A_max) run on arrays with symbolic "
                           "integer coefficients, right-hand sides and bounds: row bounds contain every box point and are attained; "
                           "tightened bounds contain every in-bounds integer solution and never widen; combination counts are the "
                           "product over non-zero columns. bounded stand-in: matrices up to 3x3 incl. large coefficients against "
                           "brute force, and the same polyhedron object queried repeatedly."},
    "C13": {"harness_modules": ["contracts.c13"], "rt": ["rt.arrays:a_rs2_bit_allocation", "rt.arrays:c13_compress"], "level": "other",
            "assumptions": S_ALL + ["A-rs2 (assumed contract of the compiled py_optimized_bit_allocation_64, found by experiment): reading the non-zero "
                                    "values left to right, an entry equal to its predecessor gets the predecessor's weight, any other entry 1 + the "
                                    "sum of all weights before it; the deductive 'shadow' obligations are proved over its executable form "
                                    "(pyvc.rsmodel) and the model is validated against the compiled function at run time; 64-bit overflow not modelled"],
            "explanation": "deductive (2-D arrays 1x2, 2x2, 3x2, 2x3 with symbolic entries, both axes; 1-D with axis=None): 'first' / "
                           "'last' / 'min' / 'max' return the first / last non-zero, the smallest non-zero (0 if none) and the largest "
                           "entry of each line. bounded stand-in: 'shadow' (zeros, signs, ties, order incl. later rows above earlier, "
                           "strict dominance, priorities beyond 2**53), 'prio' / 'rank' (dense, order preserving), batched 3-D. ADDED: ranking (1-D, row-wise 2-D), prio/rank (1x2, 2x1, 2x2; 2x3, 3x2 thorough; both axes) and shadow (1-D n<=3, 2-D <=2x2; larger thorough) through the real Python code with symbolic entries; for shadow the compiled bit allocation is replaced by the executable form of its assumed contract A-rs2 (pyvc.rsmodel), which is validated against the compiled function at run time."},
    "C14": {"harness_modules": ["contracts.c14", "contracts.c14shape", "contracts.c15"], "lean": True,
            "harness_filter": lambda h: type(h).__module__ in ("contracts.c14", "contracts.c14shape") or h.name == "StingyConfigurator.select", "rt": ["rt.arrays:a_rs2_bit_allocation", "rt.config:c14_objectives"], "level": "other",
            "assumptions": S_ALL + ["A-rs2: the weights come from puan_rspy.py_optimized_bit_allocation_64 (compiled Rust): assumed contract as "
                                    "an executable model (pyvc.rsmodel, see C13), validated against the compiled function at run time"],
            "explanation": "deductive: cc.Any.__init__ / cc.Xor.__init__ (real source, abstract duplicate-free boolean children of any "
                           "number): same truth function as Any / exactly-one; with a default among >= 2 children the non-default "
                           "children are moved into an inner Any tagged prio = -2 and the default branch keeps exactly the default "
                           "child (partition), plain Any otherwise; the default is recorded. Lean: dominance_two_level. bounded "
                           "stand-in: default_prios, _vectors_from_prios through select (sequences, batches, named groups) and the "
                           "lexicographic ranking of ALL pairs of feasible points of small configurators (ids of every sort position; default lists of several entries). StingyConfigurator.select (shared with C15) forwards the request unchanged, incl. priorities on named sub-propositions. END TO END (contracts.c14shape): real cc.Xor/cc.Any/StingyConfigurator constructors, real flatten, default_prios and ge_polyhedron on a concrete three-rule configurator (default lists of one and two entries; configurator id sorting first / in the middle / last; plain rule with symbolic threshold, both signs): the non-default branch is exactly the items without the FIRST listed default, its column holds -2 in the default priority vector and every other column -1. ADDED: StingyConfigurator.default_prios (tag or -1 for every flattened node, over the assumed flatten contract) and ge_polyhedron_config._vectors_from_prios (the [default vector, user row] stack handed to the shadow compression; compression itself replaced by a recorder) under contract with replay. ADDED: the objective vector end to end -- the real _vectors_from_prios including the real shadow compression over the executable form of A-rs2 (2-3 columns, symbolic default levels in {-1,-2}, symbolic user priorities): sign, equal levels equal weights, dominance of every level over the sum of all lower levels (the premise of the Lean lemma dominance_two_level)."},
    "C15": {"harness_modules": ["contracts.c15", "contracts.c14"],
            "harness_filter": only("AtLeast.solve", "ge_polyhedron_config.select", "StingyConfigurator.select",
                                   "ge_polyhedron_config._vectors_from_prios", "AtLeast.solve(built-in)",
                                   "ge_polyhedron_config._vectors_from_prios(end-to-end)"),
            "rt": ["rt.config:c15_bridge"], "level": "other", "assumptions": S_ALL +
            ["to_ge_polyhedron / _vectors_from_prios are replaced on the receiver by stubs returning a prepared polyhedron / objective matrix "
             "with symbolic entries (their own contracts: C01, C13/C14); optimality of an exact solver's answer over that polyhedron is the "
             "solver's contract, and satisfaction of safe models is C02"],
            "explanation": "deductive (symbolic weights, solutions, matrix entries; 1-3 columns incl. compounds with symbolic generated_id "
                           "flag): AtLeast.solve hands the solver the asserted polyhedron and objective vectors whose entry at each "
                           "column is the weight of that column's id (0 otherwise), reports {id: value} over the columns with the "
                           "generated-id filter, None -> {}, pass-through of value/status; ge_polyhedron_config.select likewise and "
                           "turns a solver exception into InfeasibleError; StingyConfigurator.select forwards and keeps exactly the "
                           "leaf ids under only_leafs. bounded stand-in: recording and exact solvers on random models/configurators, "
                           "batched vs single requests. ADDED: ge_polyhedron_config._vectors_from_prios under contract (user row = weight at the named column, 0 elsewhere, symbolic column bounds). ADDED (beyond the statement, which is about a supplied callable): AtLeast.solve(built-in) -- the branch without a callable, real _to_pyrs_theory and objective/solution translation against TheoryPy.solve as an OPEN contract (arguments recorded, answers fresh symbolic values): the dictionary handed to the compiled solver maps the statement of every named id to its weight and nothing else; the report maps every id to the value of its statement; replayed natively through a recording proxy around the compiled class."},
    "C16": {"harness_modules": ["contracts.c16", "contracts.shapes"],
            "harness_filter": lambda h: h.name.startswith("json:") or h.name in ("shape.json", "shape.json.imply"),
            "rt": ["rt.logic:c16_json_roundtrip", "rt.config:c16_configurator_json"], "level": "other",
            "assumptions": S_ALL + ["json.dumps/json.loads is the identity on the emitted records (checked by the stand-in only)"],
            "explanation": "deductive: for variable/AtLeast(explicit signs)/AtMost/All/Any/Xor/XNor/Imply the real to_json followed by the "
                           "real from_json gives a node with the same truth function under every in-bounds interpretation, keeps "
                           "an explicit id and emits none for a generated one, for every child count (compound children by the "
                           "to_json/from_json contracts = induction hypothesis); likewise cc.Any / cc.Xor (with and without default: "
                           "truth function, id, default and the -2 tagged branch kept) and StingyConfigurator (truth function, id, "
                           "class). bounded stand-ins: end-to-end through json.dumps/loads, Not, nested random models, "
                           "configurators (default priorities and polyhedron equality). END TO END (contracts.shapes): the real recursive code on concrete tree shapes (flat, nested, shared leaf[, depth 3]) x all sign assignments with symbolic thresholds, leaf bounds and interpretations, no callee contracts: from_json(to_json(model)) evaluates like the model and keeps the explicit id (real writer and reader through nested trees)."},
    "C17": {"harness_modules": ["contracts.c17"], "rt": ["rt.config:c17_b64"], "level": "other",
            "assumptions": S_ALL + ["A-pickle: pickle.loads(pickle.dumps(x)) reproduces plain-__dict__ objects and ndarrays; gzip and base64 "
                                    "are inverse pairs (standard library, not under contract)"],
            "explanation": "deductive (input-free alignment obligations decided on the real source by ast): the list pickled by "
                           "ge_polyhedron_config.to_b64 lists, in the positional order of __new__'s parameters, the array and every "
                           "attribute the class chain attaches (variables, index, default_prio_vector), from_b64 splats it into the "
                           "constructor; AtLeast.to_b64 / plog.from_b64 pass the object itself. Everything else is pickle's "
                           "(assumed). bounded stand-in: structural equality and equal select() answers after the round trip for "
                           "models, polyhedra (incl. wide integers) and configurators packed after they were queried."},
    "C18": {"harness_modules": ["contracts.c18", "contracts.c18shape"], "rt": ["rt.config:c18_add"], "level": "other", "assumptions": S_ALL,
            "explanation": "deductive: StingyConfigurator.add (real source, with All.__init__/AtLeast.__init__) on a configurator of any "
                           "width: refuses exactly the clashing ids, otherwise returns a StingyConfigurator with the same id whose "
                           "children are the old ones plus the new rule and whose threshold is their number; receiver untouched "
                           "(frame). bounded stand-in: equality of default priorities, polyhedra and solutions with direct "
                           "construction, sequences of additions, additions after the original was queried."},
    "C19": {"harness_modules": ["contracts.c19"], "harness_filter": only("ge_polyhedron.points"),
            "rt": ["rt.arrays:poly_same_object", "rt.arrays:c19_points"], "level": "other", "assumptions": S_ALL,
            "explanation": "deductive, bounded in shape (polyhedra 1x1, 2x2, 3x2; points of shape (c,), (1,c), (2,c), (1,2,c), (2,1,c)) and "
                           "unbounded in values: ineqs_satisfied / separable / ineq_separate_points (real source on the symbolic "
                           "ndarray layer) equal the row-by-row definition, output shapes follow the input shape. bounded "
                           "stand-in: random matrices up to 3x3 and point arrays of rank 1-3 on real numpy."},
    "C20": {"harness_modules": ["contracts.c19"],
            "harness_filter": only("variable_ndarray.construct", "variable_ndarray.variable_indices", "boolean_ndarray.to_list", "integer_ndarray.from_list",
                                   "ge_polyhedron.to_linalg"),
            "rt": ["rt.arrays:c20_bridges"], "level": "other", "assumptions": S_ALL,
            "explanation": "deductive (symbolic values and bounds, 1-3 variables, every presence pattern and dtype/default mode): "
                           "construct puts each given value at its id's column, ignores unknown ids and fills with callable "
                           "result / lower bound (int) / NaN (float); boolean and integer index sets partition the columns by "
                           "bounds == (0,1); to_list returns exactly the variables at the 1-entries in order (1-D and 2-D); "
                           "to_linalg / A / b split the support column with matching variables. bounded stand-in: from_list "
                           "conversions, unicode / integer ids, real numpy. ADDED: integer_ndarray.from_list / boolean_ndarray.from_list for symbolic duplicate-free ids (flat and nested form)."},
}
