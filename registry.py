"""Which harnesses / stand-ins decide which property."""

S_ALL = [
    "S1 Python int is a mathematical integer (true in CPython)",
    "S3 attribute lookup follows the classes built by executing the real source; no monkey patching at run time",
    "S5/S7 sorted() returns a permutation; a child list is treated as a bag once it has an abstract segment",
    "S6 hash(int)=int for |x|<2^61-1 except hash(-1)=-2; str/tuple hashes uninterpreted",
    "S8 iterators over abstract sequences are modelled as re-iterable sequences (one-shot exhaustion not modelled)",
    "ids are modelled as totally ordered opaque values (==, <, hash only)",
    "A-sha: AtLeast._id_generator is replaced by its assumed contract (result is a function of child ids, value, sign) when its arguments are symbolic",
    "maz.filter_map_concat is replaced by its assumed contract on abstract sequences (the real maz source runs otherwise)",
]

def only(*names):
    return lambda h: h.name in names


PROPERTIES = {
    "C04": {
        "harness_modules": ["contracts.c04", "contracts.c05"],
        "level": "proof",
        "assumptions": S_ALL + ["children of a node are pairwise distinct under (hash, ==) (validated models: no node lists a child twice)"],
        "explanation": "All/Any/AtLeast/AtMost/Xor/XNor/Imply/Not constructors (real source) over an abstract duplicate-free child "
                       "list with 0/1 truth values: truth function of the built node == documented connective; nesting by "
                       "the modular argument (negate's contract from C05 for Imply/Not/XNor).",
    },
    "C08": {
        "harness_modules": ["contracts.reduce"],
        "level": "proof",
        "assumptions": S_ALL + ["lemma.refine (proved in contracts.assume) is used as a fact about compound children"],
        "explanation": "AtLeast.reduce (real source): post.bounds / post.meaning (ival(reduce(self), e) == ival(self, e) for every "
                       "in-bounds interpretation e of leaves) / post.noconst / id / invariant, for every child count.",
    },
    "C06": {
        "harness_modules": ["contracts.assume", "contracts.flags"],
        "harness_filter": only("AtLeast.assume", "variable.assume", "variable.evaluate", "lemma.ival_wf", "lemma.sound",
                               "AtLeast.flags"),
        "level": "proof",
        "assumptions": S_ALL,
        "explanation": "assume/post.bounds (the reported bounds are ival) + lemma.sound (ival contains the value under every "
                       "completion) + is_tautology / is_contradiction / equation_bounds soundness and exactness.",
    },
    "C07": {
        "harness_modules": ["contracts.assume"],
        "harness_filter": only("AtLeast.assume", "variable.assume", "lemma.ival_wf", "lemma.refine"),
        "level": "proof",
        "assumptions": S_ALL,
        "explanation": "AtLeast.assume / variable.assume (real source) against post.c07: for every further interpretation e of "
                       "the remaining leaves, ival(assume(d), e) == ival(self, d|e); plus the spec lemmas it uses.",
    },
    "C05": {
        "harness_modules": ["contracts.c05"],
        "level": "proof",
        "assumptions": S_ALL,
        "explanation": "AtLeast.negate (real source) executed symbolically per path x sign x generated_id over an abstract "
                       "child list of any length; postconditions complement/safe/id proved with the callee contract as "
                       "induction hypothesis on compound children.",
    },
}
